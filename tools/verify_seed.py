#!/usr/bin/env python3
"""Confirm a seeded-change candidate before it is kept under seeded/<id>/.

  tools/verify_seed.py <candidate dir with patch.diff, demo.py, meta.json> [--skip-tests]

In a scratch worktree of /repo: (1) the patch applies; (2) the pinned test suite still has its
1069 stable tests passing with the patch; (3) demo.py exits non-zero on the patched tree and
0 on the pristine tree.  Prints a JSON verdict; exit 0 iff all three hold.
"""
import argparse
import json
import os
import re
import shutil
import subprocess
import sys
import tempfile


def sh(cmd, **kw):
    return subprocess.run(cmd, stdout=subprocess.PIPE, stderr=subprocess.STDOUT, **kw)


def main():
    ap = argparse.ArgumentParser()
    ap.add_argument("cand")
    ap.add_argument("--skip-tests", action="store_true")
    a = ap.parse_args()
    cand = os.path.abspath(a.cand)
    wt = tempfile.mkdtemp(prefix="seedverify-", dir="/var/tmp")
    os.rmdir(wt)
    verdict = {"candidate": cand}
    try:
        p = sh(["git", "-C", "/repo", "worktree", "add", "--detach", wt, "HEAD"])
        assert p.returncode == 0, p.stdout.decode()
        demo = os.path.join(cand, "demo.py")
        env = dict(os.environ, PYTHONPATH=wt, PYTHONDONTWRITEBYTECODE="1")
        p0 = sh(["/venv/bin/python", demo, wt], env=env, timeout=1800, cwd=cand)
        verdict["demo_pristine_exit"] = p0.returncode
        p = sh(["git", "-C", wt, "apply", os.path.join(cand, "patch.diff")])
        if p.returncode:
            p = sh(["git", "-C", wt, "apply", "-3", os.path.join(cand, "patch.diff")])
        verdict["patch_applies"] = p.returncode == 0
        if p.returncode:
            verdict["apply_error"] = p.stdout.decode()[:500]
        else:
            p1 = sh(["/venv/bin/python", demo, wt], env=env, timeout=1800, cwd=cand)
            verdict["demo_mutated_exit"] = p1.returncode
            verdict["demo_mutated_tail"] = p1.stdout.decode(errors="replace")[-600:]
            if not a.skip_tests:
                t = sh(["/venv/bin/python", "-m", "pytest", "-q", "-p", "no:cacheprovider",
                        "--timeout=900", "-n", "6"], cwd=wt, timeout=3600)
                out = t.stdout.decode(errors="replace")
                m = re.search(r"(\d+) passed", out)
                verdict["tests_passed"] = int(m.group(1)) if m else 0
                verdict["tests_summary"] = out.strip().splitlines()[-1]
                failed = sorted(set(re.findall(r"^FAILED (\S+)", out, re.M)))
                verdict["tests_failed"] = failed
        ok = (verdict.get("patch_applies") and verdict.get("demo_pristine_exit") == 0
              and verdict.get("demo_mutated_exit", 0) != 0
              and (a.skip_tests or (verdict.get("tests_passed") == 1069 and all(
                  "cached_parser_is_up_to_date" in f for f in verdict.get("tests_failed", [])))))
        verdict["confirmed"] = bool(ok)
        print(json.dumps(verdict, indent=1))
        return 0 if ok else 1
    finally:
        sh(["git", "-C", "/repo", "worktree", "remove", "--force", wt])
        shutil.rmtree(wt, ignore_errors=True)


if __name__ == "__main__":
    sys.exit(main())
