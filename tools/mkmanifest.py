#!/usr/bin/env python3
"""Assemble MANIFEST.json from manifest.d/Cnn.json fragments and known_findings.json from
findings.d/*.json.  Run after editing a fragment; both outputs are committed.

A fragment is one `checks[]` entry of MANIFEST.schema.json, without quick_cmd /
thorough_cmd / evidence_file / replay_cmd_template (filled in here), or
{"property_id": ..., "not_applicable": "<reason>"}.
"""
import glob
import json
import os

HERE = os.path.dirname(os.path.dirname(os.path.abspath(__file__)))
props = [json.loads(l)["id"] for l in open(os.path.join(HERE, "properties.jsonl")) if l.strip()]
checks, na = [], []
for pid in props:
    p = os.path.join(HERE, "manifest.d", pid + ".json")
    if not os.path.exists(p):
        na.append({"property_id": pid, "reason": "no check built yet (work in progress; see DESIGN.md section 7)"})
        continue
    frag = json.load(open(p))
    if "not_applicable" in frag:
        na.append({"property_id": pid, "reason": frag["not_applicable"]})
        continue
    c = {
        "property_id": pid,
        "quick_cmd": "./check %s --tier quick" % pid,
        "thorough_cmd": "./check %s --tier thorough" % pid,
        "evidence_file": "evidence/%s.json" % pid,
        "replay_cmd_template": "./check %s --replay {path}" % pid,
        "engine": "lean4-model+correspondence",
    }
    c.update(frag)
    checks.append(c)
manifest = {
    "version": 1,
    "setup_cmd": "cd lean && lake build Emboss Driver && lake build $(sed -n 's/^name = \"\\(model_[a-z0-9_]*\\)\"/\\1/p' lakefile.toml)",
    "hooks": {
        "guard": "GOOGLE_EMBOSS_VERIF",
        "enable": "export GOOGLE_EMBOSS_VERIF=1 (set by harness/lib/common.py; no hook commits exist: every observation point used is public API)",
        "baseline_off_cmd": "cd /repo && /venv/bin/python -m pytest -ra -q -p no:cacheprovider --timeout=900 --continue-on-collection-errors",
        "source_commits": [],
        "add_only": True,
    },
    "engines": [{
        "name": "lean4-model+correspondence",
        "path": "lean/ (Lean 4 models, specs, theorems, drivers) + harness/ (Python correspondence, translators, search)",
        "serves_properties": [c["property_id"] for c in checks],
        "kind_free_text": "machine-checked proof in Lean 4 over executable models, tied to /repo on every run by regenerated tables and differential correspondence",
    }],
    "checks": checks,
    "not_applicable": na,
    "notes": "See DESIGN.md.  Exit 0 = held; 1 = VIOLATION line; 2 = infrastructure failure/time-out.",
}
json.dump(manifest, open(os.path.join(HERE, "MANIFEST.json"), "w"), indent=1)
findings = []
for p in sorted(glob.glob(os.path.join(HERE, "findings.d", "*.json"))):
    findings.extend(json.load(open(p)))
json.dump({"findings": findings}, open(os.path.join(HERE, "known_findings.json"), "w"), indent=1)
print("MANIFEST.json: %d checks, %d not_applicable; known_findings.json: %d entries" % (len(checks), len(na), len(findings)))
