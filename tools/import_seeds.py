#!/usr/bin/env python3
"""Copy confirmed seeded-change candidates (/tmp/seed/Cnn-out/mK + verdict in /var/tmp/seedlogs)
into seeded/<Cnn-mK>/ (patch.diff, demo.py, meta.json)."""
import glob, json, os, shutil
V = os.path.dirname(os.path.dirname(os.path.abspath(__file__)))
n = 0
for vf in sorted(glob.glob(os.path.join(os.environ.get("SEED_LOGS", "/var/tmp/seedlogs"), "C*-m*.json"))):
    sid = os.path.basename(vf)[:-5]
    try:
        verdict = json.load(open(vf))
    except Exception:
        continue
    if not verdict.get("confirmed"):
        continue
    src = os.path.join(os.environ.get("SEED_BASE", "/tmp/seed"), "%s-out/%s" % tuple(sid.split("-")))
    dst = os.path.join(V, "seeded", sid)
    os.makedirs(dst, exist_ok=True)
    for f in ("patch.diff", "demo.py"):
        shutil.copy(os.path.join(src, f), os.path.join(dst, f))
    meta = json.load(open(os.path.join(src, "meta.json")))
    out = {
        "property": meta.get("property", sid.split("-")[0]),
        "summary": meta.get("summary"),
        "files_changed": meta.get("files_changed"),
        "needs_to_manifest": meta.get("needs_to_manifest"),
        "why_tests_pass": meta.get("why_tests_pass"),
        "author": "fresh sub-agent given only the property text and a scratch worktree of /repo",
        "confirmed_by_integrator": {
            "how": "tools/verify_seed.py in a scratch worktree of /repo: patch applies; pinned suite; demo.py on patched and pristine tree",
            "tests_passed_with_patch": verdict.get("tests_passed"),
            "tests_failed_with_patch": verdict.get("tests_failed"),
            "demo_exit_patched": verdict.get("demo_mutated_exit"),
            "demo_exit_pristine": verdict.get("demo_pristine_exit"),
        },
    }
    json.dump(out, open(os.path.join(dst, "meta.json"), "w"), indent=1)
    n += 1
print("imported", n)
