#!/usr/bin/env python3
"""Rewrite lean/lakefile.toml's lean_exe section: union merges of builder branches collapse
identical `[[lean_exe]]` header lines; re-emit one block per (name, root) pair found."""
import os
import re

p = os.path.join(os.path.dirname(os.path.dirname(os.path.abspath(__file__))), "lean", "lakefile.toml")
s = open(p).read()
head = s.split("[[lean_exe]]")[0].rstrip() + "\n"
pairs = re.findall(r'name\s*=\s*"(model_[\w]+)"\s*\nroot\s*=\s*"([\w.]+)"', s)
seen, out = set(), [head]
for name, root in pairs:
    if name in seen:
        continue
    seen.add(name)
    out.append('\n[[lean_exe]]\nname = "%s"\nroot = "%s"\n' % (name, root))
open(p, "w").write("".join(out))
print("lakefile: %d exes" % len(seen))
