#!/usr/bin/env python3
"""Run registered checks against a seeded (property-breaking) change kept under seeded/<id>/.

  tools/run_seeded.py <seeded-id> [--props C05,C04] [--tier quick] [--seed N] [--in-repo]

Default mode applies seeded/<id>/patch.diff to a scratch git worktree of /repo under /var/tmp
and runs the checks with VERIF_REPO pointing there (so /repo itself is never disturbed while
other work reads it).  With --in-repo the patch is applied to /repo itself (git apply), the
checks run against /repo, and the patch is undone straight afterwards (git checkout -- .).
The result (exit codes, VIOLATION lines) is printed and stored in seeded/<id>/last_run.json.
"""
import argparse
import json
import os
import shutil
import subprocess
import sys
import tempfile

VERIF = os.path.dirname(os.path.dirname(os.path.abspath(__file__)))


def sh(cmd, **kw):
    return subprocess.run(cmd, stdout=subprocess.PIPE, stderr=subprocess.STDOUT, **kw)


def main():
    ap = argparse.ArgumentParser()
    ap.add_argument("sid")
    ap.add_argument("--props", default=None)
    ap.add_argument("--tier", default="quick")
    ap.add_argument("--seed", default="0")
    ap.add_argument("--in-repo", action="store_true")
    a = ap.parse_args()
    d = os.path.join(VERIF, "seeded", a.sid)
    meta = json.load(open(os.path.join(d, "meta.json")))
    props = a.props.split(",") if a.props else [meta["property"]]
    patch = os.path.join(d, "patch.diff")
    wt = None
    env = dict(os.environ, VERIF_SEED=str(a.seed))
    try:
        if a.in_repo:
            st = sh(["git", "-C", "/repo", "status", "--porcelain", "--untracked-files=no"]).stdout.decode().strip()
            if st:
                print("refusing: /repo has uncommitted changes:\n" + st)
                return 2
            p = sh(["git", "-C", "/repo", "apply", patch])
            if p.returncode:
                print("patch does not apply:", p.stdout.decode())
                return 2
        else:
            wt = tempfile.mkdtemp(prefix="seedrun-", dir="/var/tmp")
            os.rmdir(wt)
            p = sh(["git", "-C", "/repo", "worktree", "add", "--detach", wt, "HEAD"])
            if p.returncode:
                print(p.stdout.decode())
                return 2
            p = sh(["git", "-C", wt, "apply", patch])
            if p.returncode:
                p = sh(["git", "-C", wt, "apply", "-3", patch])
            if p.returncode:
                print("patch does not apply:", p.stdout.decode())
                return 2
            env["VERIF_REPO"] = wt
        results = {}
        for pr in props:
            p = sh([os.path.join(VERIF, "check"), pr, "--tier", a.tier], cwd=VERIF, env=env)
            out = p.stdout.decode(errors="replace")
            vio = [l for l in out.splitlines() if l.startswith("VIOLATION")]
            results[pr] = {"exit": p.returncode, "violations": vio[:10], "tail": out.splitlines()[-3:]}
            print(pr, "exit", p.returncode, "|", vio[:2])
        json.dump({"mode": "in-repo" if a.in_repo else "scratch-worktree", "tier": a.tier,
                   "seed": a.seed, "results": results},
                  open(os.path.join(d, "last_run.json"), "w"), indent=1)
        caught = any(r["exit"] == 1 and r["violations"] for r in results.values())
        print("CAUGHT" if caught else "MISSED")
        return 0 if caught else 1
    finally:
        if a.in_repo:
            sh(["git", "-C", "/repo", "checkout", "--", "."])
        if wt:
            sh(["git", "-C", "/repo", "worktree", "remove", "--force", wt])
            shutil.rmtree(wt, ignore_errors=True)
        # regenerated Lean tables were produced from the mutated tree: restore the committed ones
        sh(["git", "-C", VERIF, "checkout", "--", "lean/Emboss/Generated", "evidence"])


if __name__ == "__main__":
    sys.exit(main())
