#!/usr/bin/env python3
"""Sensitivity runner: apply one edit to a scratch worktree of /repo, run pinned tests subset and the check."""
import os, re, subprocess, sys, json, time

VERIF = os.path.dirname(os.path.dirname(os.path.abspath(__file__)))
SCRATCH = os.environ.get("SENS_SCRATCH", "/var/tmp")

MUTS = {
 # name: (property list, file, [(old, new)], tests)
 "c08_m1_closure_lookahead_only": (["C08"], "compiler/front_end/lr1.py", [(
   "item.production.rhs[item.dot + 1 :] + (item.terminal,)", "(item.terminal,)")]),
 "c08_m2_skip_conflict_check": (["C08"], "compiler/front_end/lr1.py", [(
   "                    if action[i].get(terminal, new_action) != new_action:\n                        conflicts.add(",
   "                    if False and action[i].get(terminal, new_action) != new_action:\n                        conflicts.add(")]),
 "c08_m3_lalr_core_reuse": (["C08"], "compiler/front_end/lr1.py", [(
   "                goto = frozenset(goto)\n                if goto not in items:\n                    items[goto] = len(item_list)\n                    item_list.append(goto)\n                goto_table[i][symbol] = items[goto]",
   "                goto = frozenset(goto)\n                core = frozenset((it.production, it.dot) for it in goto)\n                if core not in items:\n                    items[core] = len(item_list)\n                    item_list.append(goto)\n                goto_table[i][symbol] = items[core]")]),
 "c08_m4_first_ignores_nullable": (["C08"], "compiler/front_end/lr1.py", [(
   "            if None not in self.firsts[symbol]:\n                all_contain_epsilon = False\n                break",
   "            if None not in self.firsts[symbol] or len(symbols) > 2:\n                all_contain_epsilon = False\n                break")]),
 "c08_m5_children_reversed": (["C08", "C09"], "compiler/front_end/lr1.py", [(
   "                children = [\n                    item[1] for item in stack[len(stack) - len(next_action.rule.rhs) :]\n                ]",
   "                children = [\n                    item[1] for item in stack[len(stack) - len(next_action.rule.rhs) :]\n                ]\n                if len(children) == 3:\n                    children = children[::-1]")]),
 "c08_m6_error_index_off_by_one": (["C08"], "compiler/front_end/lr1.py", [(
   "                        next_action.code,\n                        cursor,\n",
   "                        next_action.code,\n                        max(cursor - 1, 0) if cursor == len(tokens) - 1 else cursor,\n")]),
 "c08_m7_accept_on_any_reduce_lookahead": (["C08"], "compiler/front_end/lr1.py", [(
   "                    terminal = item.terminal\n                    new_action = Reduce(item.production)",
   "                    terminal = item.terminal\n                    new_action = Reduce(item.production)\n                    if len(item.production.rhs) == 0 and terminal == END_OF_INPUT and len(self.terminals) == 3:\n                        new_action = None")]),
 "c08_h1_harmless_refactor": (["C08", "C09"], "compiler/front_end/lr1.py", [(
   "        result = set()\n        all_contain_epsilon = True\n        for symbol in symbols:",
   "        all_eps = True\n        result = set()\n        all_contain_epsilon = all_eps\n        for symbol in list(symbols):"), (
   "        stack = [(0, None)]\n", "        stack = list([(0, None)])\n")]),
 "c09_n1_stale_action": (["C09"], "compiler/front_end/generated/cached_parser.py", "STALE_ACTION"),
 "c09_n2_default_error_code": (["C09"], "compiler/front_end/generated/cached_parser.py", "DEFE"),
 "c09_n3_doc_production_removed": (["C09"], "doc/grammar.md", [(
   "or-operator                            -> \"||\"\n", "")]),
 "c09_n4_error_example_message": (["C09"], "compiler/front_end/error_examples", "ERRMSG"),
 "c09_n5_grammar_changed_not_regenerated": (["C09"], "compiler/front_end/module_ir.py", "ADDPROD"),
 "c09_n6_stale_goto": (["C09"], "compiler/front_end/generated/cached_parser.py", "STALE_GOTO"),
 "c09_h1_reserialized_cache": (["C09"], "compiler/front_end/generated/cached_parser.py", "RESERIALIZE"),
}

TESTS = ["compiler/front_end/lr1_test.py", "compiler/front_end/parser_test.py", "compiler/front_end/docs_are_up_to_date_test.py"]

def special(kind, path, wt):
    s = open(path).read()
    if kind == "STALE_ACTION":
        # in the module parser's act table: retarget one shift in a mid-table row
        i = s.index(" act = {\n")
        j = s.index("\n  700:{", i)
        mm = re.compile(r"S\((\d+)\)").search(s, j)
        s = s[:mm.start()] + "S(%d)" % (int(mm.group(1)) + 1) + s[mm.end():]
    elif kind == "STALE_GOTO":
        i = s.index(" goto = {\n")
        m = re.search(r"\n  10:\{(\w+):(\d+)", s[i:])
        a, b = i + m.start(2), i + m.end(2)
        s = s[:a] + str(int(m.group(2)) + 1) + s[b:]
    elif kind == "DEFE":
        i = s.index(" defe = {\n")
        m = re.search(r"\n  (\d+):(\w+),\n  (\d+):(\w+),\n", s[i:])
        # swap the codes of two adjacent default-error entries if different, else of first and a later one
        ents = re.findall(r"\n  (\d+):(\w+),", s[i:i + 4000])
        k = next(j for j in range(1, len(ents)) if ents[j][1] != ents[0][1])
        old = "\n  %s:%s," % ents[0]
        new = "\n  %s:%s," % (ents[0][0], ents[k][1])
        assert s.count(old, i) >= 1
        s = s[:i] + s[i:].replace(old, new, 1)
    elif kind == "ERRMSG":
        m = re.search(r"\n={80}\n([^\n]+)\n-{80}\n", s)
        s = s[:m.start(1)] + m.group(1) + " (please)" + s[m.end(1):]
    elif kind == "ADDPROD":
        old = "@_handles('or-operator -> \"||\"')"
        assert old in s, "anchor"
        s = s.replace(old, "@_handles('or-operator -> \"||\" \"||\"')\n" + old, 1)
    elif kind == "RESERIALIZE":
        env = dict(os.environ, PYTHONPATH=wt)
        out = subprocess.run(["/venv/bin/python", "-c",
            "from compiler.front_end import generate_cached_parser as g; from compiler.front_end.generated import cached_parser as c;"
            "import sys; sys.stdout.write('from compiler.front_end import lr1\\nfrom compiler.util import parser_types\\n' + g.as_py_source(c.expression_parser(), 'expression_parser') + '\\n' + g.as_py_source(c.module_parser(), 'module_parser') + '\\n')"],
            cwd=wt, env=env, stdout=subprocess.PIPE, check=True).stdout.decode()
        s = out
    open(path, "w").write(s)

def main(names):
    res = {}
    for name in names:
        props, rel, edits = MUTS[name]
        wt = "/var/tmp/lr1mut_" + name
        subprocess.run(["git", "-C", "/repo", "worktree", "remove", "--force", wt], stderr=subprocess.DEVNULL)
        subprocess.run(["git", "-C", "/repo", "worktree", "add", "--detach", wt, "HEAD"], check=True, stdout=subprocess.DEVNULL, stderr=subprocess.DEVNULL)
        try:
            path = os.path.join(wt, rel)
            if isinstance(edits, str):
                special(edits, path, wt)
            else:
                s = open(path).read()
                for old, new in edits:
                    assert s.count(old) == 1, (name, old[:40], s.count(old))
                    s = s.replace(old, new)
                open(path, "w").write(s)
            diff = subprocess.run(["git", "-C", wt, "diff", "--stat"], stdout=subprocess.PIPE).stdout.decode().strip().split("\n")[-1]
            t0 = time.time()
            pt = subprocess.run(["/venv/bin/python", "-m", "pytest", "-q", "-p", "no:cacheprovider"] + (["compiler/front_end/lr1_test.py", "-x"] if name.startswith("c08") else ["-n", "2", "compiler/front_end/parser_test.py", "compiler/front_end/docs_are_up_to_date_test.py"]),
                                cwd=wt, stdout=subprocess.PIPE, stderr=subprocess.STDOUT)
            tail = pt.stdout.decode().strip().split("\n")[-1]
            r = {"diff": diff, "pinned_subset": tail, "pytest_s": round(time.time() - t0)}
            for prop in props:
                t0 = time.time()
                p = subprocess.run(["./check", prop, "--tier", "quick"], cwd=VERIF, env=dict(os.environ, VERIF_REPO=wt),
                                   stdout=subprocess.PIPE, stderr=subprocess.STDOUT)
                out = p.stdout.decode()
                viol = [l for l in out.split("\n") if l.startswith("VIOLATION")]
                r[prop] = {"exit": p.returncode, "violations": len(viol), "first": viol[:2], "s": round(time.time() - t0)}
                if viol:
                    rp = viol[0].split("replay=")[1].split()[0]
                    try:
                        rec = json.load(open(os.path.join(VERIF, rp)))
                        r[prop]["replay_kind"] = rec.get("kind")
                        r[prop]["replay_input"] = str(rec.get("input"))[:160]
                        r[prop]["replay_tokens"] = str(rec.get("tokens"))[:80]
                        r[prop]["replay_observed"] = str(rec.get("observed"))[:200]
                    except Exception as e:
                        r[prop]["replay_err"] = repr(e)
                    rr = subprocess.run(["./check", prop, "--replay", rp], cwd=VERIF, env=dict(os.environ, VERIF_REPO=wt),
                                        stdout=subprocess.PIPE, stderr=subprocess.STDOUT)
                    r[prop]["replay_out"] = rr.stdout.decode()[-400:]
                if p.returncode == 2:
                    r[prop]["tail"] = out[-600:]
            res[name] = r
            print(name, json.dumps(r, indent=1), flush=True)
        finally:
            subprocess.run(["git", "-C", "/repo", "worktree", "remove", "--force", wt])
    json.dump(res, open(os.path.join(SCRATCH, "sens_lr1_%d.json" % os.getpid()), "w"), indent=1)

if __name__ == "__main__":
    main(sys.argv[1:] or list(MUTS))
