#!/usr/bin/env python3
"""Resolve trivial merge conflict hunks in a file: keep OURS when THEIRS is empty or a
subset of OURS' lines, keep THEIRS when OURS is a subset of THEIRS'.  Exit 1 if any hunk is
not trivial (file left untouched)."""
import re
import sys

path = sys.argv[1]
text = open(path).read()
out, pos, ok = [], 0, True
for m in re.finditer(r"<<<<<<< [^\n]*\n(.*?)=======\n(.*?)>>>>>>> [^\n]*\n", text, re.S):
    out.append(text[pos:m.start()])
    ours, theirs = m.group(1), m.group(2)
    so, st = set(ours.splitlines()), set(theirs.splitlines())
    if st <= so:
        out.append(ours)
    elif so <= st:
        out.append(theirs)
    else:
        ok = False
        break
    pos = m.end()
if not ok:
    sys.exit(1)
out.append(text[pos:])
open(path, "w").write("".join(out))
