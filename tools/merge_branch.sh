#!/bin/sh
# tools/merge_branch.sh <branch>: merge a builder branch into the current branch.
# lakefile.toml is union-merged (.gitattributes); generated JSON is regenerated.
set -e
cd "$(dirname "$0")/.."
b="$1"
git merge --no-ff --no-commit "$b" || true
for f in MANIFEST.json known_findings.json; do
  if git ls-files -u -- "$f" | grep -q .; then git checkout --ours -- "$f" 2>/dev/null || true; fi
done
for f in $(git ls-files -u | awk '{print $4}' | sort -u); do
  case "$f" in MANIFEST.json|known_findings.json) ;; *) python3 tools/resolve_trivial.py "$f" && git add "$f" || true;; esac
done
python3 tools/fix_lakefile.py; git add lean/lakefile.toml
python3 tools/mkmanifest.py
git add MANIFEST.json known_findings.json
if git ls-files -u | grep -q .; then
  echo "UNRESOLVED CONFLICTS:"; git ls-files -u | awk '{print $4}' | sort -u; exit 1
fi
git commit -qm "Merge builder branch $b"
git log --oneline | head -1
