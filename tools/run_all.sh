#!/bin/sh
# tools/run_all.sh [tier] [seed] : run every registered check sequentially; summary at the end
cd "$(dirname "$0")/.."; export VERIF_REPO=${VERIF_REPO:-/repo}
tier=${1:-quick}; seed=${2:-0}
mkdir -p /var/tmp/runall
for p in $(python3 -c "import json; print(' '.join(c['property_id'] for c in json.load(open('MANIFEST.json'))['checks']))"); do
  s=$(date +%s)
  VERIF_SEED=$seed ./check $p --tier $tier > /var/tmp/runall/$p.$tier.$seed.log 2>&1
  rc=$?
  e=$(date +%s)
  echo "$p exit=$rc $((e-s))s viol=$(grep -c '^VIOLATION' /var/tmp/runall/$p.$tier.$seed.log) known=$(grep -c '^KNOWN-FINDING' /var/tmp/runall/$p.$tier.$seed.log)"
done
