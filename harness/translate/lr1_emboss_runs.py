"""Regenerates lean/Emboss/Generated/Lr1EmbossRuns.lean from the *shipped* Emboss parser tables
(`generated/cached_parser.py`, what embossc loads) and the real `Parser.parse` on every run.

For a handful of real token streams (the real tokenizer on small module texts / expressions,
accepted and rejected ones) the file states `run <tables> fuel w = <result of the real
Parser.parse>` and the Lean kernel decides it: the model of the shift-reduce driver
(`Model/Lr1.lean: run`) is tied to `Parser.parse` on the real Emboss rows, productions,
default errors and error codes, not only on toy grammars.

The two tables have 16 249 / 7 786 states; as Lean literals they would take minutes to
elaborate, and kernel evaluation over a sparse array of the full size does not finish in 20
minutes (every `action[s]?` walks the array as a list).  The file therefore carries the tables
*restricted to the rows `Parser.parse` really reads on these streams* — recorded by handing the
real `parse` dict proxies that log every `action[state]` / `goto[state]` access — with the
states renumbered densely in ascending order (the map is printed in the file; a target outside
the recorded set becomes the first unused number, a state without rows, which the strict,
plain-dict model turns into a `KeyError` result — so a row the model needs and the real code
did not read breaks the equation).  The full tables with the real numbering go through the
*compiled* `run` (driver op `RUN` after `LOADF`) in ./check C09 / C08 on hundreds of streams."""
import copy
import os

from harness.lib import common, lr1dump

OUT = os.path.join(common.LEAN, "Emboss", "Generated", "Lr1EmbossRuns%s.lean")

# kept small: kernel time is ≈ 0.2–0.4 s per iteration of `parse` and grows faster than linearly
# (the lazily evaluated stack), so a 12-token module costs ≈ 30 s
MODULE_TEXTS = [
    "struct Foo:\n  0 [+4]  UInt  bar\n",
    "struct Foo:\n  0 [+4]  UInt\n",                       # field without a name
    "struct foo:\n  0 [+1]  UInt  x\n",                    # snake_case type name
    "enum Kind:\n  A = 1\n",                               # one-letter enum value is not a constant name
]
EXPRESSION_TEXTS = [
    "a + b * 3 == c",
    "x + * 3",
    "(a < b) < c",
]


class Recording(dict):
    """dict that logs the keys `Parser.parse` reads (`d[k]`, `d.get(k, ...)`, `k in d`)."""

    def __init__(self, d, log):
        dict.__init__(self, d)
        self.log = log

    def __getitem__(self, k):
        self.log.add(k)
        return dict.__getitem__(self, k)

    def get(self, k, default=None):
        self.log.add(k)
        self.gets = getattr(self, "gets", 0) + 1      # `parse` calls `action.get` once per iteration
        return dict.get(self, k, default)

    def __contains__(self, k):
        self.log.add(k)
        return dict.__contains__(self, k)


def tokens_of(text, expression):
    from compiler.front_end import tokenizer
    toks, errs = tokenizer.tokenize(text, "")
    if errs:
        raise common.InfraError("tokenizer rejects a pinned text: %r" % text)
    if expression and toks and toks[-1].symbol == '"\\n"':
        toks = toks[:-1]          # the tokenizer appends an end-of-line token
    return toks


def nat_list(xs):
    return "[" + ", ".join(str(x) for x in xs) + "]"


def rule(p, sym):
    return "⟨%d, %s⟩" % (sym(p.lhs), nat_list(sym(x) for x in p.rhs))


def lean_tree(t, index_of, sym, lr1):
    if isinstance(t, lr1.Reduction):
        return ".node %s [%s]" % (rule(t.production, sym), ", ".join(
            lean_tree(c, index_of, sym, lr1) for c in t.children))
    return ".leaf ⟨%d, %d⟩" % (sym(t.symbol), index_of[id(t)])


def action(act, pidx, code, lr1, ren):
    if isinstance(act, lr1.Shift):
        return ".shift %d" % ren(act.state)
    if isinstance(act, lr1.Reduce):
        return ".reduce %d" % pidx[act.rule]
    if isinstance(act, lr1.Accept):
        return ".accept"
    return ".error none" if act.code is None else ".error (some %d)" % code(act.code)


def one_parser(name, parser, texts, expression, lr1):
    sym, code = lr1dump.Interner(), lr1dump.Interner()
    sym(lr1.END_OF_INPUT)
    prod_list = sorted(parser.productions, key=lambda p: (str(p.lhs), tuple(str(x) for x in p.rhs)))
    pidx = dict((p, i) for i, p in enumerate(prod_list))
    for p in prod_list:
        sym(p.lhs)
        for x in p.rhs:
            sym(x)
    acc_log, goto_log, dflt_log = set(), set(), set()
    rec = copy.copy(parser)
    rec.action = Recording(parser.action, acc_log)
    rec.goto = Recording(parser.goto, goto_log)
    rec.default_errors = Recording(parser.default_errors, dflt_log)
    runs = []
    for text in texts:
        toks = tokens_of(text, expression)
        rec.action.gets = 0
        exc = None
        try:
            res = rec.parse(toks)
        except Exception as e:      # an exception from the real `parse` on a pinned stream is an observation:
            res, exc = None, e      # the equation below then cannot hold and the proof gate sends the check
            #                         to its model-free search for a failing input
        steps = rec.action.gets
        w = "[" + ", ".join("⟨%d, %d⟩" % (sym(t.symbol), i) for i, t in enumerate(toks)) + "]"
        if exc is not None:
            r = lambda ren, exc=exc: '.internal "%s raised by the real Parser.parse"' % type(exc).__name__
            runs.append((text, steps, w, r))
            continue
        plain = parser.parse(toks)          # the untouched parser object must say the same
        if (res.error is None) != (plain.error is None) or (
                res.error is not None and (res.error.code, res.error.index, res.error.state) !=
                (plain.error.code, plain.error.index, plain.error.state)):
            raise common.InfraError("recording proxy changes the result of Parser.parse")
        index_of = dict((id(t), i) for i, t in enumerate(toks))
        if res.error is None:
            r = lambda ren, res=res, index_of=index_of: ".accept (%s)" % lean_tree(res.parse_tree, index_of, sym, lr1)
        else:
            r = lambda ren, e=res.error: ".error %s %d %d %s" % (
                "none" if e.code is None else "(some %d)" % code(e.code), e.index,
                ren(e.state), nat_list(sorted(sym(x) for x in e.expected_tokens)))
        runs.append((text, steps, w, r))
    nfull = max([0] + [s + 1 for s in parser.action] + [s + 1 for s in parser.goto])
    states = sorted(set([0]) | set(s for s in acc_log if s in parser.action) |
                    set(s for s in goto_log if s in parser.goto))
    number = dict((s, i) for i, s in enumerate(states))
    n = len(states) + 1
    ren = lambda s: number.get(s, len(states))
    arow = lambda r: "[" + ", ".join("(%d, %s)" % (sym(a), action(x, pidx, code, lr1, ren)) for a, x in sorted(
        r.items(), key=lambda kv: sym(kv[0]))) + "]"
    grow = lambda r: "[" + ", ".join("(%d, %d)" % (sym(x), ren(t)) for x, t in sorted(
        r.items(), key=lambda kv: sym(kv[0]))) + "]"
    out = ["-- %s: %d states, %d productions; rows of the %d / %d states `Parser.parse` reads on the streams below" % (
        name, nfull, len(prod_list), len([s for s in acc_log if s in parser.action]),
        len([s for s in goto_log if s in parser.goto])),
           "-- dense number <- real state: " + " ".join("%d<-%d" % (i, s) for i, s in enumerate(states))]
    arows = dict((ren(s), "some " + arow(parser.action[s])) for s in acc_log if s in parser.action)
    grows = dict((ren(s), grow(parser.goto[s])) for s in goto_log if s in parser.goto)
    out.append("def %sA : Automaton where\n  prods := [%s]\n  action := #[\n    %s]\n"
               "  goto := #[\n    %s]\n  defaultErrors := [%s]\n  strict := true\n  eoi := %d\n" % (
                   name, ", ".join(rule(p, sym) for p in prod_list),
                   ",\n    ".join(arows.get(i, "none") for i in range(n)),
                   ",\n    ".join(grows.get(i, "[]") for i in range(n)),
                   ", ".join("(%d, %d)" % (ren(s), code(parser.default_errors[s])) for s in sorted(dflt_log)
                             if s in parser.default_errors), sym(lr1.END_OF_INPUT)))
    for k, (text, nt, w, r) in enumerate(runs):
        out.append("-- real cached %s parser on the real tokenizer's tokens of %r (%d iterations of the loop of"
                   " `parse`; the fuel is kept tight: kernel time grows with the fuel literal)" % (name, text, nt))
        out.append("theorem %sRun%d : run %sA %d %s =\n    %s := by decide +kernel" % (name, k, name, nt + 2, w, r(ren)))
    out.append("")
    return out


def generate(which):
    lr1 = lr1dump.lr1mod()
    from compiler.front_end.generated import cached_parser
    out = ["/-", "GENERATED by harness/translate/lr1_emboss_runs.py from generated/cached_parser.py and the real",
           "`Parser.parse` — do not edit.  `run` equations on the shipped Emboss tables (restricted to the rows",
           "the real `parse` reads on these streams; states renumbered densely), decided by the kernel.", "-/",
           "import Emboss.Model.Lr1", "namespace Emboss.Lr1.EmbossRuns", ""]
    if which == "Module":
        out += one_parser("module", cached_parser.module_parser(), MODULE_TEXTS, False, lr1)
    else:
        out += one_parser("expression", cached_parser.expression_parser(), EXPRESSION_TEXTS, True, lr1)
    out.append("end Emboss.Lr1.EmbossRuns")
    return "\n".join(out) + "\n"


def regenerate():
    """two files (built in parallel): module parser, expression parser"""
    changed = False
    for which in ("Module", "Expression"):
        changed = common.write_if_changed(OUT % which, generate(which)) or changed
    return changed


if __name__ == "__main__":
    print(regenerate())
