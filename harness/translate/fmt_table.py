"""Translator (tie T of C11): grammar productions and the formatter's production ->
handler registry, read from the *live* modules of $VERIF_REPO, written to
lean/Emboss/Generated/FmtTable.lean.

Source of truth: `module_ir.PRODUCTIONS` and the dict `format_emb._formatters`
filled by the `@_formats(...)` / `@_formats_with_config(...)` decorators.  For a
handler registered through `_formats` the registry holds a lambda that drops the
config argument; the wrapped function is recovered from the lambda's closure.  If
that shape changes, the decorator lists are read from the source with `ast` instead.
"""
import ast
import inspect
import os
import re

from harness.lib import common

from compiler.front_end import format_emb
from compiler.front_end import module_ir

OUT = os.path.join(common.LEAN, "Emboss", "Generated", "FmtTable.lean")


def _registry_by_closure():
    """[(production, handler function name, takes_config)] in registration order."""
    out = []
    for production, fn in format_emb._formatters.items():
        if getattr(fn, "__name__", "") != "<lambda>":
            out.append((production, fn.__name__, True))
            continue
        cells = [c.cell_contents for c in (fn.__closure__ or ())]
        funcs = [c for c in cells if inspect.isfunction(c)]
        if len(funcs) != 1:
            return None
        out.append((production, funcs[0].__name__, False))
    return out


def _registry_by_ast():
    from compiler.util import parser_types
    src = open(os.path.join(common.REPO, "compiler", "front_end", "format_emb.py")).read()
    out = {}
    for node in ast.parse(src).body:
        if not isinstance(node, ast.FunctionDef):
            continue
        for d in node.decorator_list:
            if isinstance(d, ast.Call) and isinstance(d.func, ast.Name) and \
                    d.func.id in ("_formats", "_formats_with_config") and len(d.args) == 1:
                text = ast.literal_eval(d.args[0])
                out[parser_types.Production.parse(text)] = (node.name, d.func.id == "_formats_with_config")
    res = []
    for production in format_emb._formatters:
        if production not in out:
            raise common.InfraError("fmt_table: cannot find the handler of %s" % (production,))
        res.append((production, out[production][0], out[production][1]))
    return res


def grammar_productions():
    """`module_ir.PRODUCTIONS` in a canonical order.  The list order in module_ir depends on
    PYTHONHASHSEED (the productions that expand `x*`, `x+`, `x?` come out of a set), so it is
    sorted here: the generated file must not change from run to run."""
    return sorted(module_ir.PRODUCTIONS, key=lambda p: (p.lhs, tuple(p.rhs)))


def registry():
    """Registry entries sorted like `grammar_productions()`: with equal production sets the
    Lean-side comparison with the grammar is a linear list equality."""
    r = _registry_by_closure()
    r = r if r is not None else _registry_by_ast()
    r = sorted(r, key=lambda e: (e[0].lhs, tuple(e[0].rhs)))
    # round 3: a function whose name the model does not know, but which reproduces the model's
    # handler of its productions on the probe reference, is entered under the model's name
    # (a pure rename is not a change of behaviour); see harness/translate/fmt_probe.py
    from harness.translate import fmt_probe
    r, renamed = fmt_probe.canonical_names(r)
    RENAMED.clear()
    RENAMED.update(renamed)
    return r


RENAMED = {}


def lean_str(s):
    out = ['"']
    for ch in s:
        if ch == "\\":
            out.append("\\\\")
        elif ch == '"':
            out.append('\\"')
        elif ch == "\n":
            out.append("\\n")
        elif 32 <= ord(ch) < 127:
            out.append(ch)
        else:
            out.append("\\u{%x}" % ord(ch))
    out.append('"')
    return "".join(out)


def lean_list(xs):
    return "[" + ", ".join(xs) + "]"


def render():
    reg = registry()
    lines = [
        "/-",
        "REGENERATED on every run by harness/translate/fmt_table.py from",
        "compiler/front_end/module_ir.py (PRODUCTIONS, START_SYMBOL) and",
        "compiler/front_end/format_emb.py (the `_formatters` registry).  Do not edit.",
        "-/",
        "namespace Emboss.Generated.FmtTable",
        "",
        "/-- `module_ir.START_SYMBOL`. -/",
        "def startSymbol : String := %s" % lean_str(module_ir.START_SYMBOL),
        "",
        "/-- `module_ir.PRODUCTIONS` as (lhs, rhs), sorted (the list order in module_ir is hash-seed dependent). -/",
        "def grammar : List (String × List String) := [",
    ]
    ps = grammar_productions()
    for i, p in enumerate(ps):
        lines.append("  (%s, %s)%s" % (lean_str(p.lhs), lean_list([lean_str(s) for s in p.rhs]),
                                     "," if i + 1 < len(ps) else ""))
    lines += [
        "]",
        "",
        "/-- `format_emb._formatters`: (lhs, rhs, handler function name, registered with",
        "`_formats_with_config`), sorted like `grammar`.  A parse-tree node is serialised",
        "for the model driver by the index of its production in this list. -/",
        "def formatters : List (String × List String × String × Bool) := [",
    ]
    for i, (p, name, cfg) in enumerate(reg):
        lines.append("  (%s, %s, %s, %s)%s" % (
            lean_str(p.lhs), lean_list([lean_str(s) for s in p.rhs]), lean_str(name),
            "true" if cfg else "false", "," if i + 1 < len(reg) else ""))
    lines += ["]", ""]
    # interned copy: kernel evaluation of the table obligations compares numbers, not strings
    syms = symbols_sorted()
    sid = {s: i for i, s in enumerate(syms)}
    lines += ["/-- Every grammar symbol once (sorted); `formattersN` refers to symbols by index. -/",
              "def symbols : List String := ["]
    for i, sname in enumerate(syms):
        lines.append("  %s%s" % (lean_str(sname), "," if i + 1 < len(syms) else ""))
    lines += ["]", "",
              "/-- `formatters` with every symbol replaced by its index in `symbols`. -/",
              "def formattersN : List (Nat × List Nat × String × Bool) := ["]
    for i, (p, name, cfg) in enumerate(reg):
        lines.append("  (%d, %s, %s, %s)%s" % (
            sid[p.lhs], lean_list([str(sid[x]) for x in p.rhs]), lean_str(name),
            "true" if cfg else "false", "," if i + 1 < len(reg) else ""))
    lines += ["]", "", "end Emboss.Generated.FmtTable", ""]
    return "\n".join(lines)


SPEC = os.path.join(common.LEAN, "Emboss", "Spec", "Fmt.lean")
OUT_GLUE = os.path.join(common.LEAN, "Emboss", "Generated", "FmtGlue.lean")


def symbols_sorted():
    ps = grammar_productions()
    reg = registry()
    return sorted(set([p.lhs for p in ps] + [s for p in ps for s in p.rhs]
                      + [p.lhs for p, _, _ in reg] + [s for p, _, _ in reg for s in p.rhs]))


def lean_unescape(lit):
    return re.sub(r"\\(.)", lambda m: {"n": "\n", "t": "\t"}.get(m.group(1), m.group(1)), lit)


def glue_tables():
    """Candidate tables for the separability certificate: nullable symbols, FIRST and LAST terminal
    sets of every nonterminal, and the symbols whose rendering always starts with a blank, computed
    here from the live registry (symbols as indices into `symbols`).  Nothing is trusted: the
    kernel checks that the tables are closed under the grammar's rules (`glueCertOK`)."""
    reg = registry()
    sid = {sname: i for i, sname in enumerate(symbols_sorted())}
    prods = [(sid[p.lhs], [sid[x] for x in p.rhs], name) for p, name, _cfg in reg]
    nonterm = set(l for l, _, _ in prods)
    ns = set()
    changed = True
    while changed:
        changed = False
        for l, rhs, _ in prods:
            if l not in ns and all(x in ns for x in rhs):
                ns.add(l)
                changed = True

    def edges(rev):
        m = {l: set() for l in nonterm}
        changed = True
        while changed:
            changed = False
            for l, rhs, _ in prods:
                for x in (reversed(rhs) if rev else rhs):
                    new = m[x] if x in nonterm else {x}
                    if not new <= m[l]:
                        m[l] |= new
                        changed = True
                    if x not in ns:
                        break
        return m
    fs, ls = edges(False), edges(True)
    lead = set(nonterm)

    def ok_seq(rhs):
        for x in rhs:
            if x not in lead:
                return False
            if x not in ns:
                return True
        return True

    def ok_entry(rhs, name):
        if name in ("_concatenate_with_prefix_spaces", "_empty_string"):
            return True
        if name in ("_concatenate", "_identity"):
            return ok_seq(rhs)
        return False
    changed = True
    while changed:
        changed = False
        for sname in sorted(lead):
            if not all(ok_entry(rhs, name) for l, rhs, name in prods if l == sname):
                lead.discard(sname)
                changed = True
    return sorted(ns), fs, ls, sorted(lead)


def render_glue():
    """Generated/FmtGlue.lean: the certificate tables, and an interned copy of the audited list
    `allowedGlued` of Spec/Fmt.lean (position by position; `none` where a symbol no longer
    exists).  The kernel checks that every entry decodes to the entry of `allowedGlued` at the
    same position (`alignedOK`)."""
    text = open(SPEC).read()
    start = text.index("def allowedGlued : List (String × String) := [")
    end = text.index("\n]", start)
    pairs = re.findall(r'\("((?:[^"\\]|\\.)*)",\s*"((?:[^"\\]|\\.)*)"\)', text[start:end])
    sid = {sname: i for i, sname in enumerate(symbols_sorted())}
    ns, fs, ls, lead = glue_tables()

    def table(m):
        return lean_list(["(%d, %s)" % (k, lean_list([str(x) for x in sorted(m[k])])) for k in sorted(m)])
    lines = ["/-",
             "REGENERATED on every run by harness/translate/fmt_table.py from the live registry of",
             "format_emb.py and from `allowedGlued` of Emboss/Spec/Fmt.lean (symbols as indices into",
             "`Emboss.Generated.FmtTable.symbols`).  Do not edit.  Nothing here is trusted: see",
             "`C11_render_separable`.",
             "-/",
             "namespace Emboss.Generated.FmtGlue",
             "",
             "/-- Symbols that can derive the empty token sequence. -/",
             "def nsN : List Nat := %s" % lean_list([str(x) for x in ns]),
             "",
             "/-- FIRST terminals of every nonterminal. -/",
             "def fsN : List (Nat × List Nat) := %s" % table(fs),
             "",
             "/-- LAST terminals of every nonterminal. -/",
             "def lsN : List (Nat × List Nat) := %s" % table(ls),
             "",
             "/-- Nonterminals whose rendering, when non-empty, always begins with a blank. -/",
             "def leadN : List Nat := %s" % lean_list([str(x) for x in lead]),
             "",
             "def allowedGluedN : List (Option (Nat × Nat)) := ["]
    for i, (a, b) in enumerate(pairs):
        a, b = lean_unescape(a), lean_unescape(b)
        item = "some (%d, %d)" % (sid[a], sid[b]) if a in sid and b in sid else "none"
        lines.append("  %s%s" % (item, "," if i + 1 < len(pairs) else ""))
    lines += ["]", "", "end Emboss.Generated.FmtGlue", ""]
    return "\n".join(lines)


def production_index():
    """{Production: index into `formatters`} for the tree serialiser."""
    return {p: i for i, (p, _n, _c) in enumerate(registry())}


def regenerate():
    a = common.write_if_changed(OUT, render())
    b = common.write_if_changed(OUT_GLUE, render_glue())
    return a or b


if __name__ == "__main__":
    print("changed" if regenerate() else "unchanged")
