"""Per-handler probes (C11, round 3): a behavioural tie between the functions registered in
`format_emb._formatters` and the model's handlers, so that a *pure rename* of a handler
function is not reported.

Reference `harness/translate/fmt_probe_ref.json` (committed; regenerate with
`python3 -m harness.translate.fmt_probe` after changing the model):

    {production text: {"name": canonical handler name (the one `Handler.ofName` knows),
                       "cfg": registered through _formats_with_config,
                       "probes": [[indent_width, [argument values], result of the MODEL's handler], ...]}}

* argument values are drawn from pools of values that the *real* handlers produce for the
  symbols of the production's right-hand side (bottom-up over the grammar, terminals from
  `fmtgen`'s text generators) — type-correct by construction, no kind table on the Python side;
* results are those of the model (`model_c11`, op `HRUN`); when the reference is made every
  probe on which the pristine real handler and the model disagree is dropped and reported.

On every run (`verify`): the model must reproduce every stored result (else the reference is
stale: infrastructure error), and the real registry entries are run on the stored arguments
(counts in evidence).  In the translator (`canonical_names`): a registered function whose
`__name__` the model does not know is given the reference's name of its productions **iff it
reproduces the reference results on all of their probes** — the model's handler of the same
production, under a new name.

Values on the wire: {"s": str} {"l": [str…]} {"n": 0} ([]) {"r": [row…]} {"b": [block…]}
{"S": [[row…]…]} {"i": [[row…], [block…]]} {"x": 0} (raised); row = [name, [columns…], indent],
block = [[row…], row, [row…]].
"""
import json
import os
import random
import re

from harness.lib import common

from compiler.front_end import format_emb
from compiler.front_end import module_ir

REF = os.path.join(os.path.dirname(os.path.abspath(__file__)), "fmt_probe_ref.json")
RAISED = {"x": 0}


def prod_text(p):
    return "%s -> %s" % (p.lhs, " ".join(p.rhs))


# ------------------------------------------------------------------ values <-> JSON
def _row_j(r):
    return [r.name, list(r.columns), r.indent]


def _block_j(b):
    return [[_row_j(x) for x in b.prefix], _row_j(b.header), [_row_j(x) for x in b.body]]


def to_json(v):
    if isinstance(v, str):
        return {"s": v}
    if isinstance(v, format_emb._InlineBitsBodyType):
        return {"i": [[_row_j(x) for x in v.header_lines], [_block_j(b) for b in v.field_blocks]]}
    if isinstance(v, (list, tuple)) and not isinstance(v, (format_emb._Row, format_emb._Block)):
        v = list(v)
        if not v:
            return {"n": 0}
        if all(isinstance(x, str) for x in v):
            return {"l": v}
        if all(isinstance(x, format_emb._Row) for x in v):
            return {"r": [_row_j(x) for x in v]}
        if all(isinstance(x, format_emb._Block) for x in v):
            return {"b": [_block_j(x) for x in v]}
        if all(isinstance(x, list) and all(isinstance(y, format_emb._Row) for y in x) for x in v):
            return {"S": [[_row_j(y) for y in x] for x in v]}
    raise ValueError("fmt_probe: value outside the wire format: %r" % (v,))


def _row_p(j):
    return format_emb._Row(j[0], list(j[1]), j[2])


def _block_p(j):
    return format_emb._Block([_row_p(x) for x in j[0]], _row_p(j[1]), [_row_p(x) for x in j[2]])


def from_json(j):
    if "s" in j:
        return j["s"]
    if "n" in j:
        return []
    if "l" in j:
        return list(j["l"])
    if "r" in j:
        return [_row_p(x) for x in j["r"]]
    if "b" in j:
        return [_block_p(x) for x in j["b"]]
    if "S" in j:
        return [[_row_p(y) for y in x] for x in j["S"]]
    if "i" in j:
        return format_emb._InlineBitsBodyType([_row_p(x) for x in j["i"][0]], [_block_p(x) for x in j["i"][1]])
    raise ValueError("fmt_probe: bad wire value %r" % (j,))


def real_run(production, iw, args_j):
    """The registry entry of `production` (whatever function is behind it) on the arguments."""
    fn = format_emb._formatters[production]
    try:
        return to_json(fn(*[from_json(a) for a in args_j], format_emb.Config(indent_width=iw)))
    except ValueError:
        raise
    except Exception:  # noqa: BLE001  (an assert of the handler, a TypeError of a wrong value)
        return RAISED


def _hex(s):
    return s.encode("utf-8").hex()


def model_run_many(model, items):
    """`items`: [(production index, indent width, args)] -> results of the model's handlers
    (one process, one batch)."""
    lines = ["HRUN %d %d %s" % (i, iw, _hex(json.dumps(a, ensure_ascii=False))) for i, iw, a in items]
    out = []
    for ans in model.ask(lines):
        if ans == "none":
            out.append(RAISED)
        elif ans.startswith("ok "):
            out.append(json.loads(bytes.fromhex(ans[3:]).decode("utf-8")))
        else:
            raise common.InfraError("fmt_probe: model_c11 answered %r to HRUN" % ans[:200])
    return out


# ------------------------------------------------------------------ reference
def load():
    if not os.path.exists(REF):
        return {}
    with open(REF, encoding="utf-8") as f:
        return json.load(f)


_KNOWN = []


def known_names():
    """The function names `Handler.ofName` (lean/Emboss/Model/Fmt.lean) knows."""
    if _KNOWN:
        return _KNOWN[0]
    src = open(os.path.join(common.LEAN, "Emboss", "Model", "Fmt.lean"), encoding="utf-8").read()
    body = src[src.index("def Handler.ofName"):src.index("def Handler.takesConfig")]
    _KNOWN.append(set(re.findall(r'\| "([^"]+)" => some', body)))
    return _KNOWN[0]


def canonical_names(entries):
    """`entries`: [(production, function name, cfg)] of the live registry.  Returns (entries with
    the names of renamed-but-behaviourally-identical functions replaced by the reference's
    names, {new name: canonical name})."""
    ref = load()
    known = known_names()
    by_name = {}
    for p, name, cfg in entries:
        by_name.setdefault(name, []).append((p, cfg))
    renamed = {}
    for name, plist in by_name.items():
        if name in known:
            continue
        cands = set()
        ok = True
        for p, cfg in plist:
            e = ref.get(prod_text(p))
            if e is None or e["cfg"] != cfg or not e["probes"]:
                ok = False
                break
            cands.add(e["name"])
            for iw, args_j, want in e["probes"]:
                try:
                    got = real_run(p, iw, args_j)
                except ValueError:
                    got = None
                if got != want:
                    ok = False
                    break
            if not ok:
                break
        # one canonical name for all its productions, and that name is not still in use
        if ok and len(cands) == 1 and next(iter(cands)) not in by_name:
            renamed[name] = next(iter(cands))
    out = [(p, renamed.get(name, name), cfg) for p, name, cfg in entries]
    return out, renamed


def verify(chk, model, registry_entries):
    """After the build: the model reproduces the reference (else it is stale), and the real
    registry entries are run on the same arguments (counts only; a difference on a probe is
    not by itself a violation — the argument combination need not be reachable — the
    whole-text correspondence decides)."""
    ref = load()
    index = {prod_text(p): (i, p) for i, (p, _n, _c) in enumerate(registry_entries)}
    names = {prod_text(p): n for p, n, _c in registry_entries}
    stats = {"productions_with_probes": 0, "probes": 0, "model_reproduces": 0, "real_agrees": 0,
             "real_differs": 0, "reference_entries_without_production": 0}
    differing = []
    items = []
    for ptxt, e in ref.items():
        if ptxt not in index:
            stats["reference_entries_without_production"] += 1
            continue
        i, p = index[ptxt]
        if names[ptxt] != e["name"]:
            continue      # another handler is registered there now: the table obligations decide
        if e["probes"]:
            stats["productions_with_probes"] += 1
        for iw, args_j, want in e["probes"]:
            items.append((ptxt, i, p, iw, args_j, want))
    answers = model_run_many(model, [(i, iw, a) for _t, i, _p, iw, a, _w in items])
    for (ptxt, i, p, iw, args_j, want), got_m in zip(items, answers):
        stats["probes"] += 1
        if got_m != want:
            raise common.InfraError(
                "fmt_probe: the model no longer reproduces the probe reference at %r (model changed? "
                "regenerate with `python3 -m harness.translate.fmt_probe`)" % ptxt)
        stats["model_reproduces"] += 1
        try:
            got_r = real_run(p, iw, args_j)
        except ValueError:
            got_r = None
        if got_r == want:
            stats["real_agrees"] += 1
        else:
            stats["real_differs"] += 1
            if len(differing) < 5:
                differing.append({"production": ptxt, "indent_width": iw, "args": args_j,
                                  "model": want, "real": got_r})
    chk.extra["handler_probes"] = stats
    if differing:
        chk.extra["handler_probes_differing"] = differing
    return stats


# ------------------------------------------------------------------ making the reference
TERMINAL_EXTRA = {
    "Documentation": ["-- d", "-- doc  ", "--"],
    "Comment": ["# c", "#  c \t", "#"],
    "Indent": ["  "], "Dedent": [""], '"\\n"': ["\n"],
    "Number": ["0", "0x_ff", "1_000"],
    "String": ['"s"', '"a b"'],
}


def pools(per_symbol=4, rounds=6):
    from harness.lib import fmtgen
    g = fmtgen.grammar()
    r = random.Random(11)
    pool = {}
    for t in sorted(g.terminals):
        vals = list(TERMINAL_EXTRA.get(t, []))
        for _ in range(3):
            try:
                vals.append(fmtgen.terminal_text(r, t))
            except common.InfraError:
                break
        seen = []
        for v in vals:
            if v not in seen:
                seen.append(v)
        pool[t] = [to_json(v) for v in seen[:per_symbol]]
    prods = sorted(format_emb._formatters, key=lambda p: (p.lhs, tuple(p.rhs)))
    for _ in range(rounds):
        for p in prods:
            if any(not pool.get(s) for s in p.rhs):
                continue
            for j in range(per_symbol):
                args = [pool[s][j % len(pool[s])] for s in p.rhs]
                try:
                    res = real_run(p, 2, args)
                except ValueError:
                    continue
                if res == RAISED:
                    continue
                cur = pool.setdefault(p.lhs, [])
                if res not in cur and len(cur) < per_symbol:
                    cur.append(res)
    return pool


def make_reference():
    from harness.translate import fmt_table
    entries = fmt_table.registry()
    model = common.Model("model_c11")
    pool = pools()
    ref = {}
    dropped = []
    nprobe = 0
    cand = []
    for i, (p, name, cfg) in enumerate(entries):
        ref[prod_text(p)] = {"name": name, "cfg": cfg, "probes": []}
        if all(pool.get(s) for s in p.rhs):
            seen = []
            for j in range(4):
                for iw in ((2, 3) if cfg else (2,)):
                    args = [pool[s][(j + (k if j >= 2 else 0)) % len(pool[s])] for k, s in enumerate(p.rhs)]
                    if (iw, args) in seen:
                        continue
                    seen.append((iw, args))
                    cand.append((i, p, iw, args, real_run(p, iw, args)))
    answers = model_run_many(model, [(i, iw, a) for i, _p, iw, a, _r in cand])
    for (i, p, iw, args, real), mod in zip(cand, answers):
        if real != mod:
            dropped.append((prod_text(p), iw, args, real, mod))
            continue
        ref[prod_text(p)]["probes"].append([iw, args, mod])
        nprobe += 1
    with open(REF, "w", encoding="utf-8") as f:
        json.dump(ref, f, ensure_ascii=False, indent=0, sort_keys=True)
        f.write("\n")
    return ref, nprobe, dropped


if __name__ == "__main__":
    ref, nprobe, dropped = make_reference()
    print("reference: %d productions, %d probes, %d without probes, %d dropped (real != model)" % (
        len(ref), nprobe, sum(1 for e in ref.values() if not e["probes"]), len(dropped)))
    for d in dropped[:10]:
        print("  dropped:", d)
