"""C14 translators (tie T): regenerated from $VERIF_REPO on every run.

  compiler/front_end/prelude.emb   --real front end-->  `static_requirements` expressions
                                   -->  lean/Emboss/Generated/Prelude.lean  (SExpr terms)
  compiler/front_end/reserved_words                 -->  lean/Emboss/Generated/Reserved.lean
  attribute_checker._*_ATTRIBUTES / _ATTRIBUTE_TYPES -->  lean/Emboss/Generated/AttrTable.lean

`sexpr(expression)` (IR expression -> nested tuple) is shared with the abstraction
walker of harness/corr/C14.py, so the model evaluates what the real IR contains.
"""
import os

from harness.lib import common, emb

from compiler.util import ir_data

FM = ir_data.FunctionMapping
_BIN = {
    FM.AND: "and", FM.OR: "or", FM.EQUALITY: "eq", FM.INEQUALITY: "ne", FM.LESS: "lt",
    FM.LESS_OR_EQUAL: "le", FM.GREATER: "gt", FM.GREATER_OR_EQUAL: "ge",
    FM.ADDITION: "add", FM.SUBTRACTION: "sub", FM.MULTIPLICATION: "mul",
}


def sexpr(e):
    """IR Expression -> nested tuple in the SExpr vocabulary."""
    w = e.which_expression
    if w == "constant":
        return ("num", int(e.constant.value or 0))
    if w == "boolean_constant":
        return ("bool", bool(e.boolean_constant.value))
    if w == "builtin_reference":
        name = e.builtin_reference.canonical_name.object_path[0]
        if name == "$static_size_in_bits":
            return ("size",)
        if name == "$is_statically_sized":
            return ("isStatic",)
        return ("unknown",)
    if w == "function":
        f = e.function.function
        args = [sexpr(a) for a in e.function.args]
        if f in _BIN and len(args) >= 2:
            acc = args[0]
            if f in (FM.AND, FM.OR) or len(args) == 2:
                if len(args) > 2 and f not in (FM.AND, FM.OR):
                    return ("unknown",)
                for a in args[1:]:
                    acc = (_BIN[f], acc, a)
                return acc
            return ("unknown",)
        if f == FM.CHOICE and len(args) == 3:
            return ("choice", args[0], args[1], args[2])
        return ("unknown",)
    return ("unknown",)


def sexpr_lean(t):
    k = t[0]
    if k in ("size", "isStatic", "unknown"):
        return "." + k
    if k == "num":
        return "(.num (%d))" % t[1]
    if k == "bool":
        return "(.bool %s)" % ("true" if t[1] else "false")
    return "(.%s %s)" % (k, " ".join(sexpr_lean(x) for x in t[1:]))


def sexpr_json(t):
    return [t[0]] + [x if isinstance(x, (int, bool)) else sexpr_json(x) for x in t[1:]]


def lean_str(s):
    out = ['"']
    for ch in s:
        if ch == '"' or ch == "\\":
            out.append("\\" + ch)
        elif ch == "\n":
            out.append("\\n")
        elif ch == "\t":
            out.append("\\t")
        elif ord(ch) < 32 or ord(ch) == 127:
            out.append("\\x%02x" % ord(ch))
        else:
            out.append(ch)
    out.append('"')
    return "".join(out)


# ------------------------------------------------------------------ prelude
def prelude_externals():
    """[(name, requirement tuple or None)] for every `external` of the prelude, from
    the IR the real front end builds for prelude.emb."""
    ir, errors, exc = emb.compile_text({"m.emb": "struct Foo:\n  0 [+1]  UInt  x\n"},
                                       stop_before_step="normalize_and_verify")
    if exc is not None or errors or ir is None:
        raise common.InfraError("the prelude of %s does not compile: %r %r" % (
            common.REPO, exc, emb.error_summary(errors)[:2]))
    out = []
    for td in ir.module[1].type:
        if not td.has_field("external"):
            continue
        req = None
        for a in td.attribute:
            if a.name.text == "static_requirements" and not a.is_default and \
                    a.value.has_field("expression"):
                req = sexpr(a.value.expression)
        out.append((td.name.name.text, req))
    return out


def gen_prelude():
    ext = prelude_externals()
    lines = [
        "/- REGENERATED on every run by harness/translate/c14.py from",
        "   compiler/front_end/prelude.emb (parsed by the real front end).  Do not edit. -/",
        "import Emboss.Model.SExpr",
        "namespace Emboss.Generated.Prelude",
        "open Emboss.Constraints",
        "",
    ]
    for name, req in ext:
        if req is not None:
            lines.append("/-- `[static_requirements: …]` of `external %s`. -/" % name)
            lines.append("def req%s : SExpr :=\n  %s" % (name, sexpr_lean(req)))
            lines.append("")
    lines.append("/-- Every `external` of the prelude with its requirement (if any). -/")
    lines.append("def externals : List (String × Option SExpr) := [")
    lines.append(",\n".join("  (%s, %s)" % (lean_str(n), "some req" + n if r is not None else "none")
                            for n, r in ext))
    lines.append("]")
    lines.append("")
    lines.append("end Emboss.Generated.Prelude")
    return "\n".join(lines) + "\n"


# ------------------------------------------------------------------ reserved words
def reserved_words():
    """Independent re-parse of the reserved_words file (format documented in its header):
    `-- Language` lines start a section, `#` starts a comment; first language wins."""
    path = os.path.join(common.REPO, "compiler", "front_end", "reserved_words")
    out, seen, lang = [], set(), None
    with open(path, encoding="utf-8") as f:
        for line in f.read().splitlines():
            s = line.partition("#")[0].strip()
            if not s:
                continue
            if s.startswith("--"):
                lang = s.partition("--")[2].strip()
            elif s not in seen:
                seen.add(s)
                out.append((s, lang or ""))
    return out


def gen_reserved():
    ws = reserved_words()
    lines = [
        "/- REGENERATED on every run by harness/translate/c14.py from",
        "   compiler/front_end/reserved_words.  Do not edit. -/",
        "namespace Emboss.Generated.Reserved",
        "",
        "/-- (word, first language section it appears in), in file order. -/",
        "def reservedWords : List (String × String) := [",
        ",\n".join("  (%s, %s)" % (lean_str(w), lean_str(l)) for w, l in ws),
        "]",
        "",
        "end Emboss.Generated.Reserved",
    ]
    return "\n".join(lines) + "\n"


# ------------------------------------------------------------------ attribute tables
def attr_tables():
    from compiler.front_end import attribute_checker as ac
    from compiler.util import attribute_util as au

    def ty(v):
        if v is au.INTEGER_CONSTANT:
            return ".intConst"
        if v is au.BOOLEAN_CONSTANT:
            return ".boolConst"
        if v is au.BOOLEAN:
            return ".bool"
        if v is au.STRING:
            return ".str"
        if v is getattr(ac, "_valid_back_ends", None):
            return ".backEnds"
        if getattr(v, "__name__", "") == "_string_from_list" and v.__closure__:
            for c in v.__closure__:
                if isinstance(c.cell_contents, (set, frozenset, list, tuple)):
                    return "(.choice [%s])" % ", ".join(lean_str(x) for x in sorted(c.cell_contents))
        return ".unknownChecker"

    scopes = [("moduleAttrs", "_MODULE_ATTRIBUTES"), ("bitsAttrs", "_BITS_ATTRIBUTES"),
              ("structAttrs", "_STRUCT_ATTRIBUTES"), ("enumAttrs", "_ENUM_ATTRIBUTES"),
              ("externalAttrs", "_EXTERNAL_ATTRIBUTES"),
              ("physicalFieldAttrs", "_STRUCT_PHYSICAL_FIELD_ATTRIBUTES"),
              ("virtualFieldAttrs", "_STRUCT_VIRTUAL_FIELD_ATTRIBUTES")]
    tables = {}
    for lean_name, py_name in scopes:
        tables[lean_name] = sorted((str(n), bool(d)) for n, d in getattr(ac, py_name))
    types = sorted((str(k), ty(v)) for k, v in ac._ATTRIBUTE_TYPES.items())
    return tables, types, int(ac._DEFAULT_ENUM_MAXIMUM_BITS), str(ac._DEFAULT_BACK_ENDS)


def gen_attr_table():
    tables, types, maxbits, backends = attr_tables()
    lines = [
        "/- REGENERATED on every run by harness/translate/c14.py from",
        "   compiler/front_end/attribute_checker.py (imported; the tables are read as Python",
        "   objects, not as source text).  Do not edit. -/",
        "import Emboss.Model.SExpr",
        "namespace Emboss.Generated.AttrTable",
        "open Emboss.Constraints",
        "",
    ]
    for name, rows in tables.items():
        lines.append("/-- (attribute name, allowed as `$default`?) -/")
        lines.append("def %s : List (String × Bool) := [%s]" % (
            name, ", ".join("(%s, %s)" % (lean_str(n), "true" if d else "false") for n, d in rows)))
        lines.append("")
    lines.append("/-- enum values: `enum_value_attributes=None` in `normalize_and_verify`. -/")
    lines.append("def enumValueAttrs : List (String × Bool) := []")
    lines.append("")
    lines.append("def attrTypes : List (String × AttrTy) := [")
    lines.append(",\n".join("  (%s, %s)" % (lean_str(n), t) for n, t in types))
    lines.append("]")
    lines.append("")
    lines.append("def defaultEnumMaximumBits : Int := %d" % maxbits)
    lines.append("def defaultBackEnds : String := %s" % lean_str(backends))
    lines.append("")
    lines.append("end Emboss.Generated.AttrTable")
    return "\n".join(lines) + "\n"


def regenerate():
    """Rewrite the three generated files (only when their content changed).  Returns the
    list of files that changed."""
    gen = os.path.join(common.LEAN, "Emboss", "Generated")
    changed = []
    for name, fn in (("Prelude.lean", gen_prelude), ("Reserved.lean", gen_reserved),
                     ("AttrTable.lean", gen_attr_table)):
        if common.write_if_changed(os.path.join(gen, name), fn()):
            changed.append(name)
    return changed


if __name__ == "__main__":
    print(regenerate())
