"""Tie T of C17: list every place in compiler/**/*.py (non-test files) of the *current*
$VERIF_REPO where the iteration order of a set/frozenset (or something derived from
one) can be observed, every hash()/id() use, every other source of non-input data
(time, random, environment, directory listings), and every piece of module-level
mutable state; classify each into one of the order-independent patterns proved in
Lean (Emboss/Lemmas/Purity*.lean) or UNMATCHED; write lean/Emboss/Generated/IterSites.lean.

The analysis is a flow-insensitive, over-approximating "may be a set" inference:

  set-typed expressions: set literals/comprehensions, set()/frozenset() calls, results
  of - | & ^ and .union/.intersection/.difference/.symmetric_difference/.copy on them,
  names assigned from them (same function, or module level), attributes assigned from
  them anywhere (incl. namedtuple fields bound positionally or by keyword, dataclass
  fields annotated Set/FrozenSet), elements of dicts whose values are sets
  (defaultdict(set), d[k] = <set>, d.setdefault(k, <set>), {k: <set> ...}), loop
  targets bound by iterating .values()/.items() of such dicts or by iterating a
  container of sets (a set of frozensets), results of functions one of whose `return`
  expressions is set-typed, parameters that receive a set-typed argument at some call
  site, and sequences built by an *unsorted* iteration over one of those
  ("set-ordered" lists/dicts/generators).

Keys are line-independent: file:function:kind:<normalised source of the iterable>#n.
Reviewed exceptions: harness/translate/itersites_allow.json {key: {"pattern", "why"}} — exact
site keys only, no prefix rules.
"""
import ast
import json
import os

from harness.lib import common

ALLOW = os.path.join(os.path.dirname(os.path.abspath(__file__)), "itersites_allow.json")
OUT = os.path.join(common.LEAN, "Emboss", "Generated", "IterSites.lean")

SET_METHODS = {"union", "intersection", "difference", "symmetric_difference", "copy"}
SET_OPS = (ast.Sub, ast.BitOr, ast.BitAnd, ast.BitXor)
# consumers of an iterable whose result does not depend on the order of iteration
CONSUMER_PATTERN = {
    "sorted": "sortedFirst", "any": "anyAll", "all": "anyAll", "min": "minMax", "max": "minMax",
    "len": "lenOnly", "set": "setBuild", "frozenset": "setBuild", "sum": "commFold", "bool": "lenOnly",
}
# calls that store / inspect a set without iterating it
HARMLESS_CONSUMERS = {"setdefault", "get", "isinstance", "type", "getattr", "setattr", "hasattr", "add",
                      "append", "cast", "issubset", "issuperset", "isdisjoint", "assertEqual", "assertTrue",
                      "namedtuple", "Optional", "field", "copy", "deepcopy", "id", "hash"}
# consumers that expose the order
ORDERED_CONSUMERS = {"list", "tuple", "enumerate", "zip", "iter", "next", "reversed", "map", "filter",
                     "dict", "str", "repr", "print", "OrderedDict"}
IMPURE_CALLS = {
    ("time", None), ("random", None), ("datetime", None), ("uuid", None), ("secrets", None),
    ("os", "environ"), ("os", "getenv"), ("os", "getpid"), ("os", "listdir"), ("os", "scandir"),
    ("os", "walk"), ("os", "urandom"), ("os", "getcwd"), ("glob", None), ("socket", None),
    ("tempfile", None), ("getpass", None), ("platform", None),
}
PATTERNS = ["sortedFirst", "sortedByKey", "anyAll", "minMax", "lenOnly", "setBuild", "commFold",
            "singleton", "memoPure", "writeOnceConst", "modelledState", "allowed", "unmatched"]


def source_files(repo):
    out = []
    base = os.path.join(repo, "compiler")
    for d, _dirs, files in os.walk(base):
        for f in sorted(files):
            if not f.endswith(".py") or f.endswith("_test.py") or f == "test_util.py":
                continue
            rel = os.path.relpath(os.path.join(d, f), repo)
            if rel.endswith(os.path.join("generated", "cached_parser.py")):
                continue        # 30k lines of literal tables; contains no statements but two calls
            out.append(rel)
    return sorted(out)


def norm(node):
    try:
        s = ast.unparse(node)
    except Exception:  # noqa: BLE001
        s = "<expr>"
    s = " ".join(s.split())
    return s if len(s) <= 90 else s[:87] + "..."


class Scope:
    def __init__(self, name, node, parent=None):
        self.name, self.node, self.parent = name, node, parent
        self.set_names = set()
        self.setdict_names = set()
        self.setcont_names = set()      # containers (sets/lists) whose elements are sets


class Analyzer:
    def __init__(self, repo):
        self.repo = repo
        self.trees = {}
        for rel in source_files(repo):
            with open(os.path.join(repo, rel)) as f:
                try:
                    tree = ast.parse(f.read())
                except SyntaxError:
                    continue
            for n in ast.walk(tree):
                for c in ast.iter_child_nodes(n):
                    c._parent = n
            tree._parent = None
            self.trees[rel] = tree
        self.set_attrs = set()
        self.setdict_attrs = set()
        self.set_funcs = set()
        self.set_params = set()         # (function name, index) / (function name, kw)
        self.namedtuples = {}           # type name -> [field names]
        self.func_params = {}           # function name -> [param names]
        self.scopes = {}                # id(function/module node) -> Scope
        self.ctor_init = {}             # class name -> its __init__ node
        self.setdict_params = set()
        self.setdict_pool = set()       # names bound to a dict-of-sets in *some* scope (name-unified)
        self.setcont_attrs = set()      # attributes holding tuples/lists/sets of sets
        self.setcont_funcs = set()      # functions returning such containers
        self.setdict_funcs = set()      # functions returning a dict of sets (possibly inside a tuple)
        self.module_names = {"self", "cls"}

    # ---------------------------------------------------------------- scopes
    def scope_of(self, node):
        n = node
        while n is not None:
            if isinstance(n, (ast.FunctionDef, ast.AsyncFunctionDef, ast.Lambda, ast.Module)):
                return self.scopes[id(n)]
            n = n._parent
        raise AssertionError

    def qualname(self, node):
        parts = []
        n = node
        while n is not None:
            if isinstance(n, (ast.FunctionDef, ast.AsyncFunctionDef, ast.ClassDef)):
                parts.append(n.name)
            elif isinstance(n, ast.Lambda):
                parts.append("<lambda>")
            n = n._parent
        return ".".join(reversed(parts)) or "<module>"

    def build_scopes(self):
        for rel, tree in self.trees.items():
            for n in ast.walk(tree):
                if isinstance(n, (ast.FunctionDef, ast.AsyncFunctionDef, ast.Lambda, ast.Module)):
                    self.scopes[id(n)] = Scope(self.qualname(n), n)
                if isinstance(n, (ast.FunctionDef, ast.AsyncFunctionDef)):
                    params = [a.arg for a in n.args.posonlyargs + n.args.args]
                    if n.name == "__init__" and isinstance(n._parent, ast.ClassDef):
                        self.func_params.setdefault(n._parent.name, params[1:])
                        self.ctor_init[n._parent.name] = n
                    else:
                        self.func_params.setdefault(n.name, params)
                if isinstance(n, ast.ImportFrom):
                    self.module_names.update(a.asname or a.name for a in n.names)
                if isinstance(n, ast.Import):
                    self.module_names.update((a.asname or a.name).split(".")[0] for a in n.names)
                if isinstance(n, ast.Assign) and isinstance(n.value, ast.Call) and \
                        self.call_name(n.value) == "namedtuple" and len(n.value.args) >= 2:
                    fields = n.value.args[1]
                    names = None
                    if isinstance(fields, (ast.List, ast.Tuple)):
                        names = [e.value for e in fields.elts if isinstance(e, ast.Constant)]
                    elif isinstance(fields, ast.Constant) and isinstance(fields.value, str):
                        names = fields.value.replace(",", " ").split()
                    for t in n.targets:
                        if isinstance(t, ast.Name) and names is not None:
                            self.namedtuples[t.id] = names

    @staticmethod
    def call_name(call):
        f = call.func
        if isinstance(f, ast.Name):
            return f.id
        if isinstance(f, ast.Attribute):
            return f.attr
        return None

    # ------------------------------------------------------------- inference
    def lookup(self, name, scope, field):
        s = scope
        while s is not None:
            if name in getattr(s, field):
                return True
            # enclosing function / module
            n = s.node._parent
            while n is not None and id(n) not in self.scopes:
                n = n._parent
            s = self.scopes[id(n)] if n is not None else None
        return False

    def is_setdict(self, e, scope):
        if isinstance(e, ast.Name):
            return self.lookup(e.id, scope, "setdict_names") or e.id in self.setdict_pool
        if isinstance(e, ast.Call) and self.call_name(e) in ("dict", "copy", "deepcopy") and e.args:
            return self.is_setdict(e.args[0], scope)
        if isinstance(e, ast.Call) and self.call_name(e) in self.setdict_funcs:
            return True
        if isinstance(e, ast.Attribute):
            return e.attr in self.setdict_attrs
        if isinstance(e, ast.Call) and self.call_name(e) == "defaultdict" and e.args:
            a = e.args[0]
            return isinstance(a, ast.Name) and a.id in ("set", "frozenset")
        if isinstance(e, ast.DictComp):
            return self.is_set(e.value, scope)
        if isinstance(e, ast.Dict):
            return any(v is not None and self.is_set(v, scope) for v in e.values)
        return False

    def is_setcont(self, e, scope):
        """container whose *elements* are sets"""
        if isinstance(e, ast.Name):
            return self.lookup(e.id, scope, "setcont_names")
        if isinstance(e, (ast.Tuple, ast.List)) and e.elts:
            return any(self.is_set(x, scope) for x in e.elts)
        if isinstance(e, ast.Attribute):
            return e.attr in self.setcont_attrs
        if isinstance(e, ast.Call) and self.call_name(e) in self.setcont_funcs:
            return True
        if isinstance(e, ast.Call) and self.call_name(e) in ("values",) and \
                isinstance(e.func, ast.Attribute) and self.is_setdict(e.func.value, scope):
            return True
        if isinstance(e, ast.Call) and self.call_name(e) == "sorted" and e.args:
            return self.is_setcont(e.args[0], scope)
        return False

    def is_set(self, e, scope):
        if isinstance(e, (ast.Set, ast.SetComp)):
            return True
        if isinstance(e, ast.Call):
            nm = self.call_name(e)
            if isinstance(e.func, ast.Name) and nm in ("set", "frozenset"):
                return True
            if isinstance(e.func, ast.Attribute):
                if nm in SET_METHODS and self.is_set(e.func.value, scope):
                    return True
                if nm in ("get", "setdefault", "pop"):
                    if self.is_setdict(e.func.value, scope):
                        return True
                    if len(e.args) >= 2 and self.is_set(e.args[1], scope):
                        return True
            if nm in self.set_funcs:
                return True
            return False
        if isinstance(e, ast.BinOp) and isinstance(e.op, SET_OPS):
            return self.is_set(e.left, scope) or self.is_set(e.right, scope)
        if isinstance(e, ast.Name):
            return self.lookup(e.id, scope, "set_names")
        if isinstance(e, ast.Attribute):
            return e.attr in self.set_attrs
        if isinstance(e, ast.Subscript):
            return self.is_setdict(e.value, scope) or self.is_setcont(e.value, scope)
        if isinstance(e, ast.IfExp):
            return self.is_set(e.body, scope) or self.is_set(e.orelse, scope)
        if isinstance(e, ast.BoolOp):
            return any(self.is_set(v, scope) for v in e.values)
        if isinstance(e, ast.NamedExpr):
            return self.is_set(e.value, scope)
        return False

    def is_set_ordered(self, e, scope):
        """A sequence/dict/generator whose order comes from an unsorted set iteration."""
        if self.is_set(e, scope):
            return True
        if isinstance(e, (ast.ListComp, ast.GeneratorExp, ast.DictComp)):
            return any(self.is_set_ordered(g.iter, scope) for g in e.generators)
        if isinstance(e, ast.Call):
            nm = self.call_name(e)
            if nm in ("list", "tuple", "enumerate", "reversed", "iter", "map", "filter", "zip") and e.args:
                return any(self.is_set_ordered(a, scope) for a in e.args)
            if nm in ("keys", "values", "items") and isinstance(e.func, ast.Attribute):
                return self.is_set_ordered_name(e.func.value, scope)
        if isinstance(e, ast.Name):
            return self.lookup(e.id, scope, "set_names")
        return False

    def is_set_ordered_name(self, e, scope):
        return isinstance(e, ast.Name) and self.lookup(e.id, scope, "set_names")

    def bind_target(self, target, it, scope):
        """`for target in it`: which names become set-typed?  Returns True if changed."""
        changed = False
        elem_is_set = self.is_setcont(it, scope)
        pair_val_is_set = isinstance(it, ast.Call) and self.call_name(it) == "items" and \
            isinstance(it.func, ast.Attribute) and self.is_setdict(it.func.value, scope)
        # sorted(d.items()) / list(d.items())
        if isinstance(it, ast.Call) and self.call_name(it) in ("sorted", "list", "tuple") and it.args:
            inner = it.args[0]
            if isinstance(inner, ast.Call) and self.call_name(inner) == "items" and \
                    isinstance(inner.func, ast.Attribute) and self.is_setdict(inner.func.value, scope):
                pair_val_is_set = True
            if self.is_setcont(inner, scope):
                elem_is_set = True
        if elem_is_set and isinstance(target, ast.Name) and target.id not in scope.set_names:
            scope.set_names.add(target.id)
            changed = True
        if pair_val_is_set and isinstance(target, ast.Tuple) and len(target.elts) == 2 and \
                isinstance(target.elts[1], ast.Name) and target.elts[1].id not in scope.set_names:
            scope.set_names.add(target.elts[1].id)
            changed = True
        return changed

    def infer(self):
        self.build_scopes()
        for _round in range(6):
            changed = False
            for rel, tree in self.trees.items():
                for n in ast.walk(tree):
                    sc = None
                    if isinstance(n, (ast.Assign, ast.AnnAssign, ast.AugAssign)):
                        sc = self.scope_of(n)
                        value = n.value
                        targets = n.targets if isinstance(n, ast.Assign) else [n.target]
                        ann_set = isinstance(n, ast.AnnAssign) and "Set" in norm(n.annotation)
                        if value is None and not ann_set:
                            continue
                        vs = ann_set or (value is not None and self.is_set(value, sc))
                        vo = value is not None and not vs and self.is_set_ordered(value, sc) and \
                            not isinstance(value, ast.Name)
                        vd = value is not None and self.is_setdict(value, sc)
                        vc = value is not None and ((isinstance(value, (ast.Set, ast.SetComp, ast.ListComp)) and
                                                     self._elements_are_sets(value, sc)) or
                                                    self.is_setcont(value, sc))
                        if value is not None and isinstance(value, ast.Call) and \
                                self.call_name(value) in ("set", "frozenset", "list") and not value.args:
                            vc = False
                        for t in targets:
                            if isinstance(t, ast.Name):
                                for flag, field in ((vs or vo, "set_names"), (vd, "setdict_names"),
                                                    (vc, "setcont_names")):
                                    if flag and t.id not in getattr(sc, field):
                                        getattr(sc, field).add(t.id)
                                        changed = True
                                if vd and t.id not in self.setdict_pool:
                                    self.setdict_pool.add(t.id)
                                    changed = True
                            elif isinstance(t, ast.Tuple) and isinstance(value, ast.Call) and \
                                    self.call_name(value) in self.setdict_funcs:
                                for el in t.elts[:1]:
                                    if isinstance(el, ast.Name) and el.id not in sc.setdict_names:
                                        sc.setdict_names.add(el.id)
                                        self.setdict_pool.add(el.id)
                                        changed = True
                            elif isinstance(t, ast.Attribute):
                                if vc and t.attr not in self.setcont_attrs:
                                    self.setcont_attrs.add(t.attr)
                                    changed = True
                                if vs and t.attr not in self.set_attrs:
                                    self.set_attrs.add(t.attr)
                                    changed = True
                                if vd and t.attr not in self.setdict_attrs:
                                    self.setdict_attrs.add(t.attr)
                                    changed = True
                            elif isinstance(t, ast.Subscript) and vs:
                                b = t.value
                                if isinstance(b, ast.Name) and b.id not in sc.setdict_names:
                                    sc.setdict_names.add(b.id)
                                    self.setdict_pool.add(b.id)
                                    changed = True
                                elif isinstance(b, ast.Attribute) and b.attr not in self.setdict_attrs:
                                    self.setdict_attrs.add(b.attr)
                                    changed = True
                    elif isinstance(n, ast.For):
                        changed |= self.bind_target(n.target, n.iter, self.scope_of(n))
                    elif isinstance(n, ast.comprehension):
                        changed |= self.bind_target(n.target, n.iter, self.scope_of(n))
                    elif isinstance(n, ast.Return) and n.value is not None:
                        sc = self.scope_of(n)
                        if isinstance(sc.node, (ast.FunctionDef, ast.AsyncFunctionDef)) and \
                                self.is_set(n.value, sc) and sc.node.name not in self.set_funcs:
                            self.set_funcs.add(sc.node.name)
                            changed = True
                        if isinstance(sc.node, (ast.FunctionDef, ast.AsyncFunctionDef)):
                            v = n.value
                            if self.is_setcont(v, sc) and not self.is_set(v, sc) and \
                                    sc.node.name not in self.setcont_funcs:
                                self.setcont_funcs.add(sc.node.name)
                                changed = True
                            first = v.elts[0] if isinstance(v, ast.Tuple) and v.elts else v
                            if self.is_setdict(first, sc) and sc.node.name not in self.setdict_funcs:
                                self.setdict_funcs.add(sc.node.name)
                                changed = True
                    elif isinstance(n, ast.Call):
                        sc = self.scope_of(n)
                        nm = self.call_name(n)
                        # X.add(<set>) / X.append(<set>): X holds sets
                        if nm in ("add", "append") and isinstance(n.func, ast.Attribute) and n.args and \
                                isinstance(n.func.value, ast.Name) and self.is_set(n.args[0], sc) and \
                                n.func.value.id not in sc.setcont_names:
                            sc.setcont_names.add(n.func.value.id)
                            changed = True
                        # d.setdefault(k, set())
                        if nm == "setdefault" and isinstance(n.func, ast.Attribute) and len(n.args) == 2 and \
                                self.is_set(n.args[1], sc):
                            b = n.func.value
                            if isinstance(b, ast.Name) and b.id not in sc.setdict_names:
                                sc.setdict_names.add(b.id)
                                changed = True
                            elif isinstance(b, ast.Attribute) and b.attr not in self.setdict_attrs:
                                self.setdict_attrs.add(b.attr)
                                changed = True
                        if nm is None:
                            continue
                        fields = self.namedtuples.get(nm)
                        params = self.func_params.get(nm)
                        if isinstance(n.func, ast.Attribute) and not (
                                isinstance(n.func.value, ast.Name) and n.func.value.id in self.module_names):
                            params = None       # method of an arbitrary object: not one of ours by name
                        for i, a in enumerate(n.args):
                            if fields and i < len(fields) and self.is_setcont(a, sc) and \
                                    fields[i] not in self.setcont_attrs:
                                self.setcont_attrs.add(fields[i])
                                changed = True
                            if params is not None and self.is_setdict(a, sc):
                                off = 1 if params[:1] == ["self"] else 0
                                if i + off < len(params) and (nm, params[i + off]) not in self.setdict_params:
                                    self.setdict_params.add((nm, params[i + off]))
                                    changed = True
                            if self.is_set(a, sc):
                                if fields and i < len(fields) and fields[i] not in self.set_attrs:
                                    self.set_attrs.add(fields[i])
                                    changed = True
                                if params is not None:
                                    # methods: skip self
                                    off = 1 if params[:1] == ["self"] else 0
                                    if i + off < len(params) and (nm, params[i + off]) not in self.set_params:
                                        self.set_params.add((nm, params[i + off]))
                                        changed = True
                        for kw in n.keywords:
                            if kw.arg and self.is_set(kw.value, sc):
                                if (fields or (nm and nm[:1].isupper())) and kw.arg not in self.set_attrs:
                                    self.set_attrs.add(kw.arg)
                                    changed = True
                                if params is not None and (nm, kw.arg) not in self.set_params:
                                    self.set_params.add((nm, kw.arg))
                                    changed = True
            # parameters that receive sets are set-typed names of their function
            for sid, sc in self.scopes.items():
                if isinstance(sc.node, (ast.FunctionDef, ast.AsyncFunctionDef)):
                    for a in sc.node.args.posonlyargs + sc.node.args.args + sc.node.args.kwonlyargs:
                        ann = a.annotation is not None and "Set" in norm(a.annotation)
                        fname = sc.node.name
                        if fname == "__init__" and isinstance(sc.node._parent, ast.ClassDef):
                            fname = sc.node._parent.name
                        if (ann or (fname, a.arg) in self.set_params) and a.arg not in sc.set_names:
                            sc.set_names.add(a.arg)
                            changed = True
                        if (fname, a.arg) in self.setdict_params and a.arg not in sc.setdict_names:
                            sc.setdict_names.add(a.arg)
                            changed = True
            if not changed:
                break

    def _elements_are_sets(self, value, sc):
        if isinstance(value, ast.Set):
            return any(self.is_set(e, sc) for e in value.elts)
        if isinstance(value, (ast.SetComp, ast.ListComp)):
            return self.is_set(value.elt, sc)
        return False

    # ----------------------------------------------------------------- sites
    def consumer_pattern(self, node, scope):
        """`node` is an expression that yields elements in set order (a set, or a
        generator/list comprehension over one).  Classify by what consumes it."""
        p = node._parent
        # generator of a comprehension
        if isinstance(p, ast.comprehension) and p.iter is node:
            comp = p._parent
            if isinstance(comp, ast.SetComp):
                return "setBuild", "set comprehension"
            if isinstance(comp, ast.DictComp):
                return self.consumer_pattern(comp, scope)[0], "dict comprehension"
            return self.consumer_pattern(comp, scope)
        if isinstance(p, ast.Call) and node in p.args:
            nm = self.call_name(p)
            if isinstance(p.func, ast.Name) and nm in CONSUMER_PATTERN:
                if nm == "sorted":
                    key = [k for k in p.keywords if k.arg == "key"]
                    if key:
                        return "sortedByKey", "sorted(key=%s)" % norm(key[0].value)
                    return "sortedFirst", "sorted()"
                if nm in ("min", "max") and any(k.arg == "key" for k in p.keywords):
                    return "unmatched", "%s with key: ties resolved by order" % nm
                return CONSUMER_PATTERN[nm], nm + "()"
            if isinstance(p.func, ast.Attribute):
                if nm in ("update", "intersection_update", "difference_update", "issubset", "issuperset",
                          "isdisjoint") or (nm in SET_METHODS):
                    if self.is_set(p.func.value, scope):
                        return "setBuild", "set." + nm
                if nm == "join":
                    return "unmatched", "str.join of unsorted set"
                if nm == "extend":
                    return "unmatched", "list.extend of unsorted set"
            if nm in ORDERED_CONSUMERS:
                # list(S)/tuple(S): look one level further (sorted(list(S)) is fine)
                if nm in ("list", "tuple", "iter", "map", "filter", "enumerate", "reversed"):
                    return self.consumer_pattern(p, scope)
                return "unmatched", nm + "() exposes iteration order"
            if nm in self.func_params or nm in self.namedtuples:
                return None, None     # passed on to a function: tracked through set_params
            if nm in HARMLESS_CONSUMERS:
                return None, None
            return "unmatched", "passed to %s()" % nm
        if isinstance(p, ast.For) and p.iter is node:
            return self.loop_body_pattern(p, scope)
        if isinstance(p, ast.Starred):
            return "unmatched", "star-unpacking"
        if isinstance(p, (ast.FormattedValue,)):
            return "unmatched", "formatted into a string"
        if isinstance(p, ast.Compare):
            return None, None         # membership / equality: order-free, not a site
        if isinstance(p, (ast.Assign, ast.AnnAssign, ast.AugAssign, ast.Return, ast.keyword, ast.Expr,
                          ast.BinOp, ast.BoolOp, ast.IfExp, ast.If, ast.While, ast.UnaryOp, ast.Assert,
                          ast.Attribute, ast.Subscript, ast.Tuple, ast.List, ast.Dict, ast.Set,
                          ast.Lambda, ast.NamedExpr, ast.Yield, ast.withitem)):
            # stored / returned / tested for emptiness: tracked through the inference
            if isinstance(node, (ast.ListComp, ast.GeneratorExp, ast.DictComp)) or \
                    (isinstance(node, ast.Call) and self.call_name(node) in ORDERED_CONSUMERS):
                if isinstance(p, (ast.If, ast.While, ast.UnaryOp, ast.Assert, ast.BoolOp)):
                    return "lenOnly", "truth value"
                return "unmatched", "set-ordered sequence stored/returned"
            return None, None
        return "unmatched", "consumer %s" % type(p).__name__

    def loop_body_pattern(self, loop, scope):
        """for x in <set>: body — order-free if the body only builds sets / counts /
        returns the same constant / raises / asserts."""
        returns = []

        def ok_stmt(s):
            if isinstance(s, (ast.Pass, ast.Continue, ast.Assert)):
                return True
            if isinstance(s, ast.Expr) and isinstance(s.value, ast.Call):
                c = s.value
                nm = self.call_name(c)
                if isinstance(c.func, ast.Attribute) and nm in ("add", "update", "discard") and \
                        (self.is_set(c.func.value, scope) or self._is_local_set_target(c.func.value, scope)):
                    return True
                return False
            if isinstance(s, ast.Expr) and isinstance(s.value, ast.Constant):
                return True
            if isinstance(s, ast.AugAssign) and isinstance(s.op, (ast.BitOr, ast.BitAnd)) and \
                    self.is_set(s.target, scope):
                return True
            if isinstance(s, ast.AugAssign) and isinstance(s.op, ast.Add) and \
                    isinstance(s.value, ast.Constant) and isinstance(s.value.value, int):
                return True
            if isinstance(s, ast.If):
                return all(ok_stmt(x) for x in s.body) and all(ok_stmt(x) for x in s.orelse)
            if isinstance(s, ast.For):
                return all(ok_stmt(x) for x in s.body) and not s.orelse
            if isinstance(s, ast.Return):
                returns.append(norm(s.value) if s.value is not None else "None")
                return s.value is None or isinstance(s.value, ast.Constant)
            return False
        if all(ok_stmt(s) for s in loop.body) and not loop.orelse and len(set(returns)) <= 1:
            if returns:
                return "anyAll", "loop returning the constant %s" % returns[0]
            return "setBuild", "loop body only adds to sets / counts"
        return "unmatched", "for-loop over unsorted set with order-sensitive body"

    def _is_local_set_target(self, e, scope):
        return isinstance(e, ast.Subscript) and self.is_setdict(e.value, scope)

    def sites(self):
        out = []
        for rel, tree in self.trees.items():
            mod_globals = set()
            for n in ast.walk(tree):
                sc = self.scope_of(n) if not isinstance(n, ast.Module) else self.scopes[id(n)]
                fn = self.qualname(n)
                # --- iteration of something set-ordered
                if isinstance(n, ast.expr) and self._is_order_source(n, sc):
                    pat, how = self.consumer_pattern(n, sc)
                    if pat is not None:
                        out.append({"file": rel, "func": fn, "kind": "iter", "expr": norm(n),
                                    "pattern": pat, "how": how})
                # --- set.pop() / next(iter(set))
                if isinstance(n, ast.Call) and isinstance(n.func, ast.Attribute) and n.func.attr == "pop" \
                        and not n.args and self.is_set(n.func.value, sc):
                    out.append({"file": rel, "func": fn, "kind": "setpop", "expr": norm(n),
                                "pattern": "unmatched", "how": "set.pop() returns an arbitrary element"})
                # --- str()/format of a set
                if isinstance(n, ast.FormattedValue) and self.is_set(n.value, sc):
                    out.append({"file": rel, "func": fn, "kind": "format", "expr": norm(n.value),
                                "pattern": "unmatched", "how": "set rendered by repr in an f-string"})
                if isinstance(n, ast.Call) and isinstance(n.func, ast.Attribute) and n.func.attr == "format" \
                        and any(self.is_set(a, sc) for a in list(n.args) + [k.value for k in n.keywords]):
                    out.append({"file": rel, "func": fn, "kind": "format", "expr": norm(n)[:60],
                                "pattern": "unmatched", "how": "set rendered by str.format"})
                # --- hash()/id()
                if isinstance(n, ast.Call) and isinstance(n.func, ast.Name) and n.func.id in ("hash", "id"):
                    out.append({"file": rel, "func": fn, "kind": n.func.id, "expr": norm(n),
                                "pattern": "unmatched", "how": "%s() value" % n.func.id})
                if isinstance(n, ast.FunctionDef) and n.name == "__hash__":
                    out.append({"file": rel, "func": fn, "kind": "hashdef", "expr": "__hash__",
                                "pattern": "unmatched", "how": "user-defined __hash__"})
                # --- other non-input data
                if isinstance(n, ast.Attribute) and isinstance(n.value, ast.Name):
                    if (n.value.id, None) in IMPURE_CALLS or (n.value.id, n.attr) in IMPURE_CALLS:
                        out.append({"file": rel, "func": fn, "kind": "impure", "expr": norm(n),
                                    "pattern": "unmatched", "how": "non-input data source"})
                # --- module-level mutable state
                if isinstance(n, ast.Global):
                    for g in n.names:
                        mod_globals.add(g)
                        out.append({"file": rel, "func": fn, "kind": "global", "expr": g,
                                    "pattern": "unmatched", "how": "global statement"})
            for d in self._module_mutables(tree, mod_globals):
                d["file"] = rel
                out.append(d)
        # memoizers: every decorated function
        for rel, tree in self.trees.items():
            for n in ast.walk(tree):
                if isinstance(n, (ast.FunctionDef, ast.AsyncFunctionDef)):
                    for dec in n.decorator_list:
                        dn = norm(dec)
                        if "memoize" in dn or "lru_cache" in dn or dn.endswith("cache"):
                            out.append({"file": rel, "func": self.qualname(n), "kind": "memo", "expr": dn,
                                        "pattern": "memoPure" if not n.args.args and not n.args.vararg
                                        else "unmatched",
                                        "how": "memoized function of %d arguments" % len(n.args.args)})
        # line-independent keys, disambiguated by ordinal
        out.sort(key=lambda d: (d["file"], d["func"], d["kind"], d["expr"]))
        seen = {}
        for d in out:
            k = "%s:%s:%s:%s" % (d["file"], d["func"], d["kind"], d["expr"])
            seen[k] = seen.get(k, 0) + 1
            d["key"] = "%s#%d" % (k, seen[k])
        return out

    def _is_order_source(self, n, sc):
        """Expression nodes at which set order first becomes visible: a set-typed
        expression in a consuming position.  Comprehensions over sets are handled via
        their generator's iter."""
        if not self.is_set(n, sc):
            return False
        p = n._parent
        if isinstance(p, ast.comprehension) and p.iter is n:
            return True
        if isinstance(p, ast.For) and p.iter is n:
            return True
        if isinstance(p, ast.Call) and n in p.args:
            return True
        if isinstance(p, (ast.Starred, ast.FormattedValue)):
            return True
        return False

    def _module_mutables(self, tree, mod_globals):
        """Module-level names bound to a mutable container that some function mutates
        (subscript store, .append/.add/.update/.extend/.setdefault/.pop, del)."""
        names = {}
        for s in tree.body:
            if isinstance(s, ast.Assign) and len(s.targets) == 1 and isinstance(s.targets[0], ast.Name):
                v = s.value
                if isinstance(v, (ast.Dict, ast.List, ast.Set, ast.DictComp, ast.ListComp, ast.SetComp)) or \
                        (isinstance(v, ast.Call) and self.call_name(v) in
                         ("dict", "list", "set", "defaultdict", "OrderedDict", "deque", "Counter")):
                    names[s.targets[0].id] = s
        mutated = {}
        for n in ast.walk(tree):
            tgt = None
            if isinstance(n, ast.Subscript) and isinstance(n.ctx, (ast.Store, ast.Del)) and \
                    isinstance(n.value, ast.Name):
                tgt = n.value.id
            if isinstance(n, ast.Call) and isinstance(n.func, ast.Attribute) and \
                    isinstance(n.func.value, ast.Name) and n.func.attr in (
                        "append", "add", "update", "extend", "setdefault", "pop", "clear", "insert",
                        "remove", "discard", "popitem"):
                tgt = n.func.value.id
            if tgt in names:
                fn = self.qualname(n)
                mutated.setdefault(tgt, set()).add(fn)
        out = []
        for nm, fns in sorted(mutated.items()):
            at_import_only = all(f == "<module>" or self._only_called_at_import(tree, f) for f in fns)
            out.append({"func": "<module>", "kind": "modstate", "expr": nm,
                        "pattern": "writeOnceConst" if at_import_only else "unmatched",
                        "how": "module-level container mutated in %s" % ",".join(sorted(fns))})
        return out

    def _only_called_at_import(self, tree, fname):
        """fname is (nested in) a decorator factory used only at module level, e.g.
        `_handles(...)`'s inner function registering handlers while the module is imported."""
        outer = fname.split(".")[0]
        decos = set()
        for n in ast.walk(tree):
            if isinstance(n, (ast.FunctionDef, ast.ClassDef)):
                for d in n.decorator_list:
                    c = d.func if isinstance(d, ast.Call) else d
                    if isinstance(c, ast.Name):
                        decos.add(c.id)
        if outer not in decos:
            return False
        # and never called from inside a function body
        for n in ast.walk(tree):
            if isinstance(n, ast.Call) and isinstance(n.func, ast.Name) and n.func.id == outer:
                p = n._parent
                in_deco = False
                while p is not None:
                    if isinstance(p, (ast.FunctionDef, ast.ClassDef)) and any(
                            n is d or n in ast.walk(d) for d in p.decorator_list):
                        in_deco = True
                        break
                    p = p._parent
                if not in_deco:
                    return False
        return True


def load_allow():
    try:
        with open(ALLOW) as f:
            return json.load(f)
    except OSError:
        return {}


ENTRY_POINTS = ["embossc", "compiler/front_end/emboss_front_end.py",
                "compiler/back_end/cpp/emboss_codegen_cpp.py"]


def compile_path_files(repo):
    """Files of compiler/ imported (transitively, statically) by the compiler's entry
    points.  Everything else (generate_cached_parser, enumerate_parse_errors,
    generate_grammar_md, format, docs tools) cannot run during a compilation."""
    seen, todo = set(), list(ENTRY_POINTS)
    while todo:
        rel = todo.pop()
        if rel in seen:
            continue
        path = os.path.join(repo, rel)
        if not os.path.exists(path):
            continue
        seen.add(rel)
        if os.path.getsize(path) > 1_000_000:
            continue            # generated tables (cached_parser.py): imports lr1/parser_types only
        try:
            tree = ast.parse(open(path).read())
        except SyntaxError:
            continue
        for n in ast.walk(tree):
            mods = []
            if isinstance(n, ast.ImportFrom) and n.module:
                mods += [n.module] + [n.module + "." + a.name for a in n.names]
            elif isinstance(n, ast.Import):
                mods += [a.name for a in n.names]
            for m in mods:
                cand = m.replace(".", "/") + ".py"
                if cand.startswith("compiler/"):
                    todo.append(cand)
    return seen


def analyse(repo=None):
    repo = repo or common.REPO
    a = Analyzer(repo)
    a.infer()
    sites = a.sites()
    allow = load_allow()
    on_path = compile_path_files(repo)
    used = set()
    for s in sites:
        s["auto_pattern"] = s["pattern"]
        if s["pattern"] == "sortedByKey":
            # key=sorted on (frozen)sets is injective (sortedKey_injective); any other key
            # needs a reviewed entry
            if not s["how"].endswith("(key=sorted)"):
                s["pattern"] = "unmatched"
        if s["pattern"] != "unmatched":
            continue
        if s["file"] not in on_path:
            s["pattern"] = "allowed"
            s["why"] = "file is not imported by embossc/emboss_front_end/emboss_codegen_cpp (import graph recomputed on every run)"
            continue
        # exact keys only (round 2): a prefix rule such as "lr1.py:Grammar." would silently allow
        # every NEW unsorted iteration added below it; an entry with "prefix" is ignored and
        # shows up as stale.
        hit = s["key"] if s["key"] in allow and not allow[s["key"]].get("prefix") else None
        if hit is not None:
            s["pattern"] = allow[hit].get("pattern", "allowed")
            s["why"] = allow[hit]["why"]
            used.add(hit)
    stale = sorted(set(allow) - used)
    for s in sites:
        s["on_compile_path"] = s["file"] in on_path
    return sites, stale


def lean_str(s):
    return '"' + s.replace("\\", "\\\\").replace('"', '\\"') + '"'


def render(sites):
    lines = [
        "/- GENERATED by harness/translate/itersites.py from $VERIF_REPO/compiler/**/*.py — do not edit.",
        "   Every place where set iteration order, hash()/id() values, other non-input data or",
        "   module-level mutable state could reach an observable, with the order-independence",
        "   pattern it was classified into (`unmatched` = none). -/",
        "import Emboss.Model.PurityPatterns",
        "namespace Emboss.Generated.IterSites",
        "open Emboss.Purity",
        "",
        "def sites : List Site := [",
    ]
    for i, s in enumerate(sites):
        lines.append("  ⟨%s, Pattern.%s⟩%s" % (lean_str(s["key"]), s["pattern"], "," if i + 1 < len(sites) else ""))
    lines += ["]", "", "end Emboss.Generated.IterSites", ""]
    return "\n".join(lines)


def regenerate(repo=None):
    sites, stale = analyse(repo)
    changed = common.write_if_changed(OUT, render(sites))
    return sites, stale, changed


if __name__ == "__main__":
    import sys
    sites, stale = analyse(sys.argv[1] if len(sys.argv) > 1 else None)
    for s in sites:
        print("%-12s %-10s %s   [%s]" % (s["pattern"], s["auto_pattern"], s["key"], s["how"]))
    print("stale allow entries:", stale)
