"""Translator (tie T) for C10: tokenizer pattern tables → lean/Emboss/Generated/TokTable.lean.

Re-reads `tokenizer.LITERAL_TOKEN_PATTERNS` / `REGEX_TOKEN_PATTERNS` from the *current*
$VERIF_REPO, parses every compiled regex's `.pattern` with Python's own regex parser
(`re._parser`, formerly `sre_parse`) and transcribes the parse tree into the model's
regex AST (`Emboss.Regex.Regex`).  The token table of doc/grammar.md is transcribed the
same way into `docPats`; `Emboss/Properties/C10.lean` decides `docPats = tokTable.pats`.

Anything outside the AST (flags other than UNICODE, groups that capture, look-around,
back-references, lazy/possessive repeats, categories other than \\s, `^`, ...) raises
`Unsupported`: the caller treats that as a broken obligation and searches.
"""
import os
import re

try:
    import re._parser as sre_parse
    import re._constants as sre_c
except ImportError:  # Python < 3.11
    import sre_parse
    import sre_constants as sre_c

from harness.lib import common


class Unsupported(Exception):
    pass


# ------------------------------------------------------------------ AST (Python side)
# ("eps",) ("chr", neg, [items]) ("seq", a, b) ("alt", a, b) ("rep", r, mn, mx|None) ("eol",)
# item: ("range", lo, hi) | ("space",)

def _cls_items(av):
    neg = False
    items = []
    for op, a in av:
        if op is sre_c.NEGATE:
            neg = True
        elif op is sre_c.LITERAL:
            items.append(("range", a, a))
        elif op is sre_c.RANGE:
            items.append(("range", a[0], a[1]))
        elif op is sre_c.CATEGORY and a is sre_c.CATEGORY_SPACE:
            items.append(("space",))
        else:
            raise Unsupported("class item %s %r" % (op, a))
    return neg, items


def _seq(nodes):
    """[] → eps; [x] → x; [x1..xn] → seq x1 (seq x2 (… xn)) — the shape of `litRegex`."""
    if not nodes:
        return ("eps",)
    out = nodes[-1]
    for n in reversed(nodes[:-1]):
        out = ("seq", n, out)
    return out


def _node(op, av):
    if op is sre_c.LITERAL:
        return ("chr", False, [("range", av, av)])
    if op is sre_c.NOT_LITERAL:
        return ("chr", True, [("range", av, av)])
    if op is sre_c.ANY:
        return ("chr", True, [("range", 10, 10)])
    if op is sre_c.IN:
        neg, items = _cls_items(av)
        return ("chr", neg, items)
    if op is sre_c.BRANCH:
        _none, alts = av
        out = None
        for alt in reversed(alts):
            a = _conv(alt)
            out = a if out is None else ("alt", a, out)
        return out
    if op is sre_c.MAX_REPEAT:
        mn, mx, body = av
        return ("rep", _conv(body), int(mn), None if mx is sre_c.MAXREPEAT else int(mx))
    if op is sre_c.SUBPATTERN:
        group, add_flags, del_flags, body = av
        if group is not None or add_flags or del_flags:
            raise Unsupported("capturing group / inline flags")
        return _conv(body)
    if op is sre_c.AT and av is sre_c.AT_END:
        return ("eol",)
    raise Unsupported("regex construct %s %r" % (op, av))


def _conv(sub):
    return _seq([_node(op, av) for op, av in sub])


def parse_regex(pattern, flags=re.UNICODE):
    if flags != re.UNICODE:
        raise Unsupported("flags %r" % flags)
    if not isinstance(pattern, str):
        raise Unsupported("bytes pattern")
    return _conv(sre_parse.parse(pattern))


def lit_regex(s):
    return _seq([("chr", False, [("range", ord(c), ord(c))]) for c in s])


# ------------------------------------------------------------------ read the code
def read_code_table():
    """→ (literals: [str], regexes: [(ast, symbol|None, pattern text)])."""
    from compiler.front_end import tokenizer
    lits = list(tokenizer.LITERAL_TOKEN_PATTERNS)
    for l in lits:
        if not isinstance(l, str) or not l:
            raise Unsupported("literal %r" % (l,))
    regs = []
    for p in tokenizer.REGEX_TOKEN_PATTERNS:
        sym = p.symbol if p.symbol else None
        if sym is not None and not isinstance(sym, str):
            raise Unsupported("symbol %r" % (sym,))
        regs.append((parse_regex(p.regex.pattern, p.regex.flags), sym, p.regex.pattern))
    return lits, regs


def code_pats(lits, regs):
    """Flat pattern list as `Table.pats` builds it."""
    return [(lit_regex(l), '"' + l + '"') for l in lits] + [(a, s) for a, s, _ in regs]


# ------------------------------------------------------------------ read the doc
def read_doc_rows():
    """Rows of the token table in doc/grammar.md → [(pattern text as a reader sees it,
    symbol|None, is_literal_row)]."""
    path = os.path.join(common.REPO, "doc", "grammar.md")
    with open(path, encoding="utf-8") as f:
        lines = f.read().split("\n")
    try:
        i = next(k for k, l in enumerate(lines) if re.match(r"Pattern\s*\|\s*Symbol\s*$", l))
    except StopIteration:
        raise Unsupported("no token table in doc/grammar.md")
    rows = []
    for l in lines[i + 2:]:
        if not l.strip():
            break
        m = re.match(r"`(.*)`\s+\| (`(.*)`|\*no symbol emitted\*)\s*$", l)
        if not m:
            raise Unsupported("doc table row %r" % l)
        pat, sym = m.group(1), m.group(3)
        # literal row: the symbol is the pattern (regex-unescaped) in double quotes
        unesc = re.sub(r"\\(.)", r"\1", pat)
        if sym is not None and sym == '"' + unesc + '"':
            rows.append((unesc, sym, True))
        else:
            rows.append((pat.replace("\\|", "|"), sym, False))
    return rows


def doc_pats(rows):
    out = []
    for pat, sym, is_lit in rows:
        out.append((lit_regex(pat) if is_lit else parse_regex(pat), sym))
    return out


# ------------------------------------------------------------------ emit Lean
def lean_str(s):
    out = ['"']
    for c in s:
        if c == '"':
            out.append('\\"')
        elif c == "\\":
            out.append("\\\\")
        elif 32 <= ord(c) < 127:
            out.append(c)
        else:
            out.append("\\u{%x}" % ord(c))
    out.append('"')
    return "".join(out)


def lean_re(a):
    k = a[0]
    if k == "eps":
        return ".eps"
    if k == "eol":
        return ".eol"
    if k == "chr":
        items = ", ".join(".space" if it[0] == "space" else ".range %d %d" % (it[1], it[2]) for it in a[2])
        return "(.chr ⟨%s, [%s]⟩)" % ("true" if a[1] else "false", items)
    if k in ("seq", "alt"):
        return "(.%s %s %s)" % (k, lean_re(a[1]), lean_re(a[2]))
    if k == "rep":
        return "(.rep %s %d %s)" % (lean_re(a[1]), a[2], "none" if a[3] is None else "(some %d)" % a[3])
    raise Unsupported("ast %r" % (a,))


def lean_sym(s):
    return "none" if s is None else "(some %s)" % lean_str(s)


def render(lits, regs, dpats):
    L = []
    L.append("/-")
    L.append("GENERATED by harness/translate/toktable.py from compiler/front_end/tokenizer.py")
    L.append("(LITERAL_TOKEN_PATTERNS, REGEX_TOKEN_PATTERNS) and the token table of doc/grammar.md.")
    L.append("Regenerated on every ./check C10 run; do not edit.")
    L.append("-/")
    L.append("import Emboss.Model.Tok")
    L.append("namespace Emboss.Generated")
    L.append("open Emboss.Regex Emboss.Tok")
    L.append("")
    L.append("def tokLiterals : List String := [")
    L.append(",\n".join("  " + lean_str(l) for l in lits))
    L.append("]")
    L.append("")
    L.append("def tokRegexes : List Pat := [")
    rows = []
    for a, s, text in regs:
        rows.append("  -- %s\n  ⟨%s, %s⟩" % (text.replace("\n", "\\n"), lean_re(a), lean_sym(s)))
    L.append(",\n".join(rows))
    L.append("]")
    L.append("")
    L.append("def tokTable : Table := ⟨tokLiterals, tokRegexes⟩")
    L.append("")
    L.append("/-- The token table of doc/grammar.md, row by row. -/")
    L.append("def docPats : List Pat := [")
    L.append(",\n".join("  ⟨%s, %s⟩" % (lean_re(a), lean_sym(s)) for a, s in dpats))
    L.append("]")
    L.append("")
    L.append("end Emboss.Generated")
    return "\n".join(L) + "\n"


OUT = os.path.join(common.LEAN, "Emboss", "Generated", "TokTable.lean")


def regenerate():
    """Returns dict(changed, lits, regs, doc_rows, doc_equal).  Raises Unsupported."""
    lits, regs = read_code_table()
    rows = read_doc_rows()
    dp = doc_pats(rows)
    changed = common.write_if_changed(OUT, render(lits, regs, dp))
    return {"changed": changed, "lits": lits, "regs": regs, "doc_rows": rows,
            "doc_equal": dp == code_pats(lits, regs)}


if __name__ == "__main__":
    r = regenerate()
    print("changed" if r["changed"] else "unchanged", len(r["lits"]), "literals,", len(r["regs"]),
          "regexes, doc table", "equal" if r["doc_equal"] else "DIFFERENT")
