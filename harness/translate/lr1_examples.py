"""Regenerates lean/Emboss/Generated/Lr1Examples.lean from the *real* lr1.py on every run:
small grammars run through Grammar(...).parser() (and, for the C09 example, through
generate_cached_parser.as_py_source + exec, i.e. the real cached-parser serialisation),
written as Lean literals.  The Lean file proves `Valid` / `Bisim` for them by `decide` and the
property files use them as non-vacuity examples and as the F10 counterexample."""
import os

from harness.lib import common, lr1dump

OUT = os.path.join(common.LEAN, "Emboss", "Generated", "Lr1Examples.lean")

EXAMPLES = [
    # name, start, productions
    ("ex", "S", ["S -> A b", "A -> a A", "A ->"]),
    ("f10", "S", ["S -> a B", "S -> a c", "B -> b B"]),
]


def nat_list(xs):
    return "[" + ", ".join(str(x) for x in xs) + "]"


def rule(p, sym):
    return "⟨%d, %s⟩" % (sym(p.lhs), nat_list(sym(x) for x in p.rhs))


def opt_arr(n, entries, fmt, none="none"):
    d = dict(entries)
    return "#[" + ", ".join(fmt(d[i]) if i in d else none for i in range(n)) + "]"


def action(act, pidx, code, lr1):
    if isinstance(act, lr1.Shift):
        return ".shift %d" % act.state
    if isinstance(act, lr1.Reduce):
        return ".reduce %d" % pidx[act.rule]
    if isinstance(act, lr1.Accept):
        return ".accept"
    return ".error none" if act.code is None else ".error (some %d)" % code(act.code)


def automaton(name, parser, prod_list, strict, sym, code, lr1):
    pidx = dict((p, i) for i, p in enumerate(prod_list))
    n = max([0] + [s + 1 for s in parser.action] + [s + 1 for s in parser.goto])
    rows = [(s, "[" + ", ".join("(%d, %s)" % (sym(a), action(x, pidx, code, lr1))
                                  for a, x in sorted(r.items(), key=lambda kv: sym(kv[0]))) + "]")
            for s, r in parser.action.items()]
    grows = [(s, "[" + ", ".join("(%d, %d)" % (sym(x), t) for x, t in sorted(r.items(), key=lambda kv: sym(kv[0]))) + "]")
             for s, r in parser.goto.items()]
    return ("def %s : Automaton where\n  prods := [%s]\n  action := %s\n  goto := %s\n"
            "  defaultErrors := [%s]\n  strict := %s\n  eoi := %d\n" % (
                name, ", ".join(rule(p, sym) for p in prod_list),
                opt_arr(n, rows, lambda r: "some " + r),
                opt_arr(n, grows, lambda r: r, none="[]"),
                ", ".join("(%d, %d)" % (s, code(c)) for s, c in sorted(parser.default_errors.items())),
                "true" if strict else "false", sym(lr1.END_OF_INPUT)))


def cert(name, parser, all_prods, sym):
    all_idx = dict((p, i) for i, p in enumerate(all_prods))
    seed_idx = len(all_prods) - 1
    nts, first, nullable = lr1dump.first_sets(all_prods)
    nsym = len(sym.names)
    items = "#[" + ",\n    ".join(
        "[" + ", ".join("⟨%d, %d, %d⟩" % (all_idx[it.production], it.dot, sym(it.terminal))
                        for it in lr1dump.order_items(s, all_idx, seed_idx)) + "]"
        for s in parser.item_sets) + "]"
    by_lhs = {}
    for i, p in enumerate(all_prods):
        by_lhs.setdefault(sym(p.lhs), []).append(i)
    ntc = set(sym(n) for n in nts)
    return ("def %s : Cert where\n  items := %s\n  rules := #[%s]\n  prodsOf := #[%s]\n  first := #[%s]\n"
            "  nullable := #[%s]\n  nt := #[%s]\n" % (
                name, items, ", ".join(rule(p, sym) for p in all_prods),
                ", ".join(nat_list(by_lhs.get(x, [])) for x in range(nsym)),
                ", ".join(nat_list(sorted(sym(t) for t in first[sym.names[x]])) if sym.names[x] in nts else "[]"
                          for x in range(nsym)),
                ", ".join("true" if sym.names[x] in nullable else "false" for x in range(nsym)),
                ", ".join("true" if x in ntc else "false" for x in range(nsym))))


RUNS = [["a", "a", "b"], ["b"], ["a", "a"], ["a", "$", "a"], ["$"], ["a", "b", "$"], ["b", "b"], ["S"], []]


def lean_tree(t, index_of, sym, lr1):
    if isinstance(t, lr1.Reduction):
        return ".node %s [%s]" % (rule(t.production, sym), ", ".join(
            lean_tree(c, index_of, sym, lr1) for c in t.children))
    return ".leaf ⟨%d, %d⟩" % (sym(t.symbol), index_of[id(t)])


def real_runs(name, parser, sym, lr1):
    """The real `Parser.parse` results on a few token lists (with the end-of-input marker used
    as a client token symbol among them), as `run` equations decided by the kernel."""
    out = []
    for k, w in enumerate(RUNS):
        toks = lr1dump.make_tokens(w)
        index_of = dict((id(t), i) for i, t in enumerate(toks))
        res = parser.parse(toks)
        lw = "[" + ", ".join("⟨%d, %d⟩" % (sym(x), i) for i, x in enumerate(w)) + "]"
        if res.error is None:
            r = ".accept (%s)" % lean_tree(res.parse_tree, index_of, sym, lr1)
        else:
            e = res.error
            r = ".error %s %d %d %s" % ("none" if e.code is None else "(some %d)" % e.code, e.index, e.state,
                                        nat_list(sorted(sym(x) for x in e.expected_tokens)))
        out.append("-- real Parser.parse on `%s`" % " ".join(w))
        # (rows of the generated automaton are sorted by symbol code, so `expected` comes out sorted)
        out.append("theorem %sRun%d : run %sA 60 %s = %s := by decide" % (name, k, name, lw, r))
    return out


def generate():
    lr1 = lr1dump.lr1mod()
    pt = lr1dump.ptypes()
    from compiler.front_end import generate_cached_parser
    out = ["/-", "GENERATED by harness/translate/lr1_examples.py from the real lr1.py — do not edit.",
           "Small grammars through `Grammar(...).parser()`; `exB` is `exA` after the real",
           "cached-parser serialisation (`generate_cached_parser.as_py_source` + exec).", "-/",
           "import Emboss.Model.Lr1Valid", "import Emboss.Model.Lr1Bisim", "import Emboss.Model.Merr",
           "namespace Emboss.Lr1.Examples", ""]
    for name, start, texts in EXAMPLES:
        sym, code = lr1dump.Interner(), lr1dump.Interner()
        sym(lr1.END_OF_INPUT)
        sym(lr1.START_PRIME)
        prods = [pt.Production.parse(t) for t in texts]
        g = lr1.Grammar(start, list(prods))
        parser = g.parser()
        # (the f10 grammar is reported for its unproductive nonterminal since the repair of F10;
        # its tables are still built and are the counterexample of C08_error_position)
        if [c for c in parser.conflicts if isinstance(c, lr1.Conflict)]:
            raise common.InfraError("example grammar %s has conflicts" % name)
        for p in g.productions:
            sym(p.lhs)
            for x in p.rhs:
                sym(x)
        out.append("-- %s: start %s; %s      symbols: %s" % (
            name, start, "; ".join(texts), ", ".join("%s=%d" % (n, i) for i, n in enumerate(sym.names))))
        out.append("def %sG : Grammar := ⟨%d, [%s], %d, %d⟩" % (
            name, sym(start), ", ".join(rule(p, sym) for p in prods), sym(lr1.START_PRIME), sym(lr1.END_OF_INPUT)))
        out.append(automaton(name + "A", parser, list(g.productions), False, sym, code, lr1))
        out.append(cert(name + "C", parser, list(g.productions), sym))
        out.append("theorem %sValid : Valid %sG %sA %sC := by decide\n" % (name, name, name, name))
        if name == "ex":
            for x in ("z",):
                sym(x)
            out += real_runs(name, parser, sym, lr1)
            out.append("")
        if name == "ex":
            # mark an error example so that Error entries and default errors occur, then
            # serialise the parser the way the shipped cached parser is produced
            parser.mark_error(lr1dump.make_tokens(["a", "a"]), None, "unexpected end")
            parser.mark_error(lr1dump.make_tokens(["b"]) + [lr1.ANY_TOKEN], lr1.ANY_TOKEN, "trailing input")
            out.append(automaton("exM", parser, list(g.productions), False, sym, code, lr1))
            # the same two examples through the model of mark_error: the marked table must be exM
            # (compared entry by entry and default by default; rows are dicts)
            anyc = sym("*ANY_TOKEN*")
            nst, nsy = len(parser.item_sets), len(sym.names)
            out.append("def exMarks : List ErrExample :=\n  [⟨[⟨%d, 0⟩, ⟨%d, 1⟩], .eoi, %d⟩, ⟨[⟨%d, 0⟩, ⟨%d, 1⟩], .any ⟨%d, 1⟩, %d⟩]" % (
                sym("a"), sym("a"), code("unexpected end"), sym("b"), anyc, anyc, code("trailing input")))
            out.append("def tableOf (B : Automaton) : List (List (Option Action)) × List (Option Nat) :=\n"
                       "  ((List.range %d).map fun s => (List.range %d).map fun a => B.entry s a,\n"
                       "   (List.range %d).map fun s => B.defaultErrors.lookup s)" % (nst, nsy, nst))
            out.append("theorem exMarked : (markAll exA 60 exMarks).map tableOf = some (tableOf exM) := by decide +kernel\n")
            src = generate_cached_parser.as_py_source(parser, "example_parser")
            env = {}
            exec("from compiler.front_end import lr1\nfrom compiler.util import parser_types\n" + src, env)
            cached = env["example_parser"]()
            plist = sorted(cached.productions, key=lambda p: (str(p.lhs), p.rhs))
            out.append(automaton("exB", cached, plist, True, sym, code, lr1))
            n = len(parser.item_sets)
            out.append("def exPi : Array (Option Nat) := #[%s]" % ", ".join("some %d" % i for i in range(n)))
            out.append("theorem exBisim : Bisim exB exM exPi := by decide")
            out.append("theorem exMValid : Valid exG exM exC := by decide\n")
    out.append("end Emboss.Lr1.Examples")
    return "\n".join(out) + "\n"


def regenerate():
    return common.write_if_changed(OUT, generate())


if __name__ == "__main__":
    print(regenerate())
