"""Entry point: ./check Cnn [--tier quick|thorough] [--replay path]."""
import argparse
import importlib
import os
import sys

HERE = os.path.dirname(os.path.abspath(__file__))
sys.path.insert(0, os.path.dirname(HERE))

from harness.lib import common  # noqa: E402


def main():
    ap = argparse.ArgumentParser()
    ap.add_argument("prop")
    ap.add_argument("--tier", default=os.environ.get("VERIF_TIER", "quick"),
                    choices=["quick", "thorough"])
    ap.add_argument("--replay", default=None)
    a = ap.parse_args()
    prop = a.prop.upper()
    try:
        mod = importlib.import_module("harness.corr." + prop)
    except ImportError as e:
        print("no check for %s: %s" % (prop, e), file=sys.stderr)
        return 2
    if a.replay:
        return common.run_check(prop, lambda t: mod.replay(a.replay), a.tier)
    return common.run_check(prop, mod.run, a.tier)


if __name__ == "__main__":
    sys.exit(main())
