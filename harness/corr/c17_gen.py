"""Source-set generator for C17 ("rich" sets).

Goal: make every collection the compiler builds from the sources LARGE and made of
DIVERSE strings, so that an emission that follows set/dict-of-hash order differs between
PYTHONHASHSEED values with high probability (k elements: the chance that s seeds agree is
about (1/k!)^(s-1)).  Each feature builds source sets that blow up one family of collections:

  accepted   imports   many imported files (sub-directories, diamonds), the SAME file imported
                       two or three times under different local names, in shuffled order
             enums     many enums with many values: aliases (equal numeric values), negative
                       values, enum_case lists, maximum_bits / is_signed
             fields    one big structure: many physical fields of all kinds, anonymous bits,
                       inline types, arrays, conditions, dynamic offsets, many virtual fields,
                       many attributes and documentation
             params    structures with many runtime parameters and many users of them
             types     many top-level and nested types referring to each other
  rejected   dup       many duplicate names of every kind in one module
             missing   many unknown names / members; names visible through many imports
             cycles    many field / enum-value cycles; many import cycles
             constraints, typeerr, attrs, reserved, backend, missing-imports, syntax
                       many errors of one listing kind each

`AIM` maps an iteration site (file:function of the regenerated site table) to the features
whose collections that function consumes; `search` uses it to aim at an unmatched site.
Nothing here depends on a particular seeded change: the features are the construct classes
of the language.
"""
import re

WORDS = ("alpha bravo charlie delta echo foxtrot golf hotel india juliet kilo lima mike november "
         "oscar papa quebec romeo sierra tango uniform victor whiskey xray yankee zulu amber birch "
         "cedar dune ember fjord grove heath isle jade knoll larch mesa nook opal pine quill reef "
         "slate tarn umber vale wharf yew zinc apex bolt crux dart edge flux gate hull iris jolt "
         "keel loop mast node orb port quay rail spar tide unit vent wing yard zone").split()

FEATURES_OK = ["imports", "enums", "fields", "params", "types"]
FEATURES_ERR = ["dup", "missing", "cycles", "constraints", "typeerr", "attrs", "reserved", "backend",
                "missing-imports", "syntax"]
FEATURES = FEATURES_OK + FEATURES_ERR

# site (file:function) -> features that make the collections consumed there large.
# First match wins; the last entry is the fallback (everything).
AIM = [
    (r"header_generator\.py:_get_includes", ["imports"]),
    (r"header_generator\.py:.*(enum|Enum)", ["enums", "backend"]),
    (r"header_generator\.py:.*(name|Name|namespace|verify|check)", ["backend", "enums", "fields", "imports"]),
    (r"header_generator\.py:", ["imports", "enums", "fields", "params", "types", "backend"]),
    (r"(emboss_front_end\.py:_warn_if_cached_parser|/parser\.py:|/lr1\.py:|/make_parser\.py:|module_ir\.py:_finalize)",
     ["stale-parser", "syntax"]),
    (r"emboss_front_end\.py:", ["imports", "missing-imports", "syntax"]),
    (r"(util/error\.py:|tokenizer\.py:|module_ir\.py:)", ["syntax", "fields", "enums"]),
    (r"glue\.py:", ["imports", "missing-imports", "cycles", "syntax"]),
    (r"symbol_resolver\.py:", ["dup", "missing", "imports", "types"]),
    (r"dependency_checker\.py:", ["cycles", "fields", "params", "imports"]),
    (r"(attribute_checker\.py:|attribute_util\.py:|attributes\.py:)", ["attrs", "backend", "fields"]),
    (r"constraints\.py:", ["constraints", "reserved", "fields"]),
    (r"(type_check\.py:|expression_bounds\.py:)", ["typeerr", "fields", "params"]),
    (r"(synthetics\.py:|write_inference\.py:)", ["fields", "params", "enums"]),
    (r"(traverse_ir\.py:|ir_util\.py:|ir_data.*\.py:|name_conversion\.py:)", ["fields", "types", "imports", "enums"]),
    (r"", list(FEATURES)),
]


def features_for_site(key):
    """key = 'file:function:kind:expr#n' of the site table (or 'file:function')."""
    parts = key.split(":")
    where = ":".join(parts[:2])
    for rx, feats in AIM:
        if re.search(rx, where):
            return list(feats)
    return list(FEATURES)


class Names:
    """Distinct snake_case / CamelCase / SHOUTY names out of a word pool (diverse strings)."""

    def __init__(self, r):
        self.r = r
        self.used = set()

    def snake(self, parts=None):
        while True:
            k = parts or self.r.choice([1, 2, 2, 3])
            w = "_".join(self.r.choice(WORDS) for _ in range(k))
            if self.r.random() < 0.2:
                w += "_%d" % self.r.randint(2, 99)
            if w not in self.used and w.replace("_", "") not in self.used:
                self.used.add(w)
                self.used.add(w.replace("_", ""))
                return w

    def camel(self):
        return "".join(p.capitalize() for p in self.snake(self.r.choice([2, 2, 3])).split("_"))

    def shouty(self):
        return self.snake().upper()


def _hdr(r, ns):
    lines = ['[$default byte_order: "%s"]' % r.choice(["LittleEndian", "BigEndian"])]
    if ns:
        lines.append('[(cpp) namespace: "%s"]' % ns)
    return lines


def _dep_module(r, nm, ns, imports=()):
    """A small importable module: one struct `T`, one enum `E` (names returned)."""
    t, e = nm.camel(), nm.camel()
    lines = ["-- imported module"] + ['import "%s" as %s' % (f, a) for f, a in imports]
    lines += _hdr(r, ns)
    lines += ["enum %s:" % e]
    for i in range(r.randint(2, 5)):
        lines.append("  %s = %d" % (nm.shouty(), i))
    lines += ["struct %s:" % t, "  0 [+2]  UInt  %s" % nm.snake(), "  2 [+1]  %s  %s" % (e, nm.snake())]
    off = 3
    for f, a in imports:
        pass
    return "\n".join(lines) + "\n", t, e


def f_imports(r, n, tag):
    nm = Names(r)
    n = max(3, n)
    files, deps = {}, []
    for i in range(n):
        base = nm.snake(r.choice([1, 2]))
        path = r.choice(["", "", "lib/", "proto/%s/" % r.choice(WORDS)]) + base + ".emb"
        imps = []
        if deps and r.random() < 0.35:
            for d in r.sample(deps, min(len(deps), r.randint(1, 3))):
                imps.append((d[0], nm.snake(1)))
        text, t, e = _dep_module(r, nm, "gen::%s::%s" % (tag.lower(), base), imps)
        if imps:
            text += "struct %s:\n" % nm.camel() + "".join(
                "  %d [+3]  %s.%s  %s\n" % (3 * j, a, [d for d in deps if d[0] == f][0][1], nm.snake())
                for j, (f, a) in enumerate(imps))
        files[path] = text
        deps.append((path, t, e))
    # main: every dep once, then some of them again (and again) under other local names
    imports = [(d, nm.snake(r.choice([1, 2]))) for d in deps]
    again = r.sample(deps, r.randint(1, max(1, n // 2)))
    imports += [(d, nm.snake(2)) for d in again]
    if r.random() < 0.5:
        imports += [(d, nm.snake(2)) for d in r.sample(again, r.randint(1, len(again)))]
    r.shuffle(imports)
    lines = ["-- many imports, some files imported more than once"]
    lines += ['import "%s" as %s' % (d[0], a) for d, a in imports]
    lines += _hdr(r, "gen::%s::main" % tag.lower())
    lines.append("struct %s:" % nm.camel())
    for j, (d, a) in enumerate(imports):
        lines.append("  %d [+3]  %s.%s  %s" % (3 * j, a, d[1], nm.snake()))
    lines.append("  let %s = %s.%s.%s" % (nm.snake(), imports[0][1], imports[0][0][2],
                                         re.findall(r"^  ([A-Z0-9_]+) = ", files[imports[0][0][0]], re.M)[0]))
    files["main_%s.emb" % tag.lower()] = "\n".join(lines) + "\n"
    return [{"files": files, "main": "main_%s.emb" % tag.lower()}]


def f_enums(r, n, tag):
    nm = Names(r)
    lines = _hdr(r, "gen::enums")
    if r.random() < 0.5:
        lines.append('[(cpp) $default enum_case: "%s"]' % r.choice(["kCamelCase", "SHOUTY_CASE, kCamelCase"]))
    enums = []
    for _e in range(r.randint(2, 4)):
        en = nm.camel()
        lines.append("enum %s:" % en)
        signed = r.random() < 0.4
        if r.random() < 0.5:
            lines.append("  [maximum_bits: %d]" % r.choice([16, 32, 40, 64]))
            if signed:
                lines.append("  [is_signed: true]")
        vals, numbers = [], []
        for i in range(max(3, n)):
            v = nm.shouty()
            if numbers and r.random() < 0.3:
                x = r.choice(numbers)                      # an alias of an earlier value
            else:
                x = r.randint(-200 if signed else 0, 3000)
                numbers.append(x)
            att = ""
            if r.random() < 0.25:
                att = '  [(cpp) enum_case: "%s"]' % r.choice(["kCamelCase", "SHOUTY_CASE", "kCamelCase, SHOUTY_CASE"])
            if r.random() < 0.15:
                lines.append("  %s = %d + %d * %d%s" % (v, x, r.randint(0, 3), r.randint(1, 5), att))
            else:
                lines.append("  %s = %d%s" % (v, x, att))
            vals.append(v)
        enums.append((en, vals, signed))
    lines.append("struct %s:" % nm.camel())
    off = 0
    fields = []
    for en, vals, _s in enums:
        f = nm.snake()
        lines.append("  %d [+8]  %s  %s" % (off, en, f))
        fields.append((f, en, vals))
        off += 8
    for f, en, vals in fields:
        for v in r.sample(vals, min(len(vals), 4)):
            lines.append("  let %s = %s == %s.%s" % (nm.snake(), f, en, v))
    return [{"files": {"m.emb": "\n".join(lines) + "\n"}, "main": "m.emb"}]


def f_fields(r, n, tag):
    nm = Names(r)
    lines = _hdr(r, "gen::fields")
    en = nm.camel()
    evs = [nm.shouty() for _ in range(4)]
    lines.append("enum %s:" % en)
    lines += ["  %s = %d" % (v, i) for i, v in enumerate(evs)]
    sub = nm.camel()
    lines += ["struct %s:" % sub, "  0 [+1]  UInt  %s" % nm.snake(), "  1 [+1]  UInt  %s" % nm.snake()]
    lines += ["struct %s:" % nm.camel(), "  -- a big structure", "  [requires: %s]" % "true"]
    off = 0
    ints = []
    first = nm.snake()
    lines.append("  0 [+1]  UInt  %s" % first)
    lines.append("    -- the first field")
    ints.append(first)
    off = 1
    for i in range(max(4, n)):
        kind = r.choice(["uint", "uint", "int", "enum", "anon", "inline", "array", "sub", "cond", "bcd", "dyn", "float"])
        f = nm.snake()
        if kind == "uint":
            w = r.choice([1, 2, 4])
            lines.append("  %d [+%d]  UInt  %s" % (off, w, f))
            if r.random() < 0.3:
                lines.append("    [requires: this < %d]" % r.randint(50, 250))
            if r.random() < 0.3:
                lines.append('    [text_output: "%s"]' % r.choice(["Skip", "Emit"]))
            ints.append(f)
            off += w
        elif kind == "int":
            lines.append("  %d [+2]  Int  %s" % (off, f))
            ints.append(f)
            off += 2
        elif kind == "bcd":
            lines.append("  %d [+1]  Bcd  %s" % (off, f))
            off += 1
        elif kind == "float":
            lines.append("  %d [+4]  Float  %s" % (off, f))
            off += 4
        elif kind == "enum":
            lines.append("  %d [+1]  %s  %s" % (off, en, f))
            lines.append("  let %s = %s == %s.%s" % (nm.snake(), f, en, r.choice(evs)))
            off += 1
        elif kind == "anon":
            lines.append("  %d [+1]  bits:" % off)
            a, b = nm.snake(), nm.snake()
            lines.append("    0 [+3]  UInt  %s" % a)
            lines.append("    3 [+1]  Flag  %s" % b)
            lines.append("    4 [+4]  %s  %s" % (en, nm.snake()))
            ints.append(a)
            off += 1
        elif kind == "inline":
            lines.append("  %d [+2]  bits  %s:" % (off, f))
            lines.append("    0 [+9]  UInt  %s" % nm.snake())
            lines.append("    9 [+7]  Int   %s" % nm.snake())
            off += 2
        elif kind == "array":
            lines.append("  %d [+4]  UInt:8[4]  %s" % (off, f))
            off += 4
        elif kind == "sub":
            lines.append("  %d [+2]  %s  %s" % (off, sub, f))
            off += 2
        elif kind == "cond":
            c = r.choice(ints)
            lines.append("  if %s %s %d:" % (c, r.choice(["==", "<", ">", "!="]), r.randint(0, 9)))
            lines.append("    %d [+1]  UInt  %s" % (off, f))
            off += 1
        elif kind == "dyn":
            lines.append("  %d [+%s]  UInt:8[]  %s" % (off, first, f))
            lines.append("  let %s = $size_in_bytes + %d" % (nm.snake(), r.randint(0, 5)))
            break
    for _ in range(max(2, n // 2)):
        a, b = r.choice(ints), r.choice(ints)
        lines.append("  let %s = %s %s %s" % (nm.snake(), a, r.choice(["+", "-", "*"]), b if r.random() < 0.7 else str(r.randint(1, 9))))
    return [{"files": {"m.emb": "\n".join(lines) + "\n"}, "main": "m.emb"}]


def f_params(r, n, tag):
    nm = Names(r)
    lines = _hdr(r, "gen::params")
    k = max(2, min(n, 12))
    ps = [nm.snake() for _ in range(k)]
    inner = nm.camel()
    lines.append("struct %s(%s):" % (inner, ", ".join("%s: UInt:8" % p for p in ps)))
    lines.append("  0 [+1]  UInt  %s" % nm.snake())
    for i, p in enumerate(r.sample(ps, len(ps))):
        lines.append("  if %s > %d:" % (p, i))
        lines.append("    %d [+1]  UInt  %s" % (i + 1, nm.snake()))
    lines.append("  let %s = %s" % (nm.snake(), " + ".join(r.sample(ps, len(ps)))))
    outer = nm.camel()
    lines.append("struct %s:" % outer)
    srcs = []
    for i in range(k):
        f = nm.snake()
        lines.append("  %d [+1]  UInt  %s" % (i, f))
        srcs.append(f)
    for j in range(r.randint(2, 4)):
        args = [r.choice(srcs) if r.random() < 0.7 else str(r.randint(0, 200)) for _ in range(k)]
        lines.append("  %d [+%d]  %s(%s)  %s" % (k + j * (k + 1), k + 1, inner, ", ".join(args), nm.snake()))
    return [{"files": {"m.emb": "\n".join(lines) + "\n"}, "main": "m.emb"}]


def f_types(r, n, tag):
    nm = Names(r)
    lines = _hdr(r, "gen::types")
    types = []
    for i in range(max(4, n)):
        t = nm.camel()
        k = r.choice(["struct", "struct", "enum", "bits", "nested"])
        if k == "enum":
            lines += ["enum %s:" % t] + ["  %s = %d" % (nm.shouty(), j) for j in range(r.randint(1, 4))]
            types.append((t, 1, "enum"))
        elif k == "bits":
            lines += ["bits %s:" % t, "  0 [+5]  UInt  %s" % nm.snake(), "  5 [+3]  UInt  %s" % nm.snake()]
            types.append((t, 1, "bits"))
        elif k == "nested":
            inner = nm.camel()
            lines += ["struct %s:" % t, "  struct %s:" % inner, "    0 [+1]  UInt  %s" % nm.snake(),
                      "  enum %s:" % nm.camel(), "    %s = 1" % nm.shouty(),
                      "  0 [+1]  %s  %s" % (inner, nm.snake()), "  1 [+1]  %s.%s  %s" % (t, inner, nm.snake())]
            types.append((t, 2, "struct"))
        else:
            lines.append("struct %s:" % t)
            off = 0
            for u in r.sample(types, min(len(types), r.randint(0, 4))):
                lines.append("  %d [+%d]  %s  %s" % (off, u[1], u[0], nm.snake()))
                off += u[1]
            lines.append("  %d [+1]  UInt  %s" % (off, nm.snake()))
            types.append((t, off + 1, "struct"))
    return [{"files": {"m.emb": "\n".join(lines) + "\n"}, "main": "m.emb"}]


# ------------------------------------------------------------------ rejected
def e_dup(r, n, tag):
    nm = Names(r)
    lines = ['import "x.emb" as same', 'import "x.emb" as same'] if r.random() < 0.3 else []
    lines += _hdr(r, None)
    names = [nm.camel() for _ in range(max(3, n // 2))]
    for t in names + r.sample(names, max(2, len(names) // 2)):
        lines += ["struct %s:" % t, "  0 [+1]  UInt  %s" % nm.snake()]
    lines.append("struct %s:" % nm.camel())
    fs = [nm.snake() for _ in range(max(3, n // 2))]
    for i, f in enumerate(fs + r.sample(fs, max(2, len(fs) // 2))):
        lines.append("  %d [+1]  UInt  %s" % (i, f))
    lines.append("enum %s:" % nm.camel())
    vs = [nm.shouty() for _ in range(max(3, n // 2))]
    for i, v in enumerate(vs + r.sample(vs, max(2, len(vs) // 2))):
        lines.append("  %s = %d" % (v, i))
    return [{"files": {"m.emb": "\n".join(lines) + "\n", "x.emb": "struct Xx:\n  0 [+1]  UInt  x\n"}, "main": "m.emb"}]


def e_missing(r, n, tag):
    nm = Names(r)
    out = []
    lines = _hdr(r, None) + ["struct %s:" % nm.camel()]
    known = nm.snake()
    lines.append("  0 [+1]  UInt  %s" % known)
    for i in range(max(3, n)):
        k = r.choice(["type", "ref", "member", "enumval", "size"])
        if k == "type":
            lines.append("  %d [+1]  %s  %s" % (i + 1, nm.camel(), nm.snake()))
        elif k == "ref":
            lines.append("  let %s = %s + 1" % (nm.snake(), nm.snake()))
        elif k == "member":
            lines.append("  let %s = %s.%s" % (nm.snake(), known, nm.snake()))
        elif k == "enumval":
            lines.append("  let %s = %s.%s" % (nm.snake(), nm.camel(), nm.shouty()))
        else:
            lines.append("  %d [+%s]  UInt:8[]  %s" % (i + 1, nm.snake(), nm.snake()))
    out.append({"files": {"m.emb": "\n".join(lines) + "\n"}, "main": "m.emb"})
    # one name defined in many imported modules, used without qualification; and qualified
    # through an alias that does not exist
    files = {}
    t = nm.camel()
    als = []
    for i in range(max(3, n // 2)):
        f = nm.snake(1) + ".emb"
        files[f] = "struct %s:\n  0 [+1]  UInt  %s\n" % (t, nm.snake())
        als.append((f, nm.snake(1)))
    main = ['import "%s" as %s' % fa for fa in als] + ["struct %s:" % nm.camel(), "  0 [+1]  %s  %s" % (t, nm.snake()),
                                                        "  1 [+1]  %s.%s  %s" % (nm.snake(1), t, nm.snake()),
                                                        "  2 [+1]  UInt  %s" % nm.snake()]
    for j in range(3):
        main.append("  %d [+1]  %s.%s  %s" % (3 + j, r.choice(als)[1], nm.camel(), nm.snake()))
    files["m.emb"] = "\n".join(main) + "\n"
    out.append({"files": files, "main": "m.emb"})
    # names that collide with the prelude's
    lines = []
    for t in r.sample(["UInt", "Int", "Flag", "Bcd", "Float"], 3):
        lines += ["struct %s:" % t, "  0 [+1]  UInt  %s" % nm.snake()]
    lines += ["struct %s:" % nm.camel(), "  0 [+1]  UInt  a", "  1 [+1]  Int  b", "  2 [+1]  bits:", "    0 [+1]  Flag  c"]
    out.append({"files": {"m.emb": "\n".join(lines) + "\n"}, "main": "m.emb"})
    return out


def e_cycles(r, n, tag):
    nm = Names(r)
    out = []
    lines = _hdr(r, None)
    for _s in range(r.randint(2, 3)):
        lines.append("struct %s:" % nm.camel())
        lines.append("  0 [+1]  UInt  %s" % nm.snake())
        for _c in range(max(2, n // 3)):
            k = r.randint(1, 5)
            fs = [nm.snake() for _ in range(k)]
            for i, f in enumerate(fs):
                lines.append("  let %s = %s + %d" % (f, fs[(i + 1) % k], i))
            if r.random() < 0.5:                         # a chord: the SCC is not a simple loop
                lines.append("  let %s = %s + %s" % (nm.snake(), fs[0], fs[-1]))
    en = nm.camel()
    lines.append("enum %s:" % en)
    for _c in range(max(2, n // 3)):
        k = r.randint(1, 4)
        vs = [nm.shouty() for _ in range(k)]
        for i, v in enumerate(vs):
            lines.append("  %s = %s.%s + 1" % (v, en, vs[(i + 1) % k]))
    out.append({"files": {"m.emb": "\n".join(lines) + "\n"}, "main": "m.emb"})
    # import cycles: several loops hanging off the main module
    files = {}
    roots = []
    for _c in range(max(2, n // 4)):
        k = r.randint(1, 4)
        fs = [nm.snake(1) + ".emb" for _ in range(k)]
        for i, f in enumerate(fs):
            files[f] = 'import "%s" as %s\nstruct %s:\n  0 [+1]  UInt  %s\n' % (fs[(i + 1) % k], nm.snake(1), nm.camel(), nm.snake())
        roots.append(fs[0])
    r.shuffle(roots)
    files["m.emb"] = "".join('import "%s" as %s\n' % (f, nm.snake(1)) for f in roots) + \
        "struct %s:\n  0 [+1]  UInt  %s\n" % (nm.camel(), nm.snake())
    out.append({"files": files, "main": "m.emb"})
    return out


def e_constraints(r, n, tag):
    nm = Names(r)
    lines = _hdr(r, None)
    en = nm.camel()
    lines += ["enum %s:" % en, "  %s = 0" % nm.shouty(), "  %s = 18446744073709551616" % nm.shouty(),
              "  %s = -9223372036854775809" % nm.shouty()]
    lines.append("struct %s:" % nm.camel())
    for i in range(max(4, n)):
        k = r.choice(["bigint", "bcdsize", "floatsize", "flagsize", "arr", "enumwide", "dynstruct", "neg"])
        f = nm.snake()
        if k == "bigint":
            lines.append("  %d [+9]  UInt  %s" % (i * 10, f))
        elif k == "bcdsize":
            lines.append("  %d [+9]  Bcd  %s" % (i * 10, f))
        elif k == "floatsize":
            lines.append("  %d [+3]  Float  %s" % (i * 10, f))
        elif k == "flagsize":
            lines.append("  %d [+2]  Flag  %s" % (i * 10, f))
        elif k == "arr":
            lines.append("  %d [+6]  UInt:12[4]  %s" % (i * 10, f))
        elif k == "enumwide":
            lines.append("  %d [+9]  %s  %s" % (i * 10, en, f))
        elif k == "dynstruct":
            lines.append("  %d [+4]  UInt:8[][2]  %s" % (i * 10, f))
        else:
            lines.append("  %d [+1]  UInt:16  %s" % (i * 10, f))
    return [{"files": {"m.emb": "\n".join(lines) + "\n"}, "main": "m.emb"}]


def e_typeerr(r, n, tag):
    nm = Names(r)
    lines = _hdr(r, None)
    en = nm.camel()
    ev = nm.shouty()
    lines += ["enum %s:" % en, "  %s = 1" % ev]
    lines.append("struct %s:" % nm.camel())
    a, b, e = nm.snake(), nm.snake(), nm.snake()
    lines += ["  0 [+1]  UInt  %s" % a, "  1 [+1]  Flag  %s" % b, "  2 [+1]  %s  %s" % (en, e)]
    exprs = ["%s + true" % a, "%s && %s" % (a, b), "%s == %s" % (e, a), "%s.%s + 1" % (en, ev), "%s ? 1 : false" % b,
             "%s < %s" % (b, a), "$max(%s, %s)" % (a, b), "-%s" % b, "$present(%s)" % en, "%s * %s" % (e, e), "$present(%s) + 1" % a,
             "%s ? %s : %s" % (a, a, a), "%s || %s" % (e, b), "%s != %s.%s + 1" % (a, en, ev)]
    for i in range(max(4, n)):
        lines.append("  let %s = %s" % (nm.snake(), r.choice(exprs)))
    for i in range(3):
        lines.append("  if %s:" % r.choice([a, e, "%s + 1" % a]))
        lines.append("    %d [+1]  UInt  %s" % (3 + i, nm.snake()))
    lines.append("  %d [+%s]  UInt:8[]  %s" % (6, b, nm.snake()))
    return [{"files": {"m.emb": "\n".join(lines) + "\n"}, "main": "m.emb"}]


def e_attrs(r, n, tag):
    nm = Names(r)
    out = []
    ends = ", ".join(r.sample(["cpp", "java", "rust", "go", "kotlin", "swift", "python", "zig"], r.randint(3, 6)))
    lines = ['[expected_back_ends: "%s"]' % ends] + _hdr(r, None)
    lines += ['[(%s) %s: "%s"]' % (nm.snake(1), nm.snake(1), nm.snake()) for _ in range(max(2, n // 3))]
    lines += ["[%s: %d]" % (nm.snake(), i) for i in range(max(2, n // 3))]
    lines += ['[byte_order: "LittleEndian"]', "[$default byte_order: 7]", '[(cpp) namespace: 3]', '[(cpp) enum_case: "kCamelCase"]']
    lines.append("struct %s:" % nm.camel())
    lines += ['  [requires: 7]', '  [%s: true]' % nm.snake(), '  [text_output: "Skip"]']
    for i in range(max(3, n // 2)):
        lines.append("  %d [+1]  UInt  %s" % (i, nm.snake()))
        lines.append("    [%s]" % r.choice(['byte_order: "Middle"', 'text_output: "Sometimes"', "requires: 1 + 1", "is_signed: true",
                                            "maximum_bits: 8", 'byte_order: "BigEndian"', "%s: 1" % nm.snake(),
                                            '(cpp) %s: "x"' % nm.snake(1), 'text_output: 5', 'requires: this', "static_requirements: true"]))
        if r.random() < 0.3:
            lines.append('    [byte_order: "LittleEndian"]')
            lines.append('    [byte_order: "LittleEndian"]')
    lines += ["enum %s:" % nm.camel(), "  [maximum_bits: 100]", "  [is_signed: 3]", "  [maximum_bits: 8]", "  %s = 1" % nm.shouty()]
    out.append({"files": {"m.emb": "\n".join(lines) + "\n"}, "main": "m.emb"})
    # unknown back ends only (no other attribute error hides the listing)
    lines = ['[expected_back_ends: "%s"]' % ends] + ['[(%s) %s: "%s"]' % (nm.snake(1), nm.snake(1), nm.snake()) for _ in range(max(3, n // 2))]
    lines += ["struct %s:" % nm.camel(), "  0 [+1]  UInt  %s" % nm.snake(), '    [(%s) %s: "v"]' % (nm.snake(1), nm.snake(1))]
    out.append({"files": {"m.emb": "\n".join(lines) + "\n"}, "main": "m.emb"})
    lines = ['[(%s) %s: "%s"]' % (nm.snake(1), nm.snake(1), nm.snake()) for _ in range(max(3, n // 2))]
    lines += ["struct %s:" % nm.camel(), "  0 [+1]  UInt  %s" % nm.snake()]
    out.append({"files": {"m.emb": "\n".join(lines) + "\n"}, "main": "m.emb"})
    return out


RESERVED = ("class int double float char struct union enum namespace template typename private public protected "
            "virtual static const volatile register auto signed unsigned short long switch case default break "
            "continue return goto new delete this operator sizeof typedef extern inline friend try catch throw "
            "import package interface final abstract lambda yield async await def del pass None True False "
            "func var let type fn impl trait mod pub use match loop").split()


def e_reserved(r, n, tag):
    nm = Names(r)
    lines = _hdr(r, None) + ["struct %s:" % nm.camel()]
    low = [w for w in RESERVED if w.islower()]
    ws = r.sample(low, min(len(low), max(4, n)))
    for i, w in enumerate(ws):
        lines.append("  %d [+1]  UInt  %s" % (i, w))
    lines.append("enum %s:" % nm.camel())
    for i, w in enumerate(r.sample(RESERVED, 6)):
        lines.append("  %s = %d" % (w.upper(), i))
    for w in r.sample(["Class", "Struct", "Int", "Double", "Template", "Namespace", "Union", "Operator"], 4):
        lines += ["struct %s:" % w, "  0 [+1]  UInt  %s" % nm.snake()]
    return [{"files": {"m.emb": "\n".join(lines) + "\n"}, "main": "m.emb"}]


def e_backend(r, n, tag):
    nm = Names(r)
    out = []
    # (a) many bad enum_case values
    lines = _hdr(r, "gen::be")
    lines.append("enum %s:" % nm.camel())
    bad = ["kcamelcase", "Shouty_Case", "snake_case", "", "kCamelCase,", ",SHOUTY_CASE", "kCamelCase, kCamelCase", "K_CAMEL", "camelCase",
           "SHOUTY_CASE,, kCamelCase", "kCamelCase SHOUTY_CASE"]
    for i in range(max(3, n)):
        lines.append('  %s = %d  [(cpp) enum_case: "%s"]' % (nm.shouty(), i, r.choice(bad)))
    out.append({"files": {"m.emb": "\n".join(lines) + "\n"}, "main": "m.emb"})
    # (b) names that collide after case conversion, many at once
    lines = _hdr(r, "gen::be")
    lines.append("struct %s:" % nm.camel())
    off = 0
    for i in range(max(3, n // 2)):
        a, b, k = r.choice(WORDS), r.choice(WORDS), r.randint(1, 9)
        for f in r.sample(["%s_%d" % (a, k), "%s%d" % (a, k), "%s_%s" % (a, b), "%s%s" % (a, b)], 4)[: r.choice([2, 2, 3])]:
            lines.append("  %d [+1]  UInt  %s_%d" % (off, f, i) if False else "  %d [+1]  UInt  %s" % (off, f + "_x%d" % i))
            off += 1
        v1, v2 = nm.snake(), None
        lines.append("  let %s_%d = %d" % (v1, k, i))
        lines.append("  let %s%d = %d" % (v1, k, i))
    lines.append("enum %s:" % nm.camel())
    lines.append('  [(cpp) $default enum_case: "kCamelCase"]')
    for i in range(max(3, n // 2)):
        a, k = r.choice(WORDS).upper(), r.randint(1, 9)
        tagx = "Q%d" % i
        lines.append("  %s_%d_%s = %d" % (a, k, tagx, 2 * i))
        lines.append("  %s%d_%s = %d" % (a, k, tagx, 2 * i + 1))
    out.append({"files": {"m.emb": "\n".join(lines) + "\n"}, "main": "m.emb"})
    # (c) bad namespaces
    for ns in r.sample(["", "::", "a::", "a b", "1a::b", "a::class", "a:::b", "::a::::b", "a::b::", "int"], 3):
        out.append({"files": {"m.emb": '[(cpp) namespace: "%s"]\nstruct %s:\n  0 [+1]  UInt  %s\n' % (ns, nm.camel(), nm.snake())},
                    "main": "m.emb"})
    return out


def e_missing_imports(r, n, tag):
    nm = Names(r)
    lines = ['import "%s%s.emb" as %s' % (r.choice(["", "lib/", "../"]), nm.snake(1), nm.snake(1)) for _ in range(max(3, n))]
    lines += ["struct %s:" % nm.camel(), "  0 [+1]  UInt  %s" % nm.snake()]
    files = {"m.emb": "\n".join(lines) + "\n"}
    # and a present import that itself has missing imports
    dep = nm.snake(1) + ".emb"
    files[dep] = "".join('import "%s.emb" as %s\n' % (nm.snake(1), nm.snake(1)) for _ in range(3)) + "struct Dd:\n  0 [+1]  UInt  d\n"
    files["m.emb"] = 'import "%s" as %s\n' % (dep, nm.snake(1)) + files["m.emb"]
    return [{"files": files, "main": "m.emb"}]


def e_syntax(r, n, tag):
    """Token-level damage to a rich valid module: positions with long expectation lists."""
    out = []
    for gen in (f_fields, f_enums, f_imports, f_params):
        s = gen(r, max(4, n // 2), tag)[0]
        text = s["files"][s["main"]]
        toks = re.split(r"(\s+)", text)
        idx = [j for j, t in enumerate(toks) if t.strip() and not t.startswith(("#", "--"))]
        for _k in range(2):
            j = r.choice(idx)
            t2 = list(toks)
            op = r.choice(["del", "dup", "junk", "junk"])
            if op == "del":
                t2[j] = ""
            elif op == "dup":
                t2[j] = t2[j] + " " + t2[j]
            else:
                t2[j] = r.choice([":", "[", "]", "(", ")", "+", "=", "struct", "$", ",", "==", "import", "if", "let", "as",
                                  "\"s\"", "7", "Zz", "zz", "ZZ", ".", "?", "-", "enum", "bits", "$next", "true", "--d", "&&"])
            files = dict(s["files"])
            files[s["main"]] = "".join(t2)
            out.append({"files": files, "main": s["main"]})
    return out


GEN = {"imports": f_imports, "enums": f_enums, "fields": f_fields, "params": f_params, "types": f_types,
       "dup": e_dup, "missing": e_missing, "cycles": e_cycles, "constraints": e_constraints, "typeerr": e_typeerr,
       "attrs": e_attrs, "reserved": e_reserved, "backend": e_backend, "missing-imports": e_missing_imports,
       "syntax": e_syntax}


def rich_sets(r, features=None, rounds=1, size=(8, 24), prefix="rich"):
    """`rounds` source-set groups per feature; sizes drawn from `size`."""
    out = []
    for feat in (features or FEATURES):
        if feat not in GEN:
            continue
        for k in range(rounds):
            n = r.randint(*size)
            tag = "%s%d" % (feat.replace("-", "").capitalize(), k)
            for j, s in enumerate(GEN[feat](r, n, tag)):
                s["name"] = "%s:%s:%d.%d" % (prefix, feat, k, j)
                s["why"] = "generated: large collections for feature " + feat
                s["feature"] = feat
                s["size"] = n
                out.append(s)
    return out
