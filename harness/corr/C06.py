"""C06 — text format output reads back to the same structure.

Tie: correspondence, two parts.
  INTCODEC/TOK  the real WriteIntegerToTextStream / DecodeInteger / ReadToken (compiled from
                $VERIF_REPO/runtime/cpp with ASan+UBSan) vs the Lean model (`model_c06`) and an
                independent reference (harness/corr/c06_int.py).
  TXT           generated modules -> real header -> WriteToString / UpdateFromText on Ok buffers,
                judged by the property statement itself (harness/corr/c06_txt.py); the
                allow_partial_output clause on truncated buffers and on full-size buffers whose view
                is not Ok by content (invalid BCD digit, failing [requires]).
"""
import json

from harness.lib import common
from harness.corr import c06_int, c06_txt, c06_gen, c06_corpus

PROP = "C06"


def search(chk):
    """Model-free search (used when the Lean obligations are broken)."""
    before = len(chk.violations)
    binary, log = c06_int.build()
    if binary is None:
        raise common.InfraError("intcodec driver does not compile: " + log[-2000:])
    c06_int.run_int(chk, "quick", False, binary, seed_tag="C06-search-int")
    run_txt(chk, "quick", False, "C06-search-txt")
    return len(chk.violations) - before


def run_txt(chk, tier, model_ok, tag):
    r = common.rng(tag)
    c06_corpus.run_corpus(chk, tier)
    mods = [c06_txt.pinned_f1(), c06_txt.pinned_f13(), c06_txt.pinned_array(), c06_txt.pinned_enum(),
            c06_txt.pinned_anon_skip()]
    n_mod = 8 if tier == "quick" else 60
    # `[requires]` attributes and the modules about views that are not Ok by content come from a
    # second stream: module shapes and Ok buffers of the main stream are unchanged by them
    r2 = common.rng(tag + "-requires")
    for i in range(n_mod):
        mod = c06_gen.gen_module(r, "m%d" % i)
        c06_gen.decorate_requires(r2, mod)
        mods.append((mod, "generated", None))
    n_main = len(mods)
    for i in range(1 if tier == "quick" else 6):
        mod = c06_gen.gen_poison_module(r2, "nok%d" % i)
        fixed = {}
        for st in c06_txt.tops_of(mod):
            b = c06_gen.build_buffer(r2, st, mod.default_order)
            b.poison_variants = 3
            fixed[st.name] = [b]
        mods.append((mod, "generated:not-ok-by-content", fixed))
    c06_txt.run_modules(chk, mods, 2 if tier == "quick" else 5, r, model_ok, tier)
    if tier == "thorough":
        # second runtime code path (portable byte loops) and second compiler, on a subset
        c06_txt.run_modules(chk, mods[:17] + mods[n_main:n_main + 2], 2, r, model_ok, tier, compiler="g++",
                            defines=("EMBOSS_NO_OPTIMIZATIONS",), opt="-O1")
        chk.extra["second_code_path"] = "g++ -O1 -DEMBOSS_NO_OPTIMIZATIONS on the pinned + first 12 generated modules"


def run(tier):
    chk = common.Check(PROP, tier, exes=["model_c06"])
    chk.cov["rule"] = ("INTCODEC: distinct (type, value, base, grouping) written and read back, distinct "
                       "(type, text) decoded, distinct texts tokenized; TXT: distinct (module, struct, Ok buffer, "
                       "option set) whose view was Ok and went through WriteToString + UpdateFromText; distinct "
                       "(module, struct, full-size buffer whose view is not Ok by content, option set) written with "
                       "allow_partial_output and compared with the exact expected text tree")
    import time
    t0 = time.time()
    model_ok = common.proof_gate(chk, search)
    t1 = time.time()
    binary, log = c06_int.build()
    if binary is None:
        raise common.InfraError("intcodec driver does not compile: " + log[-2000:])
    c06_int.run_int(chk, tier, model_ok, binary)
    t2 = time.time()
    run_txt(chk, tier, model_ok, "C06-txt")
    t3 = time.time()
    chk.extra["phase_seconds"] = {"lean_build_and_audit": round(t1 - t0, 1), "intcodec": round(t2 - t1, 1),
                                  "txt": round(t3 - t2, 1)}
    return chk.finish()


REPLAY_MAIN = r"""
int main(int argc, char **argv) {
  std::string bytes = Unhex(argv[1]);
  int m = atoi(argv[2]), c = atoi(argv[3]), b = atoi(argv[4]), g = atoi(argv[5]);
  size_t n = bytes.size();
  std::unique_ptr<unsigned char[]> b1(new unsigned char[n]), b2(new unsigned char[n]);
  std::memcpy(b1.get(), bytes.data(), n);
  std::memset(b2.get(), 0, n);
  auto v = MAKE(b1.get(), n);
  std::cout << "view.Ok() = " << v.Ok() << "\n";
  ::emboss::TextOutputOptions o;
  o = o.Multiline(m != 0).WithComments(c != 0).WithNumericBase(static_cast<uint8_t>(b)).WithDigitGrouping(g != 0);
  if (m) o = o.WithIndent("  ");
  std::cout << "WriteToString with allow_partial_output:\n"
            << ::emboss::WriteToString(v, o.WithAllowPartialOutput(true)) << "\n";
  if (!v.Ok()) return 0;
  std::string text = ::emboss::WriteToString(v, o);
  std::cout << "WriteToString:\n" << text << "\n";
  auto w = MAKE(b2.get(), n);
  bool upd = ::emboss::UpdateFromText(w, text);
  std::cout << "UpdateFromText(zeroed buffer) = " << upd << "\n";
  std::cout << "buffer after = " << Hex(std::string(reinterpret_cast<char *>(b2.get()), n)) << "\n";
  std::cout << "buffer before = " << Hex(bytes) << "\n";
  std::cout << "WriteToString(after):\n" << ::emboss::WriteToString(w, o) << "\n";
  return 0;
}
"""


def replay(path):
    """Re-executes the recorded input on the real code (no model, no generator objects)."""
    import os
    import re
    import subprocess
    from harness.lib import cppbuild, emb
    rec = json.load(open(path))
    print("kind:", rec.get("kind"), " part:", rec.get("part"))
    print("expected:", rec.get("expected"))
    print("recorded observation:", rec.get("observed"))
    if rec.get("not_ok_by_content"):
        # a full-size buffer whose view is not Ok by content (c06_gen.poison_buffer): the buffer
        # below is the poisoned one; `ok_buffer` is the Ok buffer it was derived from
        print("view not Ok by content:")
        for x in rec["not_ok_by_content"]:
            print("   leaf %s (%s%s): %s" % (x.get("leaf"), x.get("kind"),
                                             ", in " + "/".join(x["context"]) if x.get("context") else "", x.get("how")))
        print("   derived from the Ok buffer", rec.get("ok_buffer"))
    if rec.get("allow_partial_output") and rec.get("text") is not None:
        print("recorded text (allow_partial_output):\n" + str(rec.get("text")))
    if rec.get("part") in ("INTCODEC", "TOK") or "op" in rec and "emb" not in rec:
        binary, log = c06_int.build()
        if binary is None:
            print(log)
            return 2
        res = cppbuild.run(binary, (rec.get("op") or "") + "\n")
        print("op:", rec.get("op"))
        print("real code now:", res.kind, res.out.strip(), res.err[-1500:])
        return 0
    if "emb" not in rec:
        print(json.dumps(rec, indent=1)[:3000])
        return 0
    ir, errors, exc = emb.compile_text({"m.emb": rec["emb"]})
    if ir is None or errors:
        print("front end:", exc, emb.error_summary(errors))
        return 0
    header, herr = emb.generate_header(ir)
    ns = re.search(r'namespace: "([^"]+)"', rec["emb"]).group(1).strip(":")
    if "struct" not in rec or rec.get("struct") is None:
        # text I/O of the module does not compile (or a crash that could not be pinned to a line):
        # instantiate WriteToString / UpdateFromText of every struct and show the compiler's verdict
        d = os.path.join(common.scratch(), "replay")
        os.makedirs(d, exist_ok=True)
        with open(os.path.join(d, "m.emb.h"), "w") as f:
            f.write(header)
        body = []
        for t in emb.ir_to_dict(ir)["module"][0]["type"]:
            if "structure" not in t or t.get("addressable_unit") not in ("BYTE", 8):
                continue
            casts = c06_corpus.param_kinds(t, ns)
            if casts is None:
                continue
            args = "".join("%s(0), " % c for c in casts)
            body.append("  { auto v = ::%s::Make%sView(%sstatic_cast<unsigned char *>(nullptr), 0); "
                        "(void)::emboss::WriteToString(v); (void)::emboss::UpdateFromText(v, std::string(\"{}\")); }"
                        % (ns, t["name"]["name"]["text"], args))
        src = (cppbuild.CHECK_PRELUDE + '#include "m.emb.h"\n' + c06_txt.DRIVER_PRELUDE +
               "int main() {\n" + "\n".join(body) + "\n  return 0;\n}\n")
        binary, log = cppbuild.compile_one(src, name="replay_inst", extra=["-I" + d])
        print(rec["emb"])
        print("text I/O of every struct instantiated:", "compiles" if binary else "DOES NOT COMPILE")
        print("\n".join(ln for ln in log.split("\n") if "error" in ln)[:3000])
        return 0
    params = rec.get("parameters") or []
    make = "::%s::Make%sView" % (ns, rec["struct"])
    if params:
        casts = None
        for t in emb.ir_to_dict(ir)["module"][0]["type"]:
            if t["name"]["name"]["text"] == rec["struct"]:
                casts = c06_corpus.param_kinds(t, ns)
        if not casts or len(casts) != len(params):
            print("cannot rebuild the parameter list", params)
            return 2
        args = ", ".join("%s(%dLL)" % (c, v) for c, v in zip(casts, params))
        make = "[](unsigned char *d, size_t n) { return ::%s::Make%sView(%s, d, n); }" % (ns, rec["struct"], args)
    d = os.path.join(common.scratch(), "replay")
    os.makedirs(d, exist_ok=True)
    with open(os.path.join(d, "m.emb.h"), "w") as f:
        f.write(header)
    src = (cppbuild.CHECK_PRELUDE + '#include "m.emb.h"\n' + c06_txt.DRIVER_PRELUDE +
           REPLAY_MAIN.replace("MAKE", "(%s)" % make))
    binary, log = cppbuild.compile_one(src, name="replay", extra=["-I" + d])
    if binary is None:
        print(log[-3000:])
        return 2
    o = rec["options"]
    res = cppbuild.run(binary, "", args=[rec["buffer"] or "-", str(o["multiline"]), str(o["comments"]),
                                         str(o["base"]), str(o["grouping"])])
    print(rec["emb"])
    print("struct %s, parameters %r, buffer %s, options %r" % (rec["struct"], params, rec["buffer"], o))
    print(res.kind)
    print(res.out)
    print(res.err[-2000:])
    return 0
