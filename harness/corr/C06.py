"""C06 — text format output reads back to the same structure.

Tie: correspondence, two parts.
  INTCODEC/TOK  the real WriteIntegerToTextStream / DecodeInteger / ReadToken (compiled from
                $VERIF_REPO/runtime/cpp with ASan+UBSan) vs the Lean model (`model_c06`) and an
                independent reference (harness/corr/c06_int.py).
  TXT           generated modules -> real header -> WriteToString / UpdateFromText on Ok buffers,
                judged by the property statement itself (harness/corr/c06_txt.py).
"""
import json

from harness.lib import common
from harness.corr import c06_int

PROP = "C06"


def search(chk):
    """Model-free search (used when the Lean obligations are broken)."""
    before = len(chk.violations)
    binary, log = c06_int.build()
    if binary is None:
        raise common.InfraError("intcodec driver does not compile: " + log[-2000:])
    c06_int.run_int(chk, "quick", False, binary, seed_tag="C06-search-int")
    return len(chk.violations) - before


def run(tier):
    chk = common.Check(PROP, tier, exes=["model_c06"])
    chk.cov["rule"] = ("INTCODEC: distinct (type, value, base, grouping) written and read back, distinct "
                       "(type, text) decoded, distinct texts tokenized")
    model_ok = common.proof_gate(chk, search)
    binary, log = c06_int.build()
    if binary is None:
        raise common.InfraError("intcodec driver does not compile: " + log[-2000:])
    c06_int.run_int(chk, tier, model_ok, binary)
    return chk.finish()


def replay(path):
    rec = json.load(open(path))
    print(json.dumps(rec, indent=1)[:3000])
    return 0
