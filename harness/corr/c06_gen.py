"""C06 TXT generator: small random modules with *intended* meaning kept as side data.

A module is a list of enums, `bits` types and structs.  For every struct the generator can
produce Ok-by-construction buffers: it first chooses a value for every field, then encodes
the values into bytes itself (documented encodings: little/big endian two's complement,
BCD nibbles, IEEE-754 bit patterns, LSB-first bit numbering inside `bits`), and keeps

  * the intended value of every leaf (`dump` form, compared with what the real accessors read),
  * which bytes are covered by fields that the text output must contain (mask 'E'), which
    bytes no emitted field covers (mask 'Z': must stay zero after UpdateFromText into a
    zeroed buffer) and which are left unjudged ('U': partially covered bit fields),
  * the intended dependencies (a conditional field depends on its tag, a dynamically sized or
    located field on its length/offset field) and the Skip/Emit attributes.
"""
import struct as pystruct

BYTE_ORDERS = ("LittleEndian", "BigEndian")


class EnumT:
    def __init__(self, name, bits, signed, items):
        self.name, self.bits, self.signed, self.items = name, bits, signed, items

    def emb(self):
        out = ["enum %s:" % self.name, "  [maximum_bits: %d]" % self.bits]
        if self.signed:
            out.append("  [is_signed: true]")
        for n, v in self.items:
            out.append("  %s = %d" % (n, v))
        return "\n".join(out) + "\n"

    def name_of(self, v):
        for n, x in self.items:
            if x == v:
                return n
        return None


class Scalar:
    """kind: uint | int | bcd | flag | enum | float"""

    def __init__(self, kind, bits, enum=None):
        self.kind, self.bits, self.enum = kind, bits, enum

    def emb_type(self, explicit_size):
        base = {"uint": "UInt", "int": "Int", "bcd": "Bcd", "flag": "Flag", "float": "Float"}.get(self.kind)
        if self.kind == "enum":
            base = self.enum.name
        if explicit_size and self.kind != "flag":
            return "%s:%d" % (base, self.bits)
        return base

    def cpp_int_type(self):
        """The IntTy the runtime uses for the text codec of this scalar (ValueType)."""
        if self.kind in ("uint", "bcd"):
            return "u%d" % (8 if self.bits <= 8 else 16 if self.bits <= 16 else 32 if self.bits <= 32 else 64)
        if self.kind == "int":
            return "i%d" % (8 if self.bits <= 8 else 16 if self.bits <= 16 else 32 if self.bits <= 32 else 64)
        return None

    def pick(self, r):
        b = self.bits
        if self.kind == "uint":
            return r.choice([0, 1, (1 << b) - 1, (1 << b) - 1, 1 << (b - 1), r.randrange(1 << b), r.randrange(1 << b),
                             r.randrange(min(1 << b, 1000))])
        if self.kind == "int":
            lo, hi = -(1 << (b - 1)), (1 << (b - 1)) - 1
            return r.choice([0, -1, lo, lo, hi, lo + 1, r.randint(lo, hi), r.randint(lo, hi),
                             r.randint(max(lo, -1000), min(hi, 1000))])
        if self.kind == "bcd":
            nd = b // 4
            return r.choice([0, 10 ** nd - 1, r.randrange(10 ** nd), r.randrange(10 ** nd)])
        if self.kind == "flag":
            return r.random() < 0.5
        if self.kind == "enum":
            e = self.enum
            if r.random() < 0.7:
                return r.choice(e.items)[1]
            if e.signed:
                return r.randint(-(1 << (b - 1)), (1 << (b - 1)) - 1)
            return r.randrange(1 << b)
        if self.kind == "float":
            if b == 32:
                specials = [0, 0x80000000, 0x7f800000, 0xff800000, 0x7fc00000, 0xffc00001, 0x7f800001, 0x7fffffff,
                            0x00000001, 0x007fffff, 0x00800000, 0x7f7fffff, 0x3f800000, 0x3dcccccd, 0x4b800000]
                return r.choice(specials) if r.random() < 0.5 else r.randrange(1 << 32)
            specials = [0, 1 << 63, 0x7ff0000000000000, 0xfff0000000000000, 0x7ff8000000000000,
                        0xfff8000000000001, 0x7ff0000000000001, 0x7fffffffffffffff, 1, 0x000fffffffffffff,
                        0x0010000000000000, 0x7fefffffffffffff, 0x3ff0000000000000, 0x3fb999999999999a]
            return r.choice(specials) if r.random() < 0.5 else r.randrange(1 << 64)
        raise AssertionError(self.kind)

    def raw(self, v):
        """Unsigned bit pattern of a value."""
        b = self.bits
        if self.kind in ("uint",):
            return v
        if self.kind == "int" or (self.kind == "enum"):
            return v & ((1 << b) - 1)
        if self.kind == "bcd":
            out, shift = 0, 0
            while v:
                out |= (v % 10) << shift
                v //= 10
                shift += 4
            return out & ((1 << b) - 1)
        if self.kind == "flag":
            return 1 if v else 0
        if self.kind == "float":
            return v
        raise AssertionError

    def dump(self, v):
        if self.kind == "flag":
            return "true" if v else "false"
        if self.kind == "float":
            return ("f:%08x" if self.bits == 32 else "d:%016x") % v
        return str(v)


def scalar_range(sc):
    """Inclusive value range of an integer-valued scalar."""
    if sc.kind == "uint":
        return 0, (1 << sc.bits) - 1
    if sc.kind == "int":
        return -(1 << (sc.bits - 1)), (1 << (sc.bits - 1)) - 1
    if sc.kind == "bcd":
        return 0, 10 ** (sc.bits // 4) - 1
    raise AssertionError(sc.kind)


class Req:
    """A `[requires: …]` attribute over `this` (doc/language-reference.md: the field is not Ok()
    when the expression is false, and cannot be written with a value that makes it false).
    text: emboss source; ok(v): does v satisfy it; fix(v): v if ok, else a value that is (a
    deterministic function of v: the main random stream is not consulted); bad(r): a value of the
    type that violates it."""

    def __init__(self, text, ok, fix, bad):
        self.text, self.ok, self.fix, self.bad = text, ok, fix, bad

    def emb(self, subject="this"):
        return self.text.replace("this", subject)


def _interval_req(text, intervals, tlo, thi):
    intervals = sorted(intervals)
    gaps, at = [], tlo
    for lo, hi in intervals:
        if lo > at:
            gaps.append((at, lo - 1))
        at = hi + 1
    if at <= thi:
        gaps.append((at, thi))
    assert gaps and intervals, (text, intervals, tlo, thi)

    def ok(v):
        return any(lo <= v <= hi for lo, hi in intervals)

    def fix(v):
        if ok(v):
            return v
        lo, hi = intervals[v % len(intervals)]
        return lo + (v - lo) % (hi - lo + 1)

    def bad(r):
        lo, hi = r.choice(gaps)
        return r.choice([lo, hi, r.randint(lo, hi)])
    return Req(text, ok, fix, bad)


def gen_req(r, sc):
    """A requirement on a scalar of type sc that some values of the type satisfy and some do
    not; None when the type is not covered (floats)."""
    if sc.kind == "flag":
        want = r.random() < 0.5
        return Req("this" if want else "this == false", (lambda v: bool(v) == want), (lambda v: want),
                   (lambda r_: not want))
    if sc.kind == "enum":
        e = sc.enum
        allowed = sorted(set(x for _, x in r.sample(e.items, min(len(e.items), r.randint(1, 2)))))
        names = [n for n, x in e.items if x in allowed]
        text = " || ".join("this == %s.%s" % (e.name, n) for n in names)
        lo, hi = (-(1 << (sc.bits - 1)), (1 << (sc.bits - 1)) - 1) if e.signed else (0, (1 << sc.bits) - 1)
        others = [x for _, x in e.items if x not in allowed]

        def bad(r_):
            if others and r_.random() < 0.5:
                return r_.choice(others)
            while True:
                v = r_.choice([lo, hi, r_.randint(lo, hi), r_.randint(max(lo, -3), min(hi, 12))])
                if v not in allowed:
                    return v
        return Req(text, (lambda v: v in allowed), (lambda v: v if v in allowed else allowed[v % len(allowed)]), bad)
    if sc.kind not in ("uint", "int", "bcd"):
        return None
    tlo, thi = scalar_range(sc)
    if thi - tlo < 1:
        return None
    # constants stay inside the signed 64-bit range (and non-negative for unsigned types) so that
    # every comparison has a common 64-bit type
    clo, chi = max(tlo, -(1 << 62)), min(thi, (1 << 62))

    def const():
        return r.choice([r.randint(clo, chi), r.randint(max(clo, -20), min(chi, 200)), clo, chi])
    style = r.choice(["range", "range", "lt", "ge", "ne", "disjoint"])
    for _ in range(20):
        if style == "range":
            a, b = sorted((const(), const()))
            iv, text = [(a, b)], "%d <= this <= %d" % (a, b)
        elif style == "lt":
            k = const()
            iv, text = [(tlo, k - 1)], "this < %d" % k
        elif style == "ge":
            k = const()
            iv, text = [(k, thi)], "this >= %d" % k
        elif style == "ne":
            k = const()
            iv, text = [(tlo, k - 1), (k + 1, thi)], "this != %d" % k
        else:
            a, b, c, d = sorted(const() for _ in range(4))
            iv, text = [(a, b), (c, d)], "%d <= this <= %d || %d <= this <= %d" % (a, b, c, d)
        iv = [(lo, hi) for lo, hi in iv if lo <= hi]
        merged = []
        for lo, hi in sorted(iv):
            if merged and lo <= merged[-1][1] + 1:
                merged[-1] = (merged[-1][0], max(hi, merged[-1][1]))
            else:
                merged.append((lo, hi))
        if merged and merged != [(tlo, thi)]:
            return _interval_req(text, merged, tlo, thi)
    return None


class Field:
    def __init__(self, name, ftype, offset, size, cond=None, attr=None, byte_order=None, dyn_count=None,
                 dyn_offset=None, virtual=None, anonymous_bits=None):
        self.req = None               # None | Req: `[requires: …]` on this (scalar, physical) field
        self.name = name
        self.ftype = ftype            # ('scalar', Scalar) | ('struct', StructT) | ('array', elem_ftype, count)
        self.offset = offset          # static offset in the container's units
        self.size = size              # static size (for dynamic arrays: element size; see dyn_count)
        self.cond = cond              # None | (tag field name, value)
        self.attr = attr              # None | 'Skip' | 'Emit'
        self.byte_order = byte_order  # None | 'BigEndian' | 'LittleEndian'
        self.dyn_count = dyn_count    # None | name of the length field (array count = value of that field)
        self.dyn_offset = dyn_offset  # None | name of the field added to the static offset
        self.virtual = virtual        # None | ('alias', target) | ('expr', text, fn(values)->int, deps, writable)
        #                               | ('bool', text, fn(values)->bool, deps, False)
        self.args = None              # struct-typed field (or array of them): arguments for the runtime
        #                               parameters of the type — names of UInt:8 fields or int constants
        self.sym = None               # layout virtuals: symbolic form ('+'|'*'|'>'|'=', source, constant) | ('alias', source)
        self.layout = False           # virtual field whose value is used by the location / size /
        #                               existence condition of another field of the struct
        self.anonymous_bits = anonymous_bits  # None | StructT (kind 'bits') for `N [+k] bits:`

    def deps(self):
        d = []
        if self.cond:
            d.append(self.cond[0])
        if self.dyn_count:
            d.append(self.dyn_count)
        if self.dyn_offset:
            d.append(self.dyn_offset)
        if self.virtual:
            d.extend([self.virtual[1]] if self.virtual[0] == "alias" else self.virtual[3])
        if self.args:
            d.extend(a for a in self.args if isinstance(a, str))
        return d


class StructT:
    def __init__(self, name, kind, fields, static_size, params=()):
        self.name, self.kind, self.fields, self.static_size = name, kind, fields, static_size
        self.params = list(params)     # names of runtime parameters (all UInt:8)
        self.req = None                # None | (field name, Req): struct-level `[requires: …]` over one field
        # static_size: bytes (struct) or bits (bits) of the fixed part; dynamic tails extend it.

    def max_size(self):
        m = self.static_size
        for f in self.fields:
            if f.virtual:
                continue
            top = f.offset + (DYN_BOUND if f.dyn_offset else 0)
            if f.dyn_count:
                top += f.size * DYN_BOUND
            else:
                top += f.size
            m = max(m, top)
        return m

    def is_fixed(self):
        return not any(f.dyn_count or f.dyn_offset for f in self.fields)


MAXDYN = 5
DYN_BOUND = 48      # upper bound of any value used as a dynamic offset / count (tags ≤ MAXDYN, `let`s ≤ 5*3*3)


def ftype_emb(ft, in_bits, args=None):
    argtxt = "(%s)" % ", ".join(str(a) for a in args) if args else ""
    if ft[0] == "scalar":
        return ft[1].emb_type(False)
    if ft[0] == "struct":
        return ft[1].name + argtxt
    # array: element types need explicit sizes for scalars
    _, elem, count = ft
    suffix = "[%s]" % ("" if count is None else count)
    if elem[0] == "scalar":
        return elem[1].emb_type(True) + suffix
    if elem[0] == "struct":
        return elem[1].name + argtxt + suffix
    # two-dimensional: inner array has a static count
    return ftype_emb(elem, in_bits) + suffix


def struct_emb(st):
    out = ["%s %s%s:" % (st.kind, st.name, "(%s)" % ", ".join("%s: UInt:8" % p for p in st.params) if st.params else "")]
    if st.req is not None:
        out.append("  [requires: %s]" % st.req[1].emb(st.req[0]))
    if not st.fields:
        out.append("  let emboss_c06_empty = 0")
    for f in st.fields:
        ind = "  "
        if f.cond:
            if f.cond[1] is True:
                out.append("  if %s:" % f.cond[0])
            elif f.cond[1] is False:
                out.append("  if %s == false:" % f.cond[0])
            else:
                out.append("  if %s == %d:" % f.cond)
            ind = "    "
        if f.virtual:
            if f.virtual[0] == "alias":
                out.append("%slet %s = %s" % (ind, f.name, f.virtual[1]))
            else:
                out.append("%slet %s = %s" % (ind, f.name, f.virtual[1]))
        elif f.anonymous_bits is not None:
            out.append("%s%d [+%d] bits:" % (ind, f.offset, f.size))
            for g in f.anonymous_bits.fields:
                out.append("%s  %d [+%d] %s %s" % (ind, g.offset, g.size, ftype_emb(g.ftype, True), g.name))
                if g.attr:
                    out.append('%s    [text_output: "%s"]' % (ind, g.attr))
                if g.req is not None:
                    out.append("%s    [requires: %s]" % (ind, g.req.emb()))
            if f.byte_order:
                pass
        else:
            off = str(f.offset) if not f.dyn_offset else "%d+%s" % (f.offset, f.dyn_offset)
            if f.dyn_count:
                size = f.dyn_count if f.size == 1 else "%s*%d" % (f.dyn_count, f.size)
            else:
                size = str(f.size)
            out.append("%s%s [+%s] %s %s" % (ind, off, size, ftype_emb(f.ftype, st.kind == "bits", f.args), f.name))
        if f.anonymous_bits is None or f.virtual:
            if f.attr:
                out.append('%s  [text_output: "%s"]' % (ind, f.attr))
            if f.byte_order and not f.virtual:
                out.append('%s  [byte_order: "%s"]' % (ind, f.byte_order))
            if f.req is not None:
                out.append("%s  [requires: %s]" % (ind, f.req.emb()))
    return "\n".join(out) + "\n"


class Module:
    def __init__(self, name, enums, types, default_order):
        self.name, self.enums, self.types, self.default_order = name, enums, types, default_order

    def emb(self):
        out = ['[$default byte_order: "%s"]' % self.default_order, '[(cpp) namespace: "c06::%s"]' % self.name, ""]
        for e in self.enums:
            out.append(e.emb())
        for t in self.types:
            out.append(struct_emb(t))
        return "\n".join(out)


# ------------------------------------------------------------------------- random modules
def gen_enum(r, name):
    bits = r.choice([8, 8, 16, 32, 64])
    signed = r.random() < 0.25
    n = r.randint(1, 5)
    lo, hi = (-(1 << (bits - 1)), (1 << (bits - 1)) - 1) if signed else (0, (1 << bits) - 1)
    vals = {r.choice([0, 1, 2, 3, lo, hi, r.randint(lo, hi)]) for _ in range(n)}
    items = [("%s_V%d" % (name.upper(), i), v) for i, v in enumerate(sorted(vals))]
    return EnumT(name, bits, signed, items)


def gen_scalar_in_bits(r, enums, width):
    """A scalar occupying exactly `width` bits inside a `bits` type."""
    choices = ["uint", "int", "uint"]
    if width == 1:
        choices = ["flag", "flag", "uint"]
    if width >= 4 and width % 4 == 0:
        choices.append("bcd")
    es = [e for e in enums if e.bits == width] if width in (8, 16, 32) else []
    if es:
        choices.append("enum")
    k = r.choice(choices)
    if k == "enum":
        return Scalar("enum", width, r.choice(es))
    return Scalar(k, width)


def gen_bits(r, name, enums, total_bits, attrs=True):
    fields, pos, i = [], 0, 0
    while pos < total_bits:
        w = min(total_bits - pos, r.choice([1, 1, 2, 3, 4, 5, 7, 8, 12, 16]))
        if r.random() < 0.12 and pos + w < total_bits:
            pos += w          # padding gap
            continue
        sc = gen_scalar_in_bits(r, enums, w)
        attr = r.choice([None] * 6 + ["Skip", "Emit"]) if attrs else None
        fields.append(Field("%s_f%d" % (name.lower(), i), ("scalar", sc), pos, w, attr=attr))
        pos += w
        i += 1
    return StructT(name, "bits", fields, total_bits)


def gen_byte_scalar(r, enums):
    k = r.choice(["uint", "uint", "int", "int", "bcd", "enum", "float"])
    if k == "float":
        return Scalar("float", r.choice([32, 64]))
    if k == "enum" and enums:
        e = r.choice(enums)
        return Scalar("enum", e.bits, e)
    if k == "enum":
        k = "uint"
    return Scalar(k, r.choice([8, 8, 16, 24, 32, 40, 64, 64]))


def gen_struct(r, name, enums, fixed_structs, bits_types, allow_dynamic=True, nfields=None, focus=None,
               param_structs=()):
    """fixed_structs: previously generated structs with a fixed size (usable as members and
    array elements).  focus="deps": a struct about dependency shapes — tags, `let`s that layout
    goes through, conditional and dynamically placed fields, declared in arbitrary order."""
    deps_focus = focus == "deps"
    fields, pos = [], 0
    nfields = nfields or r.randint(1, 7)
    tags = []      # names of small UInt:8 fields usable as tag / length / offset
    uints = []     # (name, bits) of UInt fields usable in virtual expressions
    fi = [0]

    def fname(p):
        fi[0] += 1
        return "%s%d" % (p, fi[0])

    def attr():
        return r.choice([None] * 7 + ["Skip", "Emit", "Emit"])

    def order(sz_bytes):
        return r.choice([None, None, "BigEndian", "LittleEndian"]) if sz_bytes > 0 else None

    if allow_dynamic and (deps_focus or r.random() < 0.75):
        for _ in range(r.randint(1, 2)):
            nm = fname("n")
            fields.append(Field(nm, ("scalar", Scalar("uint", 8)), pos, 1, attr=r.choice([None] * 9 + ["Skip", "Emit"])))
            fields[-1].small = True
            tags.append(nm)
            uints.append((nm, 8))
            pos += 1
    # layout virtuals: `let` fields computed from the tags (or from another layout virtual) that
    # the locations / sizes / existence conditions of physical fields go through.  Kinds follow
    # write_inference.py: alias and `x + k` of a writable field are writable (ordinary text
    # fields), `x * k` and comparisons are read-only (comments only).
    lay_int, lay_bool = [], []       # [(name, max value)], [name]
    layout_fields = []
    if tags and (deps_focus or r.random() < 0.65):
        writable = {t: True for t in tags}
        vmax = {t: MAXDYN for t in tags}
        transform = {t: False for t in tags}     # written through an inverted expression (`x + k`)
        for _ in range(r.randint(1, 3)):
            src = r.choice(tags + [n for n, _ in lay_int]) if r.random() < 0.35 else r.choice(tags)
            style = r.choice(["mul", "add", "alias", "bool", "bool"])
            if style in ("mul", "add") and vmax[src] > MAXDYN * 2:
                style = "alias"
            at = r.choice([None] * 5 + ["Skip", "Emit"])
            if style == "bool":
                nm = fname("lb")
                c = r.randint(0, 2)
                if r.random() < 0.5:
                    virt = ("bool", "%s > %d" % (src, c), (lambda vals, s=src, c=c: vals[s] > c), [src], False)
                    sym = (">", src, c)
                else:
                    virt = ("bool", "%s == %d" % (src, c), (lambda vals, s=src, c=c: vals[s] == c), [src], False)
                    sym = ("=", src, c)
                f = Field(nm, None, 0, 0, virtual=virt, attr=at)
                f.sym = sym
                lay_bool.append(nm)
            elif style == "alias":
                if writable[src] and transform[src]:
                    # an alias of a writable `x + k` field does not compile once its accessor is used
                    # (open finding of C07: alias-of-virtual-field-uses-deleted-default-constructor);
                    # such a module would be lost for this check
                    src = r.choice(tags)
                nm = fname("la")
                f = Field(nm, None, 0, 0, virtual=("alias", src), attr=at)
                f.sym = ("alias", src)
                writable[nm], vmax[nm], transform[nm] = writable[src], vmax[src], transform[src]
                lay_int.append((nm, vmax[nm]))
            elif style == "add":
                nm = fname("lv")
                k = r.randint(1, 3)
                f = Field(nm, None, 0, 0, attr=at,
                          virtual=("expr", "%s + %d" % (src, k), (lambda vals, s=src, k=k: vals[s] + k), [src],
                                   writable[src]))
                f.sym = ("+", src, k)
                writable[nm], vmax[nm], transform[nm] = writable[src], vmax[src] + k, True
                lay_int.append((nm, vmax[nm]))
            else:
                nm = fname("lv")
                k = r.randint(2, 3)
                f = Field(nm, None, 0, 0, attr=at,
                          virtual=("expr", "%s * %d" % (src, k), (lambda vals, s=src, k=k: vals[s] * k), [src], False))
                f.sym = ("*", src, k)
                writable[nm], vmax[nm], transform[nm] = False, vmax[src] * k, False
                lay_int.append((nm, vmax[nm]))
            f.layout = True
            layout_fields.append(f)
            fields.append(f)

    def pick_args(st2):
        """Arguments for the runtime parameters of st2: a tag, a layout `let`, or a constant."""
        if not st2.params:
            return None
        out = []
        for _ in st2.params:
            x = r.random()
            if tags and x < 0.55:
                out.append(r.choice(tags))
            elif lay_int and x < 0.8:
                out.append(r.choice(lay_int)[0])
            else:
                out.append(r.randint(0, 3))
        return out

    def pick_cond():
        """Existence condition on a tag, or through a layout virtual."""
        if lay_bool and r.random() < 0.5:
            return (r.choice(lay_bool), r.random() < 0.8)
        if lay_int and r.random() < 0.3:
            return (r.choice(lay_int)[0], r.randint(0, 4))
        return (r.choice(tags), r.randint(0, 2))

    for _ in range(nfields):
        kind = r.choice(["scalar", "scalar", "scalar", "bits", "struct", "array", "array", "anon", "virtual", "cond"])
        if deps_focus and r.random() < 0.4:
            kind = "cond"
        cond = None
        if kind == "cond":
            if not tags:
                kind = "scalar"
            else:
                cond = pick_cond()
                kind = r.choice(["scalar", "array", "struct"])
        if kind == "scalar":
            sc = gen_byte_scalar(r, enums)
            nm = fname("s")
            fields.append(Field(nm, ("scalar", sc), pos, sc.bits // 8, cond=cond, attr=attr(), byte_order=order(sc.bits // 8)))
            if sc.kind == "uint" and sc.bits <= 32 and cond is None:
                uints.append((nm, sc.bits))
            pos += sc.bits // 8
        elif kind == "bits" and bits_types:
            bt = r.choice(bits_types)
            fields.append(Field(fname("b"), ("struct", bt), pos, bt.static_size // 8, cond=cond, attr=attr(),
                                byte_order=order(1)))
            pos += bt.static_size // 8
        elif kind == "struct" and (fixed_structs or param_structs):
            if param_structs and (not fixed_structs or r.random() < 0.4):
                st = r.choice(param_structs)
            else:
                st = r.choice(fixed_structs)
            fields.append(Field(fname("m"), ("struct", st), pos, st.static_size, cond=cond, attr=attr()))
            fields[-1].args = pick_args(st)
            pos += st.static_size
        elif kind == "array":
            style = r.choice(["u8", "u8", "scalar", "struct", "2d", "long"])
            arr_args = None
            if style == "struct" and not fixed_structs:
                style = "scalar"
            if style == "u8":
                elem, esz = ("scalar", Scalar(r.choice(["uint", "uint", "int"]), 8)), 1
            elif style == "long":
                elem, esz = ("scalar", Scalar("uint", 8)), 1
            elif style == "scalar":
                sc = gen_byte_scalar(r, enums)
                elem, esz = ("scalar", sc), sc.bits // 8
            elif style == "struct":
                if param_structs and r.random() < 0.35:
                    st = r.choice(param_structs)
                    arr_args = pick_args(st)
                else:
                    st = r.choice([s for s in fixed_structs if s.static_size > 0] or fixed_structs)
                elem, esz = ("struct", st), st.static_size
                if esz == 0:
                    elem, esz = ("scalar", Scalar("uint", 8)), 1
            else:
                inner_n = r.randint(1, 3)
                elem, esz = ("array", ("scalar", Scalar("uint", 8)), inner_n), inner_n
            count = 70 if style == "long" else r.choice([0, 1, 2, 3, 8, 9, 17] if esz <= 2 else [0, 1, 2, 3])
            fields.append(Field(fname("a"), ("array", elem, count), pos, esz * count, cond=cond, attr=attr(),
                                byte_order=order(esz) if elem[0] == "scalar" and esz > 1 else None))
            fields[-1].esz = esz
            fields[-1].args = arr_args if elem[0] == "struct" and elem[1].params else None
            pos += esz * count
        elif kind == "anon":
            nbytes = r.choice([1, 2, 4])
            bt = gen_bits(r, name + "Anon%d" % fi[0], enums, nbytes * 8, attrs=r.random() < 0.35)
            for g in bt.fields:
                g.name = fname("q")
            fields.append(Field(fname("anon"), ("struct", bt), pos, nbytes, anonymous_bits=bt, cond=cond))
            pos += nbytes
        elif kind == "virtual" and uints:
            src, b = r.choice(uints)
            if r.random() < 0.5:
                fields.append(Field(fname("al"), None, 0, 0, virtual=("alias", src), attr=attr()))
            else:
                k = r.randint(1, 9)
                if r.random() < 0.5:
                    # `x + k` is invertible: emboss makes the field writable, it is a normal text field
                    virt = ("expr", "%s + %d" % (src, k), (lambda vals, s=src, k=k: vals[s] + k), [src], True)
                else:
                    # `x * k` is not: read-only, written as a comment only
                    virt = ("expr", "%s * %d" % (src, k), (lambda vals, s=src, k=k: vals[s] * k), [src], False)
                fields.append(Field(fname("v"), None, 0, 0, virtual=virt,
                                    attr=r.choice([None, None, None, "Skip", "Emit"])))
        else:
            sc = Scalar("uint", 8)
            nm = fname("s")
            fields.append(Field(nm, ("scalar", sc), pos, 1, cond=cond, attr=attr()))
            if cond is None:
                uints.append((nm, 8))
            pos += 1
    static_size = pos
    if allow_dynamic and tags and (deps_focus or r.random() < 0.8):
        style = r.choice(["bytes", "bytes", "wide", "struct", "offset", "offset"])
        ln = r.choice(tags)
        if lay_int and r.random() < (0.85 if deps_focus else 0.6):
            ln = r.choice(lay_int)[0]        # location / size through a `let`
        if style == "offset":
            sc = Scalar("uint", 8)
            fields.append(Field(fname("x"), ("scalar", sc), pos, 1, dyn_offset=ln, attr=attr()))
        else:
            if style == "struct" and any(s.static_size > 0 for s in fixed_structs):
                st = r.choice([s for s in fixed_structs if s.static_size > 0])
                elem, esz = ("struct", st), st.static_size
            elif style == "wide":
                sc = Scalar(r.choice(["uint", "int"]), r.choice([16, 32]))
                elem, esz = ("scalar", sc), sc.bits // 8
            else:
                elem, esz = ("scalar", Scalar("uint", 8)), 1
            f = Field(fname("d"), ("array", elem, None), pos, esz, dyn_count=ln, attr=attr())
            f.esz = esz
            fields.append(f)
    # the dependency ordering is exercised by declaring the tag/length fields *after* their
    # users (offsets are explicit, so the layout is unchanged)
    # — and, more generally, by declaring the fields in an arbitrary source order: inputs after
    # the `let`s computed from them, `let`s after the physical fields located through them, …
    shape = r.random()
    if deps_focus:
        shape = 0.3 + 0.4 * shape        # always re-ordered: reversed or shuffled
    if tags and shape < 0.3:
        fields = [f for f in fields if not getattr(f, "small", False)] + \
                 [f for f in fields if getattr(f, "small", False)]
    elif shape < 0.45:
        fields = fields[::-1]
    elif shape < 0.7:
        fields = list(fields)
        r.shuffle(fields)
    st = StructT(name, "struct", fields, static_size)
    return st


def gen_param_struct(r, name, enums):
    """A fixed-size struct with one runtime parameter `k: UInt:8`: an existence condition on the
    parameter, directly or through a `let`; a read-only `let` of the parameter (comment only)."""
    fields = []
    fields.append(Field("p_a", ("scalar", Scalar("uint", 8)), 0, 1, attr=r.choice([None] * 5 + ["Skip", "Emit"])))
    sc = gen_byte_scalar(r, enums)
    if sc.bits > 32:
        sc = Scalar("uint", 16)
    c = r.randint(0, 2)
    cond = None
    style = r.choice(["direct", "let", "let", "none"])
    if style == "direct":
        cond = ("k", c)
    elif style == "let":
        lb = Field("p_big", None, 0, 0, attr=r.choice([None, None, "Skip"]),
                   virtual=("bool", "k > %d" % c, (lambda vals, c=c: vals["k"] > c), ["k"], False))
        lb.layout, lb.sym = True, (">", "k", c)
        fields.append(lb)
        cond = ("p_big", r.random() < 0.8)
    fields.append(Field("p_b", ("scalar", sc), 1, sc.bits // 8, cond=cond, attr=r.choice([None] * 5 + ["Skip", "Emit"])))
    if r.random() < 0.6:
        kk = r.randint(2, 3)
        v = Field("p_twice", None, 0, 0, attr=r.choice([None, None, "Skip"]),
                  virtual=("expr", "k * %d" % kk, (lambda vals, kk=kk: vals["k"] * kk), ["k"], False))
        v.layout, v.sym = True, ("*", "k", kk)
        fields.append(v)
    if r.random() < 0.5:
        fields = fields[::-1]
    return StructT(name, "struct", fields, 1 + sc.bits // 8, params=["k"])


def gen_module(r, name, size="normal"):
    enums = [gen_enum(r, "%sEnum%d" % (name.capitalize(), i)) for i in range(r.randint(1, 3))]
    bits_types = [gen_bits(r, "%sBits%d" % (name.capitalize(), i), enums, r.choice([8, 16, 32]))
                  for i in range(r.randint(1, 2))]
    fixed, types = [], list(bits_types)
    param_structs = [gen_param_struct(r, "%sPar%d" % (name.capitalize(), i), enums) for i in range(r.randint(0, 2))]
    types.extend(param_structs)
    nst = r.randint(3, 5)
    for i in range(nst):
        dyn = i >= 1 and r.random() < 0.7
        focus = "deps" if i == nst - 1 else None
        st = gen_struct(r, "%sSt%d" % (name.capitalize(), i), enums, fixed, bits_types,
                        allow_dynamic=dyn or focus is not None, nfields=r.randint(2, 5) if focus else None,
                        focus=focus, param_structs=param_structs)
        types.append(st)
        if st.is_fixed() and not any(f.cond for f in st.fields) and st.static_size <= 24:
            fixed.append(st)
    return Module(name, enums, types, r.choice(BYTE_ORDERS))


# ------------------------------------------------------------------------- values and bytes
class Built:
    """Result of building one buffer for a struct."""

    def __init__(self, size):
        self.buf = bytearray(size)
        self.mask = ["Z"] * size       # per byte: E / Z / U
        self.dump = []                 # [(path, value string)] for physical leaf fields (+ 'absent')
        self.emitted_paths = set()     # paths of leaves whose text must be present
        self.tree = None
        self.flags = set()             # narrow predicates of known findings that hold for this buffer
        self.leaves = []               # [Leaf]: where every physical scalar leaf lives (for poisoning)
        self.poison = []               # [(path, kind, detail)] when the buffer was made not Ok by content


def put_bits(buf, byte_off, nbytes, order, raw):
    bs = raw.to_bytes(nbytes, "little" if order == "LittleEndian" else "big")
    buf[byte_off:byte_off + nbytes] = bs


def build_bits_value(r, bt, emitted, path, built, values_out, where=None, ctx=frozenset()):
    """Returns (raw integer of the bits type, text tree, fully_emitted).  where: (byte offset,
    bytes, byte order) of the container, for the leaf records."""
    raw, tree, full = 0, [], True
    covered = 0
    for g in bt.fields:
        sc = g.ftype[1]
        v = sc.pick(r)
        if g.req is not None:
            v = g.req.fix(v)
        if where is not None:
            built.leaves.append(Leaf(path + g.name, sc, where[0], where[1], where[2], (g.offset, g.size), g.req,
                                     emitted and g.attr != "Skip", False, ctx | {"bits"}, v))
        values_out[g.name] = v
        raw |= sc.raw(v) << g.offset
        em = emitted and g.attr != "Skip"
        built.dump.append((path + g.name, sc.dump(v)))
        if em:
            built.emitted_paths.add(path + g.name)
            tree.append((g.name, ("scalar", sc, v)))
            covered += g.size
        else:
            full = False
    if covered != bt.static_size:
        full = False
    return raw, tree, full


def build_value(r, ft, order, default_order, buf_off, emitted, path, built, params=None, ctx=frozenset(),
                field=None, locked=False):
    """Encodes a random value of type `ft` at byte offset buf_off.  Returns text tree node.
    field: the Field when the value is a struct member (its `[requires]` is honoured)."""
    order = order or default_order
    if ft[0] == "scalar":
        sc = ft[1]
        v = sc.pick(r)
        req = field.req if field is not None else None
        if req is not None:
            v = req.fix(v)
        sreq = getattr(field, "struct_req", None) if field is not None else None
        if sreq is not None:
            v = sreq.fix(v)
        nbytes = sc.bits // 8
        built.leaves.append(Leaf(path, sc, buf_off, nbytes, order, None, req, emitted, locked, ctx, v, sreq))
        put_bits(built.buf, buf_off, nbytes, order, sc.raw(v))
        built.dump.append((path, sc.dump(v)))
        if emitted:
            built.emitted_paths.add(path)
            for i in range(nbytes):
                built.mask[buf_off + i] = "E"
        return ("scalar", sc, v), v
    if ft[0] == "struct":
        st = ft[1]
        if st.kind == "bits":
            vals = {}
            nbytes = st.static_size // 8
            raw, tree, full = build_bits_value(r, st, emitted, path + ".", built, vals, (buf_off, nbytes, order), ctx)
            put_bits(built.buf, buf_off, nbytes, order, raw)
            for i in range(nbytes):
                built.mask[buf_off + i] = "E" if (emitted and full) else ("U" if emitted else built.mask[buf_off + i])
            return ("struct", tree), None
        tree = build_struct(r, st, default_order, buf_off, emitted, path + ".", built, params=params, ctx=ctx)
        return ("struct", tree), None
    if ft[0] == "array":
        _, elem, count = ft
        raise AssertionError("arrays are built by build_array")
    raise AssertionError(ft)


def elem_size(elem):
    if elem[0] == "scalar":
        return elem[1].bits // 8
    if elem[0] == "struct":
        return elem[1].static_size
    return elem_size(elem[1]) * elem[2]


def build_array(r, elem, count, order, default_order, buf_off, emitted, path, built, params=None, ctx=frozenset()):
    items = []
    esz = elem_size(elem)
    ectx = ctx | {"array_of_structs" if elem[0] == "struct" and elem[1].kind == "struct" else "array"}
    for i in range(count):
        p = "%s[%d]" % (path, i)
        if elem[0] == "array":
            node = build_array(r, elem[1], elem[2], order, default_order, buf_off + i * esz, emitted, p, built, params,
                               ectx)
        else:
            node, _ = build_value(r, elem, order, default_order, buf_off + i * esz, emitted, p, built, params, ectx)
        items.append(node)
    return ("array", items)


class Leaf:
    """One physical scalar leaf of a built buffer: where its bits are, what it requires, whether
    its text must be present, whether something else is computed from it (locked: never poisoned)."""

    def __init__(self, path, sc, off, nbytes, order, bit, req, emitted, locked, ctx, value, sreq=None):
        self.path, self.sc, self.off, self.nbytes, self.order, self.bit = path, sc, off, nbytes, order, bit
        self.req, self.emitted, self.locked, self.ctx, self.value, self.sreq = req, emitted, locked, ctx, value, sreq

    def kinds(self):
        """The ways this leaf can make the view not Ok by content."""
        out = []
        if self.sc.kind == "bcd":
            out.append("bcd")
        if self.req is not None:
            out.append("requires")
        if self.sreq is not None:
            out.append("struct_requires")
        return out



def field_by_name(st):
    by = {}
    for f in st.fields:
        by[f.name] = f
        if f.anonymous_bits is not None:
            for g in f.anonymous_bits.fields:
                by[g.name] = g
    return by


def virtual_writable(st, f):
    """write_inference.py: an alias of a writable field and `x + k` of a writable field are
    writable; everything else (`x * k`, comparisons) is read-only."""
    by = field_by_name(st)
    while f.virtual:
        if f.virtual[0] == "bool" or (f.virtual[0] == "expr" and not f.virtual[4]):
            return False
        src = f.virtual[1] if f.virtual[0] == "alias" else f.virtual[3][0]
        f = by[src]
    return True


def physical_sources(st, name, seen=None):
    """Names of the physical fields a field's value is computed from (the field itself when it
    is physical)."""
    by = field_by_name(st)
    seen = seen if seen is not None else set()
    if name in seen or name not in by:
        return set()
    seen.add(name)
    f = by[name]
    if not f.virtual:
        return {name}
    out = set()
    for d in f.deps():
        out |= physical_sources(st, d, seen)
    return out


def mark_sources_written(st, f, base, built):
    """A writable virtual field in the text writes the bytes of its physical source."""
    for src in physical_sources(st, f.name):
        for g in st.fields:
            if g.name == src and not g.virtual and g.anonymous_bits is None:
                o = base + g.offset
                for i in range(g.size):
                    if built.mask[o + i] == "Z":
                        built.mask[o + i] = "E"


def build_struct(r, st, default_order, base, emitted, path, built, size_out=None, params=None, ctx=frozenset()):
    """Encodes a random value of struct `st` at byte offset `base`.  Returns the ordered
    list [(field name, node)] of fields the text must contain *in source order*; the caller
    re-orders by the real `fields_in_dependency_order`."""
    values = dict(params or {})       # runtime parameters are read like fields
    # first: the small tag/length fields (they decide layout), whatever their position
    for f in st.fields:
        if getattr(f, "small", False):
            values[f.name] = r.randint(0, MAXDYN) if r.random() < 0.9 else r.choice([0, 1, 2])
    # then the `let`s that layout goes through (inputs are tags or other such `let`s)
    pending = [f for f in st.fields if f.virtual and f.layout]
    while pending:
        ready = [f for f in pending if all(d in values for d in f.deps())]
        if not ready:
            raise AssertionError("layout virtuals of %s do not resolve" % st.name)
        for f in ready:
            values[f.name] = values[f.virtual[1]] if f.virtual[0] == "alias" else f.virtual[2](values)
            pending.remove(f)
    tree = []
    top = st.static_size
    depended = set()                  # names some other field of the struct is computed / located from
    for f in st.fields:
        depended.update(f.deps())
    for f in st.fields:
        exists = True
        if f.cond:
            exists = values.get(f.cond[0]) == f.cond[1]
        em = emitted and f.attr != "Skip"
        if f.virtual:
            continue
        if f.anonymous_bits is not None:
            bt = f.anonymous_bits
            if not exists:
                for g in bt.fields:
                    built.dump.append((path + g.name, "absent"))
                continue
            vals = {}
            raw, sub, full = build_bits_value(r, bt, emitted, path, built, vals,
                                              (base + f.offset, f.size, default_order), ctx)
            values.update(vals)
            put_bits(built.buf, base + f.offset, f.size, default_order, raw)
            for i in range(f.size):
                if emitted:
                    built.mask[base + f.offset + i] = "E" if full else "U"
            tree.extend(sub)
            continue
        if not exists:
            built.dump.append((path + f.name, "absent"))
            continue
        off = base + f.offset + (values[f.dyn_offset] if f.dyn_offset else 0)
        sub_params = None
        if f.args:
            ft0 = f.ftype
            while ft0[0] == "array":
                ft0 = ft0[1]
            sub_params = {p: (values[a] if isinstance(a, str) else a) for p, a in zip(ft0[1].params, f.args)}
        if f.ftype[0] == "array":
            count = values[f.dyn_count] if f.dyn_count else f.ftype[2]
            node = build_array(r, f.ftype[1], count, f.byte_order, default_order, off, em, path + f.name, built,
                               sub_params, ctx)
            top = max(top, f.offset + elem_size(f.ftype[1]) * count) if f.dyn_count else top
        else:
            if getattr(f, "small", False):
                sc = f.ftype[1]
                v = values[f.name]
                put_bits(built.buf, off, 1, default_order, v)
                built.dump.append((path + f.name, str(v)))
                if em:
                    built.emitted_paths.add(path + f.name)
                    built.mask[off] = "E"
                node = ("scalar", sc, v)
            else:
                fctx = ctx | {"nested"} if f.ftype[0] == "struct" and f.ftype[1].kind == "struct" else ctx
                node, v = build_value(r, f.ftype, f.byte_order, default_order, off, em, path + f.name, built,
                                      sub_params, fctx, field=f, locked=f.name in depended)
                if v is not None and f.ftype[0] == "scalar" and f.ftype[1].kind == "uint":
                    values[f.name] = v
            if f.dyn_offset:
                top = max(top, f.offset + values[f.dyn_offset] + f.size)
        if em:
            tree.append((f.name, node))
    # virtual fields
    for f in st.fields:
        if not f.virtual:
            continue
        exists = True
        if f.cond:
            exists = values.get(f.cond[0]) == f.cond[1]
        if not exists:
            continue
        em = emitted and f.attr != "Skip"
        if f.virtual[0] == "alias":
            tgt = f.virtual[1]
            if tgt in values and em:
                if virtual_writable(st, f):
                    tree.append((f.name, ("scalar", Scalar("uint", 64), values[tgt])))
                    mark_sources_written(st, f, base, built)
                else:
                    tree.append((f.name, ("comment", values[tgt])))
        elif em and all(d in values for d in f.virtual[3]):
            if f.virtual[0] == "expr" and virtual_writable(st, f):
                tree.append((f.name, ("scalar", Scalar("int", 64), f.virtual[2](values))))
                mark_sources_written(st, f, base, built)
            else:
                tree.append((f.name, ("comment", f.virtual[2](values))))
    if size_out is not None:
        size_out.append(top)
    return tree


def build_buffer(r, st, default_order):
    """Returns a Built for one random Ok buffer of top-level struct `st`."""
    built = Built(st.max_size() + 8)
    for i in range(len(built.buf)):
        built.buf[i] = r.randrange(256)      # garbage under padding / skipped / absent fields
    size_out = []
    built.tree = build_struct(r, st, default_order, 0, True, "", built, size_out)
    size = size_out[0]
    built.buf = built.buf[:size]
    built.mask = built.mask[:size]
    return built


# ------------------------------------------------------------------------- not Ok by content
def _req_candidates(st):
    """Physical scalar fields of st (sub-fields of anonymous bits included) that may carry a
    `[requires]`: not the small tag / length fields the layout is computed from."""
    out = []
    for f in st.fields:
        if f.virtual or getattr(f, "small", False):
            continue
        if f.anonymous_bits is not None:
            out.extend(g for g in f.anonymous_bits.fields if g.ftype[0] == "scalar")
        elif f.ftype[0] == "scalar":
            out.append(f)
    return [f for f in out if f.ftype[1].kind in ("uint", "int", "bcd", "enum", "flag")]


def decorate_requires(r, mod, p_field=0.25, p_struct=0.25):
    """Adds `[requires: …]` attributes to a generated module (in place): on scalar fields of
    structs and `bits` types, and — struct level — `[requires: <expression over one field>]`.  Uses
    its own random stream, so the shapes of the modules are those of the undecorated generator;
    Ok-by-construction buffers draw the values of such fields inside the requirement."""
    for st in mod.types:
        for f in _req_candidates(st):
            if f.req is None and r.random() < p_field:
                f.req = gen_req(r, f.ftype[1])
        if st.kind != "struct" or st.req is not None or r.random() >= p_struct:
            continue
        depended = set()
        for f in st.fields:
            depended.update(f.deps())
        cands = [f for f in st.fields if not f.virtual and f.anonymous_bits is None and f.ftype[0] == "scalar"
                 and f.ftype[1].kind in ("uint", "int") and f.req is None and f.cond is None
                 and not getattr(f, "small", False) and f.name not in depended]
        if cands:
            f = r.choice(cands)
            req = gen_req(r, f.ftype[1])
            if req is not None:
                st.req = (f.name, req)
                f.struct_req = req


def _set_leaf_raw(buf, leaf, raw):
    order = "little" if leaf.order == "LittleEndian" else "big"
    if leaf.bit is None:
        buf[leaf.off:leaf.off + leaf.nbytes] = raw.to_bytes(leaf.nbytes, order)
        return
    pos, width = leaf.bit
    whole = int.from_bytes(bytes(buf[leaf.off:leaf.off + leaf.nbytes]), order)
    whole = (whole & ~(((1 << width) - 1) << pos)) | (raw << pos)
    buf[leaf.off:leaf.off + leaf.nbytes] = whole.to_bytes(leaf.nbytes, order)


def _copy_node(n):
    if n[0] == "struct":
        return ("struct", [(k, _copy_node(x)) for k, x in n[1]]) + tuple(n[2:])
    if n[0] == "array":
        return ("array", [_copy_node(x) for x in n[1]])
    return n


def _tree_replace(tree, path, fn):
    """Replaces the scalar node at `path` (dump path syntax: a.b[2].c) of a struct tree (list of
    (name, node)) by fn(node).  Returns False when the path is not in the tree (not emitted)."""
    import re
    toks = re.findall(r"([A-Za-z_][A-Za-z_0-9]*)|\[(\d+)\]", path)
    cur_list, cur_idx, named = None, None, False
    node = ("struct", tree)
    for name, idx in toks:
        if name:
            if node[0] != "struct":
                return False
            hit = [i for i, (k, _) in enumerate(node[1]) if k == name]
            if not hit:
                return False
            cur_list, cur_idx, named = node[1], hit[0], True
            node = cur_list[cur_idx][1]
        else:
            if node[0] != "array" or int(idx) >= len(node[1]):
                return False
            cur_list, cur_idx, named = node[1], int(idx), False
            node = cur_list[cur_idx]
    if node[0] != "scalar" or cur_list is None:
        return False
    cur_list[cur_idx] = (cur_list[cur_idx][0], fn(node)) if named else fn(node)
    return True


def poisonable_leaves(built):
    """Leaves that can make the view not Ok by content without moving anything else: emitted,
    nothing is computed / located / conditioned from them, and either Bcd (invalid digit) or under
    a `[requires]` (field level or struct level)."""
    return [lf for lf in built.leaves if lf.emitted and not lf.locked and lf.kinds()]


def poison_buffer(r, built, prefer=None):
    """A copy of an Ok-by-construction Built whose view is NOT Ok by content: 1–3 leaves are
    rewritten (an invalid BCD digit; a value violating the field's `[requires]`; a value
    violating the struct-level `[requires]`) while every other leaf keeps its intended value.
    The copy's tree has ("unreadable", scalar) nodes where the text must leave a field / array
    element out; a leaf poisoned only at struct level stays readable with its new value.  Returns
    None when the struct has no such leaf.  prefer: a kind / context to pick first, if available."""
    cands = poisonable_leaves(built)
    if not cands:
        return None
    chosen = []
    if prefer is not None:
        pref = [lf for lf in cands if prefer in lf.kinds() or prefer in lf.ctx]
        if pref:
            chosen.append(r.choice(pref))
    n = r.choice([1, 1, 2, 3])
    pool = [lf for lf in cands if lf not in chosen]
    r.shuffle(pool)
    chosen += pool[:max(0, n - len(chosen))]
    # a neighbour in the same array, so that "element after a skipped one" and runs of skipped
    # elements both occur
    import re
    for lf in list(chosen):
        m = re.match(r"^(.*)\[(\d+)\]$", lf.path)
        if m and r.random() < 0.4:
            near = [x for x in cands if x not in chosen and re.match(r"^%s\[\d+\]$" % re.escape(m.group(1)), x.path)]
            if near:
                chosen.append(r.choice(near))
    out = Built(len(built.buf))
    out.buf, out.mask = bytearray(built.buf), list(built.mask)
    out.emitted_paths, out.flags = set(built.emitted_paths), set(built.flags)
    out.leaves = built.leaves
    out.tree = [(k, _copy_node(x)) for k, x in built.tree]
    dump = dict(built.dump)
    out.base = built
    out.unreadable = set()
    for lf in chosen:
        kind = r.choice(lf.kinds())
        sc = lf.sc
        if kind == "bcd":
            raw = sc.raw(lf.value)
            j = r.randrange(sc.bits // 4)
            digit = r.choice([10, 15, r.randint(10, 15)])
            raw = (raw & ~(0xf << (4 * j))) | (digit << (4 * j))
            _set_leaf_raw(out.buf, lf, raw)
            detail = "digit %d of %d set to 0x%x (raw 0x%x)" % (j, sc.bits // 4, digit, raw)
            new_value = None
        else:
            req = lf.req if kind == "requires" else lf.sreq
            v = req.bad(r)
            _set_leaf_raw(out.buf, lf, sc.raw(v))
            detail = "value %s violates [requires: %s]" % (sc.dump(v), req.text)
            new_value = v
        if kind == "struct_requires":
            # every atomic field is still readable: the field is in the text with its new value
            ok = _tree_replace(out.tree, lf.path, lambda node, v=new_value: ("scalar", node[1], v))
            dump[lf.path] = sc.dump(new_value)
        else:
            ok = _tree_replace(out.tree, lf.path, lambda node: ("unreadable", node[1]))
            dump[lf.path] = "!ok"
            out.unreadable.add(lf.path)
        assert ok, ("poisoned leaf is not in the tree", lf.path)
        out.poison.append((lf.path, kind, detail, sorted(lf.ctx)))
    out.dump = [(k, dump[k]) for k, _ in built.dump]
    return out


def gen_poison_module(r, name):
    """A module about views that are not Ok by content: Bcd fields, `Bcd:n[]` arrays, fields with
    `[requires]`, a struct-level `[requires]`, each as a member, as an array element (arrays of
    scalars and arrays of structs) and inside nested structs / `bits`."""
    cap = name.capitalize()
    enums = [gen_enum(r, "%sEnum0" % cap)]
    while enums[0].bits > 32 or len(enums[0].items) < 2:
        enums = [gen_enum(r, "%sEnum0" % cap)]
    e = enums[0]
    bt = gen_bits(r, "%sBits0" % cap, enums, r.choice([8, 16]), attrs=False)

    def scal(kind, bits):
        return ("scalar", Scalar(kind, bits, e if kind == "enum" else None))

    def with_req(f):
        f.req = gen_req(r, f.ftype[1])
        return f
    # element: fixed size, a Bcd member, a member with [requires], sometimes an enum / Int with [requires]
    fields, pos = [], 0
    for kind, bits, want_req in r.sample([("bcd", r.choice([8, 16, 24]), False), ("uint", r.choice([8, 16]), True),
                                          (r.choice(["int", "enum", "bcd"]), None, True)], 3):
        bits = bits or (e.bits if kind == "enum" else r.choice([8, 16, 32]))
        f = Field("e_%s%d" % (kind[0], len(fields)), scal(kind, bits), pos, bits // 8,
                  attr=r.choice([None] * 6 + ["Emit"]), byte_order=r.choice([None, None, "BigEndian", "LittleEndian"]))
        fields.append(with_req(f) if want_req else f)
        pos += bits // 8
    elem = StructT("%sElem" % cap, "struct", fields, pos)
    # middle: an array of Bcd, a bits member, an element member, a scalar with [requires]
    for g in bt.fields:
        if g.ftype[1].kind in ("uint", "int", "flag", "bcd") and r.random() < 0.6:
            with_req(g)
    fields, pos = [], 0
    nd = r.choice([3, 4, 5, 9, 10, 12])
    dsz = r.choice([1, 1, 2])
    parts = [
        Field("m_digits", ("array", scal("bcd", 8 * dsz), nd), 0, dsz * nd, byte_order=r.choice([None, "BigEndian"]) if dsz > 1 else None),
        Field("m_bits", ("struct", bt), 0, bt.static_size // 8),
        Field("m_elem", ("struct", elem), 0, elem.static_size),
        with_req(Field("m_u", scal(r.choice(["uint", "int"]), r.choice([8, 16, 32, 64])), 0, 0)),
    ]
    parts[3].size = parts[3].ftype[1].bits // 8
    r.shuffle(parts)
    for f in parts:
        f.offset = pos
        pos += f.size
        if f.ftype[0] == "array":
            f.esz = dsz
    mid = StructT("%sMid" % cap, "struct", parts, pos)
    # top: arrays of elements / of middles, a nested middle, a Bcd field, a field under a struct-level [requires]
    na, nm = r.randint(2, 4), r.randint(1, 2)
    parts = [
        Field("t_elems", ("array", ("struct", elem), na), 0, elem.static_size * na),
        Field("t_mid", ("struct", mid), 0, mid.static_size),
        Field("t_mids", ("array", ("struct", mid), nm), 0, mid.static_size * nm),
        Field("t_bcd", scal("bcd", r.choice([8, 16, 32, 64])), 0, 0, attr=r.choice([None, None, "Emit"])),
        Field("t_lim", scal("uint", r.choice([8, 16])), 0, 0),
        Field("t_e", scal("enum", e.bits), 0, e.bits // 8),
    ]
    parts[3].size = parts[3].ftype[1].bits // 8
    parts[4].size = parts[4].ftype[1].bits // 8
    with_req(parts[5])
    r.shuffle(parts)
    pos = 0
    for f in parts:
        f.offset = pos
        pos += f.size
        if f.ftype[0] == "array":
            f.esz = elem_size(f.ftype[1])
    top = StructT("%sTop" % cap, "struct", parts, pos)
    lim = [f for f in parts if f.name == "t_lim"][0]
    req = gen_req(r, lim.ftype[1])
    top.req, lim.struct_req = ("t_lim", req), req
    # one struct of the general generator over these types (conditions, dynamic sizes, `let`s, …)
    gen = gen_struct(r, "%sGen" % cap, enums, [elem, mid], [bt], allow_dynamic=True, nfields=r.randint(3, 5))
    mod = Module(name, enums, [bt, elem, mid, top, gen], r.choice(BYTE_ORDERS))
    decorate_requires(r, Module(name, enums, [gen], mod.default_order), p_field=0.6, p_struct=0.5)
    return mod


# ------------------------------------------------------------------------- predicates
def skip_locates_emitted(st, seen=None):
    """The narrow predicate of the known finding: some field marked Skip is a dependee
    (existence condition, size or offset) of a field that is emitted — directly in this
    struct or in a struct nested in it."""
    seen = seen or set()
    if st.name in seen:
        return False
    seen.add(st.name)
    by_name = field_by_name(st)

    def unwritten_skip_source(name, visiting):
        """The value of field `name` is needed to lay out an emitted field.  True when the text
        cannot establish it before: a physical field marked Skip, or a virtual field that is not
        itself written (read-only, or marked Skip) and is computed from such a field."""
        if name not in by_name or name in visiting:
            return False
        d = by_name[name]
        if not d.virtual:
            return d.attr == "Skip"
        if d.attr != "Skip" and virtual_writable(st, d):
            return False            # written as an ordinary field, before its dependants
        return any(unwritten_skip_source(x, visiting | {name}) for x in d.deps())

    for f in st.fields:
        if f.attr == "Skip" or f.virtual:
            continue
        for d in ([f.cond[0]] if f.cond else []) + ([f.dyn_count] if f.dyn_count else []) + \
                ([f.dyn_offset] if f.dyn_offset else []) + [a for a in (f.args or []) if isinstance(a, str)]:
            if unwritten_skip_source(d, frozenset()):
                return True
        if f.virtual is None and f.ftype is not None:
            ft = f.ftype
            while ft[0] == "array":
                ft = ft[1]
            if ft[0] == "struct" and ft[1].kind == "struct" and skip_locates_emitted(ft[1], seen):
                return True
    return False


def intended_deps(st):
    """{field name: [names it depends on directly]}, read off the source text the generator
    wrote: the tag of an existence condition, the names in a location / size, the names in a
    `let` expression."""
    out = {}
    for f in st.fields:
        out[f.name] = f.deps()
        if f.anonymous_bits is not None:
            for g in f.anonymous_bits.fields:
                out[g.name] = [f.name] + ([f.cond[0]] if f.cond else [])
    return out


def transitive_deps(st):
    """{field name: set of all fields it depends on, directly or through other fields (virtual
    ones included)} — the relation of the property statement "fields are emitted after the
    fields they depend on", computed from the source alone."""
    direct = intended_deps(st)
    out = {}
    for n in direct:
        seen, todo = set(), list(direct[n])
        while todo:
            d = todo.pop()
            if d in seen:
                continue
            seen.add(d)
            todo.extend(direct.get(d, []))
        out[n] = seen
    return out
