"""C09 — the shipped parser tables are the parser of the documented grammar.

Tie T (complete, finite), on every run:
  * `cached_parser.module_parser()/expression_parser()` tables are dumped (plain dicts: `strict`);
  * `make_parser.build_module_parser()/build_expression_parser()` are run afresh from
    `module_ir.PRODUCTIONS` + `error_examples` and dumped with their item sets;
  * the code blocks of doc/grammar.md are parsed into a production list;
  * the compiled Lean driver decides `BISIM cached fresh` (proved sound: C09_bisim_sound),
    `LRVALID fresh` (C08 validator) and the production-set equalities
    module_ir.PRODUCTIONS = grammar.md = cached.productions (`SAMERULES`).
Together with C09_cached_is_documented this decides the property for the shipped tables.
Tie C: the parser embossc actually loads (`parser.parse_module/parse_expression`) vs the Lean
`run` over the *cached* tables vs the real fresh parser, on token streams of testdata/*.emb,
the prelude, expressions, and token-level mutations: same tree, same error index, code
(message) and expected set.
If the bisimulation fails the driver returns the shortest access path to the first differing
state pair; it is completed to a token list, replayed on both real parsers, and reported.
"""
import json
import os
import re
import time

from harness.lib import cfg, common, lr1dump
from harness.translate import lr1_examples, lr1_emboss_runs

PROP = "C09"


# ----------------------------------------------------------- doc/grammar.md
def parse_grammar_md(text):
    """Productions published in doc/grammar.md: the ```-fenced blocks before the tokenizer
    table; `lhs -> a b` starts a nonterminal, `| a b` an alternative, other indented lines
    continue the right-hand side; `<empty>` is the empty right-hand side."""
    pt = lr1dump.ptypes()
    prods, in_block = [], False
    lhs, rhs = None, None

    def flush():
        if lhs is not None and rhs is not None:
            prods.append(pt.Production(lhs, tuple(x for x in rhs if x != "<empty>")))
    for line in text.split("\n"):
        if line.startswith("```"):
            if in_block:
                flush()
                lhs, rhs = None, None
            in_block = not in_block
            continue
        if not in_block or not line.strip():
            continue
        words = line.split()
        if not line[0].isspace():
            flush()
            if len(words) < 2 or words[1] != "->":
                raise common.InfraError("grammar.md: cannot parse %r" % line)
            lhs, rhs = words[0], words[2:]
        elif words[0] == "|":
            flush()
            rhs = words[1:]
        else:
            rhs = rhs + words
    return prods


# ------------------------------------------------------------- token streams
def token_streams(tier, kind, r):
    from compiler.front_end import tokenizer
    streams = []
    if kind == "module":
        tdir = os.path.join(common.REPO, "testdata")
        names = sorted(n for n in os.listdir(tdir) if n.endswith(".emb"))
        if tier == "quick":
            names = names[:: max(1, len(names) // 12)]
        for n in names:
            toks, errs = tokenizer.tokenize(open(os.path.join(tdir, n)).read(), n)
            if not errs:
                streams.append(toks)
        toks, _ = tokenizer.tokenize(open(os.path.join(common.REPO, "compiler/front_end/prelude.emb")).read(), "")
        streams.append(toks)
        # the error examples themselves (each must hit its marked error)
        from compiler.front_end import make_parser
        from compiler.util import resources
        for ex in make_parser.parse_error_examples(resources.load("compiler.front_end", "error_examples")):
            if all(t is not lr1dump.lr1mod().ANY_TOKEN for t in ex[0]):
                streams.append(list(ex[0]))
    else:
        exprs = ["1", "a+b*c", "(a+1)*2 == 4 && b", "a ? b : c", "$max(1, 2, x.y)", "a < b <= c", "a.b.c[1]",
                 "-x + +y", "a || b || c", "$upper_bound(x)", "1 + ", "a b", "(a", "a ? b", "a == b == c",
                 "a && b || c", "Foo.BAR", "$is_statically_sized", "x[1][2]", "1_000 * 0x10"]
        for e in exprs:
            toks, errs = tokenizer.tokenize(e, "")
            toks = [t for t in toks if t.symbol != '"\\n"']
            if not errs:
                streams.append(toks)
    n_mut = (120 if tier == "quick" else 1500)
    muts = []
    for _ in range(n_mut):
        base = list(r.choice(streams))
        if not base:
            continue
        if len(base) > 300:
            base = base[: r.randrange(20, 300)]
        op = r.choice(["del", "dup", "swap", "repl", "trunc", "ins"])
        i = r.randrange(len(base))
        if op == "del":
            del base[i]
        elif op == "dup":
            base.insert(i, base[i])
        elif op == "swap" and i + 1 < len(base):
            base[i], base[i + 1] = base[i + 1], base[i]
        elif op == "repl":
            base[i] = r.choice(r.choice(streams) or base)
        elif op == "ins":
            base.insert(i, r.choice(r.choice(streams) or base))
        else:
            base = base[:i]
        muts.append(base)
    return streams, muts


def fresh_tokens(toks, keep_loc):
    pt = lr1dump.ptypes()
    return [pt.Token(t.symbol, t.text, t.source_location if keep_loc else None) for t in toks]


def result_key(res, exc):
    """Observable outcome of a real parse, for real-vs-real comparison."""
    if exc is not None:
        return ("exception", type(exc).__name__)
    if res.error is None:
        return ("accept", tree_shape(res.parse_tree))
    e = res.error
    return ("error", e.code, e.index, tuple(sorted(e.expected_tokens)))


def tree_shape(t):
    lr1 = lr1dump.lr1mod()
    if isinstance(t, lr1.Reduction):
        return (t.production.lhs, t.production.rhs, tuple(tree_shape(c) for c in t.children))
    return (t.symbol, t.text)


# --------------------------------------------------------------- the check
def shortest_yields(prods):
    """nonterminal -> a shortest terminal string it derives (for completing access paths)."""
    nts = set(p.lhs for p in prods)
    best = {}
    changed = True
    while changed:
        changed = False
        for p in prods:
            if all((x in best) or (x not in nts) for x in p.rhs):
                y = []
                for x in p.rhs:
                    y += best[x] if x in nts else [x]
                if p.lhs not in best or len(y) < len(best[p.lhs]):
                    best[p.lhs] = y
                    changed = True
    return best


def table_diff_paths(cached, fresh, limit=8):
    """Model-free search on a break: breadth-first walk over pairs of states of the two real
    tables from (0, 0) along Shift and goto entries; yields (symbol path, next symbols to try,
    reason) for the first pairs whose rows differ in any way `parse` can observe (missing
    ACTION row, different action kind / target pairing / production / error code, different
    default error, goto present on one side only)."""
    lr1 = lr1dump.lr1mod()

    def kind_of(a):
        if isinstance(a, lr1.Shift):
            return ("S",)
        if isinstance(a, lr1.Reduce):
            return ("R", a.rule)
        if isinstance(a, lr1.Accept):
            return ("A",)
        return ("E", a.code)
    out = []
    pair = {0: 0}
    queue = [(0, 0, ())]
    qi = 0
    while qi < len(queue) and len(out) < limit:
        s, t, path = queue[qi]
        qi += 1
        ra, rb = cached.action.get(s), fresh.action.get(t)
        if (ra is None) != (rb is None) and (ra or rb):
            keys = sorted((ra or rb).keys(), key=str)
            out.append((path, [None] + keys[:6], "state %d/%d: ACTION row present in one table only" % (s, t)))
            continue
        ra, rb = ra or {}, rb or {}
        if cached.default_errors.get(s) != fresh.default_errors.get(t):
            out.append((path, ["\0no-such-token"], "state %d/%d: default error codes differ" % (s, t)))
            continue
        bad = False
        for a in sorted(set(ra) | set(rb), key=str):
            x, y = ra.get(a), rb.get(a)
            if x is None or y is None:
                # absent entry = Error(default): observable unless the other side is that same error
                e = x or y
                d = (cached if x is None else fresh).default_errors.get(s if x is None else t)
                if not (isinstance(e, lr1.Error) and e.code == d):
                    out.append((path, [a], "state %d/%d: entry for %s in one table only" % (s, t, a)))
                    bad = True
                continue
            if kind_of(x) != kind_of(y):
                out.append((path, [a], "state %d/%d on %s: %s vs %s" % (s, t, a, kind_of(x)[0], kind_of(y)[0])))
                bad = True
            elif isinstance(x, lr1.Shift):
                if x.state in pair:
                    if pair[x.state] != y.state:
                        out.append((path + (a,), [None], "state pairing is not a function at %d" % x.state))
                        bad = True
                else:
                    pair[x.state] = y.state
                    queue.append((x.state, y.state, path + (a,)))
        ga, gb = cached.goto.get(s, {}), fresh.goto.get(t, {})
        for x in sorted(set(ga) | set(gb), key=str):
            if (x in ga) != (x in gb):
                out.append((path, [x], "state %d/%d: goto on %s in one table only" % (s, t, x)))
                bad = True
            elif ga[x] in pair:
                if pair[ga[x]] != gb[x]:
                    out.append((path + (x,), [None], "state pairing is not a function at %d" % ga[x]))
                    bad = True
            else:
                pair[ga[x]] = gb[x]
                queue.append((ga[x], gb[x], path + (x,)))
        if bad:
            continue
    return out


def distinguish(chk, kind, cached, fresh, path_syms, user_prods, why, r):
    """Turn the symbol path to the first differing state pair into a token list and replay it
    on both real parsers; then the access paths found by a direct walk over the two real tables;
    fall back to a mutation search."""
    pt = lr1dump.ptypes()
    best = shortest_yields(user_prods)

    def expand(syms):
        toks = []
        for x in syms:
            if x is not None:
                toks += best.get(x, [x])
        return toks
    toks = expand(path_syms or [])
    cands = [toks, toks[:-1]] if path_syms is not None else []
    for path, nexts, reason in table_diff_paths(cached, fresh):
        for nx in nexts:
            cands.append(expand(list(path) + [nx]))
    streams, muts = token_streams("thorough", kind, r)
    cands += [[t.symbol for t in s] for s in streams + muts]
    for c in cands:
        tl = [pt.Token(s, s, None) for s in c if s != lr1dump.lr1mod().END_OF_INPUT]
        a = lr1dump.real_parse(cached, list(tl), lambda x: 0, lambda x: 0, limit=60)
        b = lr1dump.real_parse(fresh, list(tl), lambda x: 0, lambda x: 0, limit=60)
        ka, kb = result_key(a[1], a[2]), result_key(b[1], b[2])
        if ka != kb:
            chk.violation("input", {
                "input": " ".join(c), "which": kind, "bisim": why,
                "observed": "cached parser: %r" % (ka[:3],), "expected": "fresh parser: %r" % (kb[:3],)})
            return True
    return False


def check_kind(chk, tier, kind, stats, model_ok, lines, checks):
    from compiler.front_end import make_parser, module_ir, parser as front_parser
    from compiler.front_end.generated import cached_parser
    lr1 = lr1dump.lr1mod()
    r = common.rng("C09-" + kind)
    if kind == "module":
        start, build, load = module_ir.START_SYMBOL, make_parser.build_module_parser, cached_parser.module_parser
        used, mismatch = front_parser.module_parser(), front_parser.module_parser_cache_mismatch()
        parse = front_parser.parse_module
    else:
        start, build, load = (module_ir.EXPRESSION_START_SYMBOL, make_parser.build_expression_parser,
                              cached_parser.expression_parser)
        used = front_parser._load_expression_parser().parser
        mismatch = front_parser._load_expression_parser().cache_mismatch
        parse = front_parser.parse_expression
    cached = load()
    t0 = time.time()
    try:
        fresh = build()
    except Exception as e:
        chk.violation("input", {"input": "make_parser.build_%s_parser()" % kind, "observed": repr(e),
                                "expected": "a conflict-free parser with all error examples marked"},
                      key="build:" + kind)
        return
    stats["build_s_" + kind] = round(time.time() - t0, 2)
    stats["embossc_uses_cached_" + kind] = (mismatch == (set(), set()))
    user = sorted(module_ir.PRODUCTIONS)
    seed = lr1dump.ptypes().Production(lr1.START_PRIME, (start,))
    all_prods = user + [seed]
    doc = parse_grammar_md(open(os.path.join(common.REPO, "doc", "grammar.md")).read())
    cached_user = sorted(p for p in cached.productions if p != seed)
    stats["productions"] = {"module_ir": len(user), "grammar_md": len(doc), "cached_" + kind: len(cached_user)}
    # independent (Python) comparison, reported next to the Lean decision
    py_same = set(user) == set(doc) == set(cached_user) and seed in cached.productions
    sym, code = lr1dump.Interner(), lr1dump.Interner()
    cslot, fslot = "cached_" + kind, "fresh_" + kind
    aut_f, _ = lr1dump.dump_automaton(fresh, fslot, False, sym, code)
    aut_c, _ = lr1dump.dump_automaton(cached, cslot, True, sym, code)
    path = os.path.join(common.scratch(), "c09-%s.ops" % kind)
    extra_ops, mark_line, unmarked = [], None, None
    if kind == "module":
        # ---- Parser.mark_error: (1) spec on the real code: every example of error_examples fails
        # in the fresh parser at its marked token with its own message; (2) the Lean model of the
        # mark_error loop applied to the *unmarked* tables must give the fresh (marked) tables
        from compiler.util import resources
        exs = make_parser.parse_error_examples(resources.load("compiler.front_end", "error_examples"))
        stats["error_examples"] = len(exs)
        enc = []
        for k, (etoks, etok, message, text) in enumerate(exs):
            res = fresh.parse(list(etoks))
            ok = (res.error is not None and res.error.code == message and
                  (res.error.token == etok if etok is not None else res.error.token.symbol == lr1.END_OF_INPUT))
            chk.count()
            if not ok:
                chk.violation("input", {
                    "input": " ".join(str(t.symbol) for t in etoks), "which": kind,
                    "observed": "fresh parser on error example %d: %r" % (k, result_key(res, None)[:3]),
                    "expected": "error at the marked token with message %r" % message})
            if etok is None:
                where = "E"
            else:
                j = [i for i, t in enumerate(etoks) if t is etok][0]
                where = ("A%d" if etok is lr1.ANY_TOKEN else "T%d") % j
            enc.append("%s|%s|%d" % (lr1dump.fld(",".join(str(sym(t.symbol)) for t in etoks)), where, code(message)))
        unmarked = lr1.Grammar(start, list(user)).parser()
        aut_u, _ = lr1dump.dump_automaton(unmarked, "unmarked_" + kind, False, sym, code)
        extra_ops = [aut_u]
        mark_line = "MARKALL unmarked_%s marked_%s %d %s" % (
            kind, kind, 60 * max(len(e[0]) for e in exs) + 1000, lr1dump.fld(";".join(enc)))
    with open(path, "w") as f:
        f.write("\n".join(extra_ops + [aut_f, aut_c, lr1dump.gram_line(start, user, sym),
                           lr1dump.cert_line(fresh, all_prods, sym),
                           "RULES ir " + lr1dump.rules_text(user, sym),
                           "RULES doc " + lr1dump.rules_text(doc, sym),
                           "RULES %s %s" % (cslot, lr1dump.rules_text(cached_user, sym))]) + "\n")
    # level B on the Emboss grammar itself: the Lean generator model `gen` (C08_gen_valid: its
    # conflict-free outputs validate, for every grammar) must produce exactly the item sets, state
    # numbering and ACTION / GOTO tables of the real Grammar(...).parser() (before mark_error)
    if unmarked is None:
        unmarked = lr1.Grammar(start, list(user)).parser()
    gsym = lr1dump.ordered_interner([start, lr1.START_PRIME, lr1.END_OF_INPUT] +
                                    [x for p in user for x in (p.lhs,) + tuple(p.rhs)])
    if len(set(user)) == len(user):
        lines.append(lr1dump.gen_line(start, list(user), gsym))
        checks.append((len(lines) - 1, "gen", (kind, lr1dump.gen_expected(unmarked, all_prods, gsym))))
        chk.count()
    base = len(lines)
    lines += ["LOADF " + path, "BISIM %s %s" % (cslot, fslot), "LRVALID " + fslot,
              "SAMERULES ir doc", "SAMERULES ir " + cslot, "LRTERM " + cslot]
    checks.append((base + 1, "bisim", (kind, cached, fresh, user, sym, r)))
    checks.append((base + 2, "valid", kind))
    checks.append((base + 3, "samerules", ("module_ir.PRODUCTIONS", "doc/grammar.md", py_same, user, doc)))
    checks.append((base + 4, "samerules", ("module_ir.PRODUCTIONS", "cached_parser %s productions" % kind,
                                           py_same, user, cached_user)))
    checks.append((base + 5, "term", kind))
    chk.count(5)
    if mark_line:
        lines += [mark_line, "BISIM marked_%s %s" % (kind, fslot)]
        checks.append((len(lines) - 2, "markall", (kind, len(enc))))
        checks.append((len(lines) - 1, "markbisim", kind))
        chk.count(2)
    # ---- correspondence on token streams: loaded parser vs cached model vs fresh real parser
    streams, muts = token_streams(tier, kind, r)
    for k, toks in enumerate(streams + muts):
        keep = k < len(streams)
        t1, t2, t3 = fresh_tokens(toks, keep), fresh_tokens(toks, keep), fresh_tokens(toks, keep)
        try:
            res_used, exc_used = parse(t1), None
        except Exception as e:
            res_used, exc_used = None, e
        line_c, res_c, exc_c = lr1dump.real_parse(cached, t2, sym, code, limit=60)
        line_f, res_f, exc_f = lr1dump.real_parse(fresh, t3, sym, code, limit=60)
        w = [t.symbol for t in toks]
        chk.count()
        stats["streams_" + kind] = stats.get("streams_" + kind, 0) + 1
        ku, kc, kf = result_key(res_used, exc_used), result_key(res_c, exc_c), result_key(res_f, exc_f)
        stats[kc[0]] = stats.get(kc[0], 0) + 1
        if kc[0] == "error" and kc[1] is not None:
            stats["errors_with_message"] = stats.get("errors_with_message", 0) + 1
            chk.nontrivial("msg:%s:%r" % (kind, kc[1]))
        chk.nontrivial("%s:%s:%d" % (kind, kc[0], len(w)))
        if not (ku == kc == kf):
            stats["stream_mismatches_" + kind] = stats.get("stream_mismatches_" + kind, 0) + 1
            if stats["stream_mismatches_" + kind] > 3:
                continue          # one defect shows on many streams: three replays are enough
            chk.violation("input", {
                "input": " ".join(w), "which": kind,
                "observed": "loaded parser %r; cached tables %r" % (ku[:3], kc[:3]),
                "expected": "freshly generated parser %r" % (kf[:3],)})
            continue
        if exc_c is not None:
            chk.violation("input", {"input": " ".join(w), "which": kind, "observed": repr(exc_c),
                                    "expected": "a parse result"},
                          key="crash:lr1.py:Parser.parse:%s" % type(exc_c).__name__)
            continue
        lines.append("RUN %s %d %s" % (cslot, 60 * len(w) + 1000, lr1dump.fld(",".join(str(sym(x)) for x in w))))
        checks.append((len(lines) - 1, "run", (kind, w, line_c)))
    chk.sample({"which": kind, "streams": len(streams), "mutations": len(muts)}, limit=4)


def search(chk):
    """Model-free: the real cached parser vs a freshly generated one on token streams."""
    from compiler.front_end import make_parser
    from compiler.front_end.generated import cached_parser
    before = len(chk.violations)
    for kind, build, load in (("module", make_parser.build_module_parser, cached_parser.module_parser),
                              ("expression", make_parser.build_expression_parser, cached_parser.expression_parser)):
        r = common.rng("C09-search-" + kind)
        try:
            fresh = build()
        except Exception as e:
            chk.violation("input", {"input": "make_parser.build_%s_parser()" % kind, "observed": repr(e),
                                    "expected": "a parser"}, key="build:" + kind)
            continue
        cached = load()
        # first: a walk over the two tables for the shortest access path to a differing state
        from compiler.front_end import module_ir
        if distinguish(chk, kind, cached, fresh, None, sorted(module_ir.PRODUCTIONS),
                       "direct comparison of the cached and the fresh tables", r):
            continue
        streams, muts = token_streams("thorough", kind, r)
        for k, toks in enumerate(streams + muts):
            keep = k < len(streams)
            a = lr1dump.real_parse(cached, fresh_tokens(toks, keep), lambda x: 0, lambda x: 0, limit=60)
            b = lr1dump.real_parse(fresh, fresh_tokens(toks, keep), lambda x: 0, lambda x: 0, limit=60)
            ka, kb = result_key(a[1], a[2]), result_key(b[1], b[2])
            if ka != kb:
                chk.violation("input", {"input": " ".join(t.symbol for t in toks), "which": kind,
                                        "observed": "cached %r" % (ka[:3],), "expected": "fresh %r" % (kb[:3],)})
                break
    return len(chk.violations) - before


def run(tier):
    chk = common.Check(PROP, tier, exes=["model_c08"])
    chk.cov["rule"] = ("evaluations = table-level decisions (bisimulation, validity, production-set equalities; "
                       "complete) + token streams; non-trivial = distinct (grammar, outcome kind, length) and "
                       "distinct error messages reached")
    lr1_examples.regenerate()
    lr1_emboss_runs.regenerate()   # `run` equations on the shipped Emboss rows vs the real Parser.parse
    model_ok = common.proof_gate(chk, search)
    stats = {}
    lines, checks = [], []
    for kind in ("expression", "module"):
        check_kind(chk, tier, kind, stats, model_ok, lines, checks)
    if model_ok:
        t0 = time.time()
        answers = common.Model("model_c08").ask(lines, timeout=3000)
        stats["model_s"] = round(time.time() - t0, 1)
        dis = 0
        for idx, what, payload in checks:
            ans = answers[idx]
            if what == "bisim":
                kind, cached, fresh, user, sym, r = payload
                stats["bisim_" + kind] = ans
                if ans.startswith("bisim ok"):
                    chk.nontrivial("bisim:" + kind)
                    continue
                dis += 1
                m = re.match(r"bisim mismatch path=(\S+) at=(\d+),(\d+) why=(.*)", ans)
                syms = [] if not m or m.group(1) == "-" else [sym.names[int(x)] for x in m.group(1).split(",")]
                if not distinguish(chk, kind, cached, fresh, syms, user, ans, r):
                    chk.violation("correspondence", {
                        "which": kind, "model": ans, "path": syms,
                        "theorem_or_correspondence": "BISIM cached vs fresh tables (C09_bisim_sound)",
                        "expected": "bisimilar tables"}, found_input=False)
            elif what == "valid":
                stats["valid_" + payload] = ans
                if ans != "valid":
                    dis += 1
                    chk.violation("correspondence", {
                        "which": payload, "model": ans,
                        "theorem_or_correspondence": "LRVALID of the freshly generated Emboss tables (C08 validator)",
                        "expected": "valid"}, found_input=False)
            elif what == "gen":
                kind_g, expected = payload
                same = ans == expected
                stats["gen_equal_" + kind_g] = same
                stats["gen_states_" + kind_g] = expected.split(" ")[2] if expected.startswith("gen ") else "?"
                if not same:
                    dis += 1
                    k = next((i for i, (a, b) in enumerate(zip(ans, expected)) if a != b), min(len(ans), len(expected)))
                    chk.violation("correspondence", {
                        "which": kind_g, "model": ans[max(0, k - 150):k + 150], "observed": expected[max(0, k - 150):k + 150],
                        "theorem_or_correspondence": "GEN (Lean model of Grammar.parser(), level B, C08_gen_valid) vs the real "
                                                     "item sets / tables of the Emboss %s grammar before mark_error" % kind_g,
                        "expected": "identical item sets, state numbering, conflict flag and tables"}, found_input=False)
            elif what in ("markall", "markbisim"):
                # model of mark_error (Model/Merr.lean, C09_mark_error_deterministic) vs the real loop
                stats[what] = ans
                good = (ans == "marked %d" % payload[1]) if what == "markall" else (
                    ans.startswith("bisim ok") and ans.endswith("identity=true"))
                if not good:
                    dis += 1
                    chk.violation("correspondence", {
                        "which": "module", "model": ans,
                        "theorem_or_correspondence": "MARKALL (Lean model of the mark_error loop over the unmarked "
                                                     "tables) vs the tables of make_parser.build_module_parser(); every "
                                                     "example fails in the real parser with its own message",
                        "expected": "the model marks all examples and arrives at the real marked tables"},
                        found_input=False)
            elif what == "term":
                # termination analysis of the *shipped* tables (C08_terminates applies to any table)
                stats["terminates_" + payload] = ans
                if ans != "terminates":
                    dis += 1
                    chk.violation("correspondence", {
                        "which": payload, "model": ans,
                        "theorem_or_correspondence": "LRTERM (TermOK, C08_terminates) of the cached tables",
                        "expected": "terminates"}, found_input=False)
            elif what == "samerules":
                a, b, py_same, la, lb = payload
                stats["samerules:%s=%s" % (a, b)] = ans
                if ans != "same":
                    dis += 1
                    only_a = sorted(str(p) for p in set(la) - set(lb))
                    only_b = sorted(str(p) for p in set(lb) - set(la))
                    chk.violation("input", {
                        "input": "%s vs %s" % (a, b), "observed": {"only_in_first": only_a[:10], "only_in_second": only_b[:10]},
                        "expected": "equal production sets"})
            else:
                kind, w, real_line = payload
                if ans != real_line:
                    dis += 1
                    chk.violation("correspondence", {
                        "input": " ".join(w), "which": kind, "model": ans, "observed": real_line,
                        "theorem_or_correspondence": "model_c08 RUN over the cached tables vs Parser.parse",
                        "expected": "equal"}, found_input=False)
        chk.extra["traces_validated_against_impl"] = sum(1 for c in checks if c[1] == "run")
        chk.extra["disagreements"] = dis
        chk.extra["exhaustive"] = True
    chk.extra["distribution"] = stats
    chk.trusted += [
        "compiled Lean checkers (bisimB = decide Bisim, validFast) on the dumped tables: that they returned true "
        "is trusted to the Lean compiler/runtime; the state pairing is found by an unverified search and then checked",
        "harness/lib/lr1dump.py (table transcription) and the grammar.md block parser in harness/corr/C09.py",
    ]
    return chk.finish()


def replay(path):
    from compiler.front_end import make_parser
    from compiler.front_end.generated import cached_parser
    rec = json.load(open(path))
    kind = rec.get("which", "module")
    print("which:", kind, "input:", rec.get("input", "")[:300])
    if "which" not in rec or not isinstance(rec.get("input"), str) or " vs " in rec.get("input", ""):
        print("observed:", rec.get("observed"), "expected:", rec.get("expected"))
        return 0
    pt = lr1dump.ptypes()
    toks = [pt.Token(s, s, None) for s in rec["input"].split(" ") if s]
    cached = cached_parser.module_parser() if kind == "module" else cached_parser.expression_parser()
    fresh = make_parser.build_module_parser() if kind == "module" else make_parser.build_expression_parser()
    for name, p in (("cached", cached), ("fresh", fresh)):
        line, res, exc = lr1dump.real_parse(p, list(toks), lambda x: 0, lambda x: 0)
        print(name, "->", result_key(res, exc)[:4] if (exc or res.error) else "accept")
    return 0
