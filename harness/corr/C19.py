"""C19 — enum names, values and C++ representation match the definition.

Ties (both on every run):
  T  the enum sections of each *real* generated header are parsed back (enumerators with
     their literal syntax trees, the strcmp chain, the two switch label lists) and compared
     with the lists the Lean model `Emboss.Enum.generate` produces from the front end's IR;
     every literal is evaluated by the model's C++ literal semantics and compared with the
     front end's value.
  C  the header is compiled (ASan+UBSan) with a generated driver that observes
     `std::underlying_type`, every enumerator, `TryToGetEnumFromName` (declared names,
     case-converted spellings, near misses, nullptr), `TryToGetNameFromEnum`, `EnumIsKnown`,
     `operator<<` (declared, adjacent, ±2^k, type min/max) and enum fields in `struct`/`bits`
     (reads of raw patterns, writes of named and unnamed values); compared with the model's
     answers (`model_c19`).
Independent spec oracle (Python, from the property statement and doc/language-reference.md,
doc/cpp-reference.md) is evaluated on the generator's declared (name, value) list for every
case, model or no model.
"""
import json
import os
import re
import time

from harness.lib import common, cppbuild, cppgen, emb

PROP = "C19"
F14_KEY = "signed-enum-in-field-narrower-than-underlying-type"
OSTREAM_KEY = "ostream-operator-prints-8-bit-enum-value-as-character"
BACKEND_KEY = "enum-case-attribute-of-another-back-end-changes-cpp-enumerators"
CAMEL_KEY = "enum-value-names-equal-after-camel-conversion"

SENTINEL = 77


# ============================================================== spec oracle
def spec_kcamel(name):
    """doc/language-reference.md: UPPER_CHANNEL_RANGE_LIMIT -> kUpperChannelRangeLimit."""
    out, up = "k", True
    for ch in name:
        if ch == "_":
            up = True
            continue
        out += ch.upper() if up else ch.lower()
        up = False
    return out


def spec_range(signed, bits):
    return (-(1 << (bits - 1)), (1 << (bits - 1)) - 1) if signed else (0, (1 << bits) - 1)


def spec_type_bits(max_bits):
    for b in (8, 16, 32, 64):
        if max_bits <= b:
            return b
    return None


def spec_cases(text):
    """Requested spellings of one documented `enum_case` value: comma separated, blanks
    ignored.  Returns list of 'SHOUTY_CASE'/'kCamelCase', or None when the text is not a list
    of supported cases (the documentation promises nothing then)."""
    parts = [p.strip() for p in text.split(",")]
    if len(parts) > 1 and parts[-1] == "":
        parts = parts[:-1]          # trailing comma: tolerated by the implementation, undocumented
    if not parts or any(p not in ("SHOUTY_CASE", "kCamelCase") for p in parts):
        return None
    if len(set(parts)) != len(parts):
        return None
    return parts


class SpecEnum:
    """What the property statement says about one enum, from its declaration only."""

    def __init__(self, name, declared, max_bits, is_signed, cases):
        self.name = name
        self.declared = declared                    # [(name, value)] in source order
        self.max_bits = 64 if max_bits is None else max_bits
        self.signed = any(v < 0 for _, v in declared) if is_signed is None else is_signed
        self.cases = cases                          # per value: list of case names (documented meaning)

    def accepts(self):
        if not (1 <= self.max_bits <= 64):
            return False
        lo, hi = spec_range(self.signed, self.max_bits)
        if not all(lo <= v <= hi for _, v in self.declared):
            return False
        # "one enumerator per declared name per requested spelling": two declared names that ask for
        # the same C++ identifier cannot both be generated, so such an enum cannot be accepted
        if all(c is not None for c in self.cases):
            names = [n for n, _ in self.enumerators()]
            if len(set(names)) != len(names):
                return False
        return True

    def type(self):
        return self.signed, spec_type_bits(self.max_bits)

    def enumerators(self):
        out = []
        for (n, v), cs in zip(self.declared, self.cases):
            for c in cs:
                out.append((n if c == "SHOUTY_CASE" else spec_kcamel(n), v))
        return out

    def from_name(self, s):
        if s is None:
            return None
        for n, v in self.declared:
            if n == s:
                return v
        return None

    def to_name(self, v):
        for n, x in self.declared:
            if x == v:
                return n
        return None

    def is_known(self, v):
        return any(x == v for _, x in self.declared)


def spec_field_read(signed, w, raw):
    if signed and raw >= (1 << (w - 1)):
        return raw - (1 << w)
    return raw


def spec_field_could_write(signed, w, v):
    lo, hi = spec_range(signed, w)
    return lo <= v <= hi


# ================================================================ generator
_LET = "ABCDEFGHIJKLMNOPQRSTUVWXYZ"
_SHOUTY_RE = re.compile(r"[A-Z][A-Z_0-9]*[A-Z_][A-Z_0-9]*\Z")


def _bad_names():
    from compiler.front_end import constraints
    return set(constraints.get_reserved_word_list()) | cppgen.platform_macros()


def camel_twin(r, t):
    """A different SHOUTY name with the same kCamelCase spelling as `t` (underscore next to a digit
    dropped or inserted, underscore doubled, trailing underscore), or None."""
    opts = []
    for i, ch in enumerate(t):
        if ch == "_" and i + 1 < len(t) and t[i + 1].isdigit() and i > 0:
            opts.append(t[:i] + t[i + 1:])                 # A_1B -> A1B
        if ch.isdigit() and i > 0 and t[i - 1] != "_":
            opts.append(t[:i] + "_" + t[i:])               # A1B -> A_1B
        if ch == "_":
            opts.append(t[:i] + "_" + t[i:])               # A_B -> A__B
    opts.append(t + "_")                                   # AB -> AB_
    if t.endswith("_"):
        opts.append(t[:-1])
    opts = [o for o in opts if o != t and _SHOUTY_RE.match(o) and spec_kcamel(o) == spec_kcamel(t)]
    return r.choice(opts) if opts else None


def gen_shouty(r, taken, bad, twin=0.0):
    for _ in range(200):
        s = None
        if taken and r.random() < twin:
            s = camel_twin(r, r.choice(list(taken)))       # near-collision on purpose (the spec decides)
        if s is None:
            n = r.choice([1, 2, 2, 3, 4, 6])
            s = r.choice(_LET)
            for _ in range(n):
                s += r.choice(_LET + _LET + "0123456789" + "____")
            if r.random() < 0.15:
                s += "_"
        if not _SHOUTY_RE.match(s) or s in taken or s in bad or s.startswith("EMBOSS_RESERVED"):
            continue
        return s
    raise common.InfraError("name generator exhausted")


CASE_TEXTS_OK = [
    ("SHOUTY_CASE", ["SHOUTY_CASE"]), ("kCamelCase", ["kCamelCase"]),
    ("SHOUTY_CASE, kCamelCase", ["SHOUTY_CASE", "kCamelCase"]),
    ("kCamelCase, SHOUTY_CASE", ["kCamelCase", "SHOUTY_CASE"]),
    ("kCamelCase,SHOUTY_CASE", ["kCamelCase", "SHOUTY_CASE"]),
    ("  kCamelCase  ", ["kCamelCase"]), ("SHOUTY_CASE ,  kCamelCase ", ["SHOUTY_CASE", "kCamelCase"]),
    ("kCamelCase,", ["kCamelCase"]), ("SHOUTY_CASE, kCamelCase, ", ["SHOUTY_CASE", "kCamelCase"]),
    ("\\nkCamelCase", ["kCamelCase"]),
]
CASE_TEXTS_BAD = ["", ",", " ", "kCamelCase,,SHOUTY_CASE", "kCamelCase, kCamelCase", "camelCase",
                  "SHOUTY_CASE kCamelCase", "shouty_case", "kCamelCase;SHOUTY_CASE", " , kCamelCase",
                  "KCamelCase", "snake_case", "SHOUTY_CASE, SHOUTY_CASE, kCamelCase", ",,"]


def pick_values(r, signed, bits, n):
    lo, hi = spec_range(signed, bits)
    pool = [0, 1, 2, hi, hi - 1, lo, lo + 1, hi // 2, 7, 8, 9, 15, 16, 127, 128, 255, 256, 65535,
            (1 << 31) - 1, 1 << 31, (1 << 32) - 1, 1 << 32, (1 << 63) - 1, 1 << 63, (1 << 64) - 1]
    if signed:
        pool += [-1, -2, -128, -129, -(1 << 31), -(1 << 31) - 1, -(1 << 63), -(1 << 63) + 1, lo // 2]
    pool = [v for v in pool if lo <= v <= hi]
    out = []
    for _ in range(n):
        k = r.random()
        if out and k < 0.25:
            out.append(r.choice(out))                      # duplicate value
        elif k < 0.7:
            out.append(r.choice(pool))
        else:
            out.append(r.randint(lo, hi) if r.random() < 0.5 else r.randint(max(lo, -300), min(hi, 300)))
    return out


def fmt_value(r, v):
    k = r.random()
    if v >= 0 and k < 0.25:
        return hex(v)
    if v >= 0 and k < 0.35:
        return bin(v)
    if abs(v) >= 10000 and k < 0.5:
        s = str(abs(v))
        parts = []
        while s:
            parts.insert(0, s[-3:])
            s = s[:-3]
        return ("-" if v < 0 else "") + "_".join(parts)
    return str(v)


class GEnum:
    pass


def gen_enum(r, idx, bad, module_default, outer_default, invalid=None):
    e = GEnum()
    e.name = "E%s%d%s" % (r.choice("abcdefgxyz"), idx, r.choice(["", "x", "Q", "a7", "Zz"]))
    if not re.match(r"[A-Z][a-zA-Z0-9]*[a-z][a-zA-Z0-9]*\Z", e.name):
        e.name += "e"
    e.max_bits = r.choice([None, None, None, 64, 63, 33, 32, 31, 17, 16, 15, 9, 8, 7, 4, 2, 1])
    bits = 64 if e.max_bits is None else e.max_bits
    mode = r.choice(["implicit-unsigned", "implicit-signed", "explicit-signed", "explicit-unsigned",
                     "explicit-signed-nonneg"])
    if bits == 1 and mode == "implicit-signed":
        mode = "explicit-signed"
    signed = mode in ("implicit-signed", "explicit-signed", "explicit-signed-nonneg")
    e.is_signed = {"explicit-signed": True, "explicit-unsigned": False,
                   "explicit-signed-nonneg": True}.get(mode)
    n = r.choice([1, 2, 3, 4, 5, 6, 8])
    vals = pick_values(r, signed, bits, n)
    if mode == "explicit-signed-nonneg":
        vals = [abs(v) if abs(v) <= spec_range(True, bits)[1] else 0 for v in vals]
    if mode == "implicit-signed" and not any(v < 0 for v in vals):
        vals[r.randrange(len(vals))] = r.choice([-1, spec_range(True, bits)[0]])
    e.enum_default = None
    if r.random() < 0.3:
        e.enum_default = r.choice(CASE_TEXTS_OK)
    taken = []
    e.values = []
    twin = r.choice([0.0, 0.0, 0.0, 0.25])
    for v in vals:
        nm = gen_shouty(r, taken, bad, twin)
        taken.append(nm)
        at = r.choice(CASE_TEXTS_OK) if r.random() < 0.3 else None
        e.values.append([nm, v, at])
    e.invalid = invalid
    e.other_backend = None
    if invalid == "maxbits":
        e.max_bits = r.choice([0, 65, 100, -1, 128])
    elif invalid == "value-range":
        lo, hi = spec_range(signed, bits)
        if e.is_signed is None:
            e.is_signed = signed
        e.values[r.randrange(len(e.values))][1] = r.choice([hi + 1, lo - 1, hi + 1000, lo - (1 << 40)])
    elif invalid == "mixed-sign-64":
        e.max_bits = r.choice([None, 64])
        e.is_signed = None
        e.values[0][1] = -1
        nm = gen_shouty(r, taken, bad)
        e.values.append([nm, r.choice([1 << 63, (1 << 64) - 1]), None])
    elif invalid == "camel-collision":
        # two values whose kCamelCase spellings coincide, with kCamelCase in force for both
        kcs = [c for c in CASE_TEXTS_OK if "kCamelCase" in c[1]]
        cands = [(val, camel_twin(r, val[0])) for val in e.values]
        cands = [(val, tw) for val, tw in cands if tw and tw not in taken and tw not in bad]
        if cands:           # (else: no twin could be formed; the module stays valid and the spec says so)
            base, tw = r.choice(cands)
            base[2] = r.choice(kcs)
            e.values.insert(r.randrange(len(e.values) + 1), [tw, r.choice(e.values)[1], r.choice(kcs)])
    elif invalid == "bad-case":
        t = r.choice(CASE_TEXTS_BAD)
        if r.random() < 0.5:
            e.values[r.randrange(len(e.values))][2] = (t, None)
        else:
            e.enum_default = (t, None)
    # documented meaning of the attributes: value attribute, else innermost $default, else SHOUTY
    e.inherited = outer_default if outer_default is not None else module_default
    return e


def enum_text(r, e, indent):
    pad = " " * indent
    lines = [pad + "enum %s:" % e.name]
    if e.max_bits is not None:
        lines.append(pad + "  [maximum_bits: %d]" % e.max_bits)
    if e.is_signed is not None:
        lines.append(pad + "  [is_signed: %s]" % ("true" if e.is_signed else "false"))
    if e.enum_default is not None:
        lines.append(pad + '  [(cpp) $default enum_case: "%s"]' % e.enum_default[0])
    if e.other_backend is not None:
        lines.append(pad + '  [(rust) $default enum_case: "%s"]' % e.other_backend)
    prev = {}
    for nm, v, at in e.values:
        if v in prev and r.random() < 0.4:
            s = pad + "  %s = %s" % (nm, prev[v])          # `B = A`: alias of an earlier value
        else:
            s = pad + "  %s = %s" % (nm, fmt_value(r, v))
        prev.setdefault(v, nm)
        if at is not None:
            s += '  [(cpp) enum_case: "%s"]' % at[0]
        lines.append(s)
    return lines


def spec_of(e):
    dflt = e.enum_default if e.enum_default is not None else e.inherited
    cases = []
    for nm, v, at in e.values:
        c = at if at is not None else dflt
        cases.append(["SHOUTY_CASE"] if c is None else c[1])
    return SpecEnum(e.name, [(nm, v) for nm, v, _ in e.values], e.max_bits, e.is_signed, cases)


def gen_module(r, bad, invalid=None):
    """Returns (text, side) — side: enums [(path, GEnum)], holders, intended validity."""
    lines = ['[$default byte_order: "%s"]' % r.choice(["LittleEndian", "LittleEndian", "BigEndian"])]
    ns = r.choice([None, None, "a", "a::b", "::x9::Y_z", " p :: q "])
    if ns is not None:
        lines.append('[(cpp) namespace: "%s"]' % ns)
    module_default = r.choice(CASE_TEXTS_OK) if r.random() < 0.35 else None
    if module_default is not None:
        lines.append('[(cpp) $default enum_case: "%s"]' % module_default[0])
    rust = False
    if invalid == "other-backend":
        lines.insert(0, '[expected_back_ends: "cpp, rust"]')
        rust = True
    lines.append("")
    n_enums = r.choice([2, 3, 3, 4])
    bad_at = r.randrange(n_enums) if invalid in ("maxbits", "value-range", "mixed-sign-64", "bad-case",
                                                  "camel-collision") else -1
    enums, holders, wanted = [], [], []
    byte_order = "Little" if "Little" in lines[0] or "Little" in lines[1] else "Big"
    for i in range(n_enums):
        nested = r.choice(["top", "top", "struct", "bits"])
        outer_default = None
        inv = invalid if i == bad_at else None
        if nested == "top":
            e = gen_enum(r, i, bad, module_default, None, inv)
            if rust and i == 0:
                e.other_backend = r.choice(["kCamelCase", "SHOUTY_CASE, kCamelCase"])
            lines += enum_text(r, e, 0)
            path = [e.name]
        else:
            outer = "Outer%d%s" % (i, r.choice(["", "a", "B2"]))
            outer_default = r.choice(CASE_TEXTS_OK) if r.random() < 0.4 else None
            e = gen_enum(r, i, bad, module_default, outer_default, inv)
            lines.append("%s %s:" % ("struct" if nested == "struct" else "bits", outer))
            if outer_default is not None:
                lines.append('  [(cpp) $default enum_case: "%s"]' % outer_default[0])
            lines += enum_text(r, e, 2)
            lines.append("  0 [+%d] UInt dummy" % (1 if nested == "struct" else 8))
            path = [outer, e.name]
        lines.append("")
        enums.append((path, e))
        wanted.append((i, path, e))
    # holders: ONE struct `Hold` (byte-sized enum fields + up to two `bits` containers holding the
    # bit-sized ones) so that a module costs three view classes, not three per enum
    applied = invalid not in ("field-too-wide",)
    conts = []
    for ci in range(2):
        conts.append({"S": r.choice([8, 16, 24, 32, 40, 64]), "fields": []})
    hold_fields, off = [], 0
    fcount = 0
    for (i, path, e) in wanted:
        if e.invalid in ("maxbits",):
            continue
        mb = 64 if e.max_bits is None else e.max_bits
        ref = ".".join(path)
        for k in range(r.choice([1, 1, 2])):
            fname = "f%d" % fcount
            fcount += 1
            too_wide = invalid == "field-too-wide" and not applied and mb < 64
            if (mb >= 8 and r.random() < 0.4) or (too_wide and mb % 8 == 0 and mb >= 8):
                nbytes = r.choice([b for b in (1, 2, 3, 4, 5, 8) if 8 * b <= mb])
                if too_wide:
                    nbytes = mb // 8 + 1
                    applied = True
                hold_fields.append("  %d [+%d] %s %s" % (off, nbytes, ref, fname))
                holders.append({"enum": i, "holder": "Hold", "kind": "bytes", "w": 8 * nbytes, "container": 8 * nbytes,
                                "offset": 0, "bo": byte_order, "base": off, "access": ".%s()" % fname})
                off += nbytes
            else:
                ci = r.randrange(2)
                S = conts[ci]["S"]
                w = r.randint(1, min(mb, S))
                if too_wide and mb < S:
                    w = mb + 1
                    applied = True
                o = r.randint(0, S - w)
                conts[ci]["fields"].append("  %d [+%d] %s %s" % (o, w, ref, fname))
                holders.append({"enum": i, "holder": "Hold", "kind": "bits", "w": w, "container": S, "offset": o,
                                "bo": byte_order, "cont": ci, "access": ".b%d().%s()" % (ci, fname)})
    for ci, cn in enumerate(conts):
        if not cn["fields"]:
            continue
        lines += ["bits Bc%d:" % ci, "  0 [+%d] UInt all" % cn["S"]] + cn["fields"] + [""]
        hold_fields.append("  %d [+%d] Bc%d b%d" % (off, cn["S"] // 8, ci, ci))
        for h in holders:
            if h.get("cont") == ci:
                h["base"] = off
        off += cn["S"] // 8
    if hold_fields:
        lines += ["struct Hold:"] + hold_fields + [""]
    for h in holders:
        h["total"] = off
    if invalid == "field-too-wide" and not applied:
        invalid = None                      # could not be injected (all enums 64 bits wide): a valid module
    text = "\n".join(lines) + "\n"
    return text, {"enums": enums, "holders": holders, "invalid": invalid, "ns": ns}


# ===================================================== IR → model input (independent walker)
def enum_case_attrs(obj):
    out = []
    for a in cppgen.attr_list(obj):
        if a["name"]["text"] == "enum_case":
            out.append({"back_end": a.get("back_end", {}).get("text", ""),
                        "is_default": bool(a.get("is_default")), "text": cppgen.attr_text(a) or ""})
    return out


def defs_from_ir(ir_dict):
    """Every enum of module 0 as the model's input, from the IR *before*
    attribute_checker.normalize_and_verify (explicit attributes only; constants computed)."""
    m = ir_dict["module"][0]
    out = []
    for t, anc in cppgen.walk_types(m):
        if "enumeration" not in t:
            continue
        mb = sg = None
        for a in cppgen.attr_list(t):
            if a["name"]["text"] == "maximum_bits" and not a.get("is_default"):
                mb = cppgen.const_int(a["value"]["expression"])
            if a["name"]["text"] == "is_signed" and not a.get("is_default"):
                ex = a["value"]["expression"]
                sg = ex.get("type", {}).get("boolean", {}).get("value")
                if sg is None and "boolean_constant" in ex:
                    sg = bool(ex["boolean_constant"].get("value"))
                sg = bool(sg)
        levels = [enum_case_attrs(m)] + [enum_case_attrs(a) for a in anc] + [enum_case_attrs(t)]
        values = []
        for v in t["enumeration"].get("value", []):
            values.append({"name": v["name"]["name"]["text"], "value": cppgen.const_int(v["value"]),
                           "attrs": enum_case_attrs(v)})
        out.append({"path": t["name"]["canonical_name"]["object_path"], "name": t["name"]["name"]["text"],
                    "max_bits": mb, "is_signed": sg, "levels": levels, "values": values})
    return out


def spec_from_def(d):
    """Spec object for a corpus/testdata enum (no generator side data): documented meaning of
    the attributes — only `(cpp)` ones count, innermost `$default` wins."""
    dflt = None
    for lvl in d["levels"]:
        for a in lvl:
            if a["is_default"] and a["back_end"] == "cpp":
                dflt = a["text"]
    cases = []
    for v in d["values"]:
        own = [a["text"] for a in v["attrs"] if a["back_end"] == "cpp" and not a["is_default"]]
        t = own[0] if own else dflt
        cases.append(["SHOUTY_CASE"] if t is None else spec_cases(t))
    return SpecEnum(d["name"], [(v["name"], v["value"]) for v in d["values"]], d["max_bits"],
                    d["is_signed"], cases)


def all_enum_case_texts(ir_dict):
    """Every attribute named enum_case anywhere in module 0 (the back end verifies them all)."""
    out = []

    def rec(x):
        if isinstance(x, dict):
            if "attribute" in x:
                for a in enum_case_attrs(x):
                    out.append(a["text"])
            for k, v in x.items():
                rec(v)
        elif isinstance(x, list):
            for v in x:
                rec(v)
    rec(ir_dict["module"][0])
    return out


# ======================================================== header parse (tie T)
_LIT_RE = re.compile(r"static_cast</\*\*/\s*::std::(u?)int(\d+)_t>\(\s*(-?)\s*(\d+)(U?)(L{0,2})\s*(- 1)?\s*\)\Z")


def parse_literal(s):
    m = _LIT_RE.match(s.strip())
    if not m:
        return None
    return {"signed": m.group(1) == "", "bits": int(m.group(2)), "neg": m.group(3) == "-",
            "mag": int(m.group(4)), "u": m.group(5) == "U", "ll": m.group(6) == "LL",
            "l_suffix": m.group(6), "m1": m.group(7) is not None}


def lit_canonical(l):
    return "static_cast<%sint%d>(%s%d%s%s%s)" % ("" if l["signed"] else "u", l["bits"], "-" if l["neg"] else "",
                                                l["mag"], "U" if l["u"] else "", l["l_suffix"],
                                                " - 1" if l["m1"] else "")


def parse_header_enums(header):
    """Returns {('ns', ..., 'Enum'): {...}} from the regular output of the enum templates."""
    out = {}
    stack = []
    lines = header.split("\n")
    i = 0
    cur_traits = None
    section = None
    while i < len(lines):
        ln = lines[i]
        m = re.match(r"\s*namespace (\w+) \{\s*$", ln)
        if m:
            stack.append(m.group(1))
        elif re.match(r"\s*\}\s*// namespace (\w+)\s*$", ln):
            if stack:
                stack.pop()
        m = re.match(r"\s*enum class (\w+) : ::std::(u?)int(\d+)_t \{\s*$", ln)
        if m:
            key = tuple(stack) + (m.group(1),)
            e = {"signed": m.group(2) == "", "bits": int(m.group(3)), "enumerators": [], "from": [], "to": [],
                 "known": [], "traits": False}
            i += 1
            while i < len(lines) and not re.match(r"\s*\};\s*$", lines[i]):
                mm = re.match(r"\s*(\w+) = (.*),\s*$", lines[i])
                if mm:
                    e["enumerators"].append((mm.group(1), mm.group(2)))
                elif lines[i].strip():
                    e.setdefault("junk", []).append(lines[i])
                i += 1
            out[key] = e
        m = re.match(r"\s*class EnumTraits<(\w+)> final \{\s*$", ln)
        if m:
            cur_traits = out.get(tuple(stack) + (m.group(1),))
            if cur_traits is not None:
                cur_traits["traits"] = True
            section = None
        if cur_traits is not None:
            if "static bool TryToGetEnumFromName(" in ln:
                section = "from"
            elif "static const char *TryToGetNameFromEnum(" in ln:
                section = "to"
            elif "static bool EnumIsKnown(" in ln:
                section = "known"
            elif "SendToOstream(" in ln:
                section = None
            if section == "from":
                mm = re.match(r'\s*if \(!strcmp\("(.*)", emboss_reserved_local_name\)\) \{\s*$', ln)
                if mm and i + 1 < len(lines):
                    m2 = re.match(r"\s*\*emboss_reserved_local_result = (\w+)::(\w+);\s*$", lines[i + 1])
                    cur_traits["from"].append((mm.group(1), m2.group(2) if m2 else None))
            elif section == "to":
                mm = re.match(r'\s*case (\w+)::(\w+): return "(.*)";\s*$', ln)
                if mm:
                    cur_traits["to"].append((mm.group(2), mm.group(3)))
            elif section == "known":
                mm = re.match(r"\s*case (\w+)::(\w+): return true;\s*$", ln)
                if mm:
                    cur_traits["known"].append(mm.group(2))
            if re.match(r"\s*\};\s*$", ln) and section is None and "SendToOstream" in "".join(lines[max(0, i - 16):i]):
                cur_traits = None
        i += 1
    return out


# ============================================================ C++ driver (tie C)
def cpp_lit(v):
    if v == -(1 << 63):
        return "(-9223372036854775807LL - 1)"
    if v >= (1 << 63):
        return "%dULL" % v
    return "%dLL" % v


DRIVER_HEAD = r"""
#include <cstdio>
#include <cstring>
#include <sstream>
#include <string>
#include <type_traits>
#include <vector>
template <class E> static void pv(E e) {
  using U = typename std::underlying_type<E>::type;
  if (std::is_signed<U>::value) std::printf("%lld", (long long)(U)e);
  else std::printf("%llu", (unsigned long long)(U)e);
}
template <class E> static void ty(int id) {
  using U = typename std::underlying_type<E>::type;
  std::printf("TYPE %d %d %d\n", id, (int)(sizeof(U) * 8), (int)std::is_signed<U>::value);
}
template <class E> static void ev(int id, const char *nm, E e) {
  std::printf("EV %d %s ", id, nm); pv(e); std::printf("\n");
}
template <class E> static void fn(int id, int idx, const char *name) {
  E r = static_cast<E>(77);
  bool ok = TryToGetEnumFromName(name, &r);
  std::printf("FN %d %d %d ", id, idx, (int)ok); pv(r); std::printf("\n");
}
template <class E> static void tn(int id, int idx, E v) {
  const char *n = TryToGetNameFromEnum(v);
  bool k = EnumIsKnown(v);
  std::ostringstream os; os << v;
  std::string s = os.str();
  std::printf("TN %d %d %s %d ", id, idx, n ? n : "(null)", (int)k);
  for (unsigned char c : s) std::printf("%02x", (unsigned)c);
  std::printf("\n");
}
static void hexdump(const std::vector<unsigned char> &b) {
  for (unsigned char c : b) std::printf("%02x", (unsigned)c);
}
"""


def field_bytes(h, raw):
    """Buffer holding `raw` in the field of holder h, everything else zero."""
    total = raw << h["offset"]
    n = h["container"] // 8
    bs = total.to_bytes(n, "little")
    bs = bs if h["bo"] == "Little" else bs[::-1]
    base = h.get("base", 0)
    return bytes(base) + bs + bytes(h.get("total", n) - base - n)


def bytes_to_field(h, hexstr):
    full = bytes.fromhex(hexstr)
    base, n = h.get("base", 0), h["container"] // 8
    bs = full[base:base + n]
    outside = any(full[:base]) or any(full[base + n:])
    if h["bo"] != "Little":
        bs = bs[::-1]
    total = int.from_bytes(bs, "little")
    return (total >> h["offset"]) & ((1 << h["w"]) - 1), (total & ~(((1 << h["w"]) - 1) << h["offset"])) | int(outside)


def build_driver(main, ns, enums_q, holders_q):
    """enums_q: list of dicts {id, cpp (qualified), enumerators [names], q_names, q_values};
    holders_q: list of dicts {id, make (qualified Make…View), access, n, reads [raw], writes [v], ecpp}."""
    out = [cppbuild.CHECK_PRELUDE, '#include "%s.h"\n' % main, DRIVER_HEAD, "int main() {\n"]
    for q in enums_q:
        E = q["cpp"]
        out.append("  ty<%s>(%d);\n" % (E, q["id"]))
        for nm in q["enumerators"]:
            out.append('  ev<%s>(%d, "%s", %s::%s);\n' % (E, q["id"], nm, E, nm))
        for i, s in enumerate(q["q_names"]):
            if s is None:
                out.append("  fn<%s>(%d, %d, nullptr);\n" % (E, q["id"], i))
            else:
                out.append('  fn<%s>(%d, %d, "%s");\n' % (E, q["id"], i, s.replace("\\", "\\\\").replace('"', '\\"')))
        for i, v in enumerate(q["q_values"]):
            out.append("  tn<%s>(%d, %d, static_cast<%s>(%s));\n" % (E, q["id"], i, E, cpp_lit(v)))
    for h in holders_q:
        E = h["ecpp"]
        out.append("  {\n")
        for i, bs in enumerate(h["reads"]):
            out.append("    { std::vector<unsigned char> b = {%s}; auto v = %s(b.data(), b.size()); "
                       'std::printf("RD %d %d %%d ", (int)v%s.Ok()); pv(v%s.UncheckedRead()); std::printf("\\n"); }\n'
                       % (",".join(str(x) for x in bs), h["make"], h["id"], i, h["access"], h["access"]))
        for i, v in enumerate(h["writes"]):
            out.append("    { std::vector<unsigned char> b(%d, 0); auto v = %s(b.data(), b.size()); "
                       "bool cw = v%s.CouldWriteValue(static_cast<%s>(%s)); bool tw = v%s.TryToWrite(static_cast<%s>(%s)); "
                       'std::printf("WR %d %d %%d %%d ", (int)cw, (int)tw); hexdump(b); std::printf(" "); '
                       'pv(v%s.UncheckedRead()); std::printf("\\n"); }\n'
                       % (h["n"], h["make"], h["access"], E, cpp_lit(v), h["access"], E, cpp_lit(v), h["id"], i,
                          h["access"]))
        for i, (kind, v, tok) in enumerate(h["texts"]):
            out.append("    { std::vector<unsigned char> b(%d, 0); auto v = %s(b.data(), b.size()); "
                       'bool ok = ::emboss::UpdateFromText(v%s, ::std::string("%s")); '
                       'std::printf("TX %d %d %%d ", (int)ok); hexdump(b); std::printf(" "); '
                       'pv(v%s.UncheckedRead()); std::printf("\\n"); }\n'
                       % (h["n"], h["make"], h["access"], tok, h["id"], i, h["access"]))
        for i, v in enumerate(h["roundtrips"]):
            out.append("    { std::vector<unsigned char> b(%d, 0), c(%d, 0); auto v = %s(b.data(), b.size()); "
                       "auto u = %s(c.data(), c.size()); bool tw = v%s.TryToWrite(static_cast<%s>(%s)); "
                       "::std::string s = ::emboss::WriteToString(v%s); bool ok = ::emboss::UpdateFromText(u%s, s); "
                       'std::printf("RT %d %d %%d %%d %%d ", (int)tw, (int)ok, (int)(b == c)); '
                       'for (unsigned char ch : s) std::printf("%%02x", (unsigned)ch); std::printf("\\n"); }\n'
                       % (h["n"], h["n"], h["make"], h["make"], h["access"], E, cpp_lit(v), h["access"], h["access"],
                          h["id"], i))
        out.append("  }\n")
    out.append('  std::printf("DONE\\n");\n  return 0;\n}\n')
    return "".join(out)


def type_query_values(signed, bits, declared_vals, r):
    lo, hi = spec_range(signed, bits)
    vs = set()
    for v in declared_vals:
        vs.update([v - 1, v, v + 1])
    vs.update([0, 1, -1, 2, -2, lo, lo + 1, hi, hi - 1, SENTINEL, 65, 48])
    for k in (0, 1, 3, 6, 7, 8, 14, 15, 16, 30, 31, 32, 33, 62, 63, 64):
        vs.update([(1 << k), -(1 << k), (1 << k) - 1, -(1 << k) - 1])
    for _ in range(4):
        vs.add(r.randint(lo, hi))
    return sorted(v for v in vs if lo <= v <= hi)


def name_queries(spec):
    qs = []
    for n, v in spec.declared:
        qs += [n, spec_kcamel(n), n + "X", n[:-1], n.lower(), " " + n, n + " ", n + "_", str(v), spec_kcamel(n)[1:]]
    qs += ["", "k", "_", "0", None]
    seen, out = set(), []
    for q in qs:
        if q not in seen:
            seen.add(q)
            out.append(q)
    return out


# ================================================================ one module
class Case:
    pass


def prepare_case(chk, r, label, files, main, side=None):
    """Runs the real compiler on the module, builds model ops, driver source and spec objects."""
    c = Case()
    c.label, c.files, c.main, c.side = label, files, main, side
    c.problems = []
    chk.count()
    pre_ir, pre_err, pre_exc = cppgen.front_end(files, main, stop_before_step="normalize_and_verify")
    c.defs = defs_from_ir(emb.ir_to_dict(pre_ir)) if (pre_ir is not None and not pre_err and pre_exc is None) else None
    c.outdir = os.path.join(common.scratch(), "hdr", re.sub(r"\W", "_", label))
    os.makedirs(c.outdir, exist_ok=True)
    c.build = cppgen.build_headers(files, main, traits=True, outdir=c.outdir)
    c.status = c.build["status"]
    c.specs = None
    if side is not None and side.get("enums"):
        c.specs = [spec_of(e) for _, e in side["enums"]]
    elif c.defs is not None:
        c.specs = [spec_from_def(d) for d in c.defs]
    c.ops, c.op_kinds = [], []
    c.enums_q, c.holders_q = [], []
    c.driver = None
    if c.defs is None:
        return c
    irm = c.build.get("ir_dict", {}).get("module", [{}])[0] if c.build.get("ir_dict") else None
    ns = cppgen.module_namespace(irm) if irm else ["emboss_generated_code"]
    c.ns = ns
    c.case_texts = all_enum_case_texts(emb.ir_to_dict(pre_ir))
    for t in c.case_texts:
        c.ops.append("SPLIT " + json.dumps(t))
        c.op_kinds.append(("split", t))
    for i, d in enumerate(c.defs):
        spec = c.specs[i] if c.specs and i < len(c.specs) else spec_from_def(d)
        if any(x is None for x in spec.cases):
            qn, qv = [], []
        else:
            qn = name_queries(spec)
            sg, bits = spec.type()
            qv = type_query_values(sg, bits, [v for _, v in spec.declared], r) if bits else []
        q = dict(d)
        q["q_names"], q["q_values"] = qn, qv
        c.ops.append("ENUM " + json.dumps({k: q[k] for k in ("name", "max_bits", "is_signed", "levels", "values",
                                                               "q_names", "q_values")}))
        c.op_kinds.append(("enum", i))
        cpp = "::" + "::".join(ns + d["path"])
        c.enums_q.append({"id": i, "cpp": cpp, "q_names": qn, "q_values": qv,
                          "enumerators": [n for n, _ in spec.enumerators()] if None not in spec.cases else []})
    if side is not None and c.status == "ok":
        for hi, h in enumerate(side["holders"]):
            spec = c.specs[h["enum"]]
            sg, W = spec.type()
            w = h["w"]
            raws = {0, 1, (1 << w) - 1, 1 << (w - 1), (1 << (w - 1)) - 1, r.getrandbits(w)}
            raws |= {v % (1 << w) for _, v in spec.declared}
            lo, hi_ = spec_range(sg, W)
            wl, wh = spec_range(sg, w)
            ws = {0, 1, -1, wl, wh, wl - 1, wh + 1, lo, hi_, r.randint(wl, wh), r.randint(lo, hi_)}
            ws |= {v for _, v in spec.declared}
            ws = sorted(v for v in ws if lo <= v <= hi_)
            raws = sorted(raws)
            access = h.get("access") or (".f()" if h["kind"] == "bytes" else ".b().f()")
            # text format: the decimal number of in- and out-of-range values around every boundary of the
            # field, of the type and of the 64-bit decoders, `-number`, and every declared name
            tv = set(ws) | {wl - 1, wh + 1, lo - 1, hi_ + 1, -1, (1 << 63) - 1, 1 << 63, (1 << 63) + 1, (1 << 64) - 1,
                            1 << 64, -(1 << 63), -(1 << 63) - 1, -(1 << 63) + 1}
            texts = [("num", v, str(v)) for v in sorted(tv)] + [("name", v, n) for n, v in spec.declared]
            rts = [v for v in ws if spec_field_could_write(sg, w, v)]
            hq = {"texts": texts, "roundtrips": rts,
                  "id": hi, "make": "::" + "::".join(ns + ["Make%sView" % h["holder"]]), "access": access,
                  "n": h.get("total", h["container"] // 8), "reads": [list(field_bytes(h, x)) for x in raws], "raws": raws,
                  "writes": ws, "ecpp": c.enums_q[h["enum"]]["cpp"], "h": h, "signed": sg, "W": W}
            c.holders_q.append(hq)
            B = spec_type_bits(h["container"])
            for x in raws:
                c.ops.append("FIELD %s %d %d %d R %d" % ("s" if sg else "u", W, B, w, x))
                c.op_kinds.append(("rd", hi, x))
            for v in ws:
                c.ops.append("FIELD %s %d %d %d W %d" % ("s" if sg else "u", W, B, w, v))
                c.op_kinds.append(("wr", hi, v))
            for ti, (kind, v, tok) in enumerate(texts):
                # a name token: TryToGetEnumFromName (checked above) then TryToWrite = the W op
                c.ops.append("FIELD %s %d %d %d %s %d" % ("s" if sg else "u", W, B, w, "T" if kind == "num" else "W", v))
                c.op_kinds.append(("tx", hi, ti))
    if c.status == "ok":
        c.driver = build_driver(main, ns, c.enums_q, c.holders_q)
    return c


def expected_accept(c):
    """Spec: is the module valid as far as its enums go?  None = spec does not say."""
    if c.specs is None:
        return None
    if c.side is not None and c.side.get("invalid") == "bad-case":
        return False        # a malformed enum_case text is an error wherever it stands, used or not
    ok = True
    for s in c.specs:
        if any(x is None for x in s.cases):
            return False if c.side is not None and c.side["invalid"] == "bad-case" else None
        if not s.accepts():
            ok = False
    if c.side is not None and c.side["invalid"] == "field-too-wide":
        ok = False
    return ok


ENUM_ERRORS = ("'maximum_bits' on an 'enum' must be between 1 and 64.", "is out of range for",
               "Empty enum case", "Duplicate enum case", "Unsupported enum case", "cannot be", "bits; ")


def evaluate_case(chk, c, answers, binary_result, run_result):
    """All comparisons for one module.  Returns nothing; reports through chk."""
    def viol(kind, what, expected, observed, key=None, found=True, extra=None):
        d = {"input": c.files[c.main] if c.main in c.files else c.main, "files": c.files, "main": c.main,
             "label": c.label, "what": what, "expected": expected, "observed": observed}
        if extra:
            d.update(extra)
        if kind == "correspondence":
            d["theorem_or_correspondence"] = what
        chk.violation(kind, d, key=key, found_input=found)

    # ---- accept / reject
    exp = expected_accept(c)
    real_ok = c.status == "ok"
    if c.status in ("front-crash", "back-crash"):
        exc = c.build.get("exc")
        # a module with two enum_case attributes of different back ends on one value trips an assertion
        key = None
        if isinstance(exc, AssertionError) and "Duplicate attribute" in str(exc):
            key = "crash:ir_util.py:get_attribute:AssertionError"
        viol("input", "compiler raised an exception", "header or located errors", repr(exc), key=key)
        return
    if exp is not None and exp != real_ok:
        key = None
        if exp and c.status == "back-reject" and "would both be named" in json.dumps(c.build.get("errors")) and \
                c.defs is not None and any(spec_key(c, i, "x") == BACKEND_KEY for i in range(len(c.defs))):
            # open finding BACKEND_KEY seen through the distinct-names check: another back end's
            # `enum_case` made the C++ spellings collide (the (cpp) attributes alone do not)
            key = BACKEND_KEY
        viol("input", "accept/reject differs from the documented rules", "accept" if exp else "reject",
             {"status": c.status, "errors": c.build.get("errors")}, key=key)
        return
    if c.defs is None:
        chk.extra["rejected_before_model"] = chk.extra.get("rejected_before_model", 0) + 1
        return
    ans = {}
    for (kind, op), a in zip(zip(c.op_kinds, c.ops), answers):
        ans.setdefault(kind[0], []).append((kind, a, op))
    model_accept = True
    if answers:
        for kind, a, op in ans.get("split", []):
            if a == "bad-op":
                viol("correspondence", "model driver rejected op", "", op, found=False)
                return
            j = json.loads(a)
            # function-level tie: _split_enum_case_values on this very text
            from compiler.back_end.cpp import header_generator as hg
            real_split = call_real(hg._split_enum_case_values, kind[1])
            if j["cases"] != real_split:
                viol("correspondence", "_split_enum_case_values vs Emboss.Enum.splitCases", real_split, j["cases"],
                     found=False, extra={"text": kind[1]})
            if not j["ok"]:
                model_accept = False
        mj = []
        for kind, a, op in ans.get("enum", []):
            if a == "bad-op":
                viol("correspondence", "model driver rejected op", "", op[:300], found=False)
                return
            j = json.loads(a)
            mj.append(j)
            if not j["front"] or j.get("gen", 0) is None or not j.get("back", True):
                model_accept = False
        if c.side is not None and c.side["invalid"] == "field-too-wide":
            model_accept = False
        if model_accept != real_ok:
            # which side is right?  the spec decides where it speaks
            if exp is None or exp == real_ok:
                viol("correspondence", "accept/reject: model vs real compiler",
                     "real=%s %s" % (c.status, c.build.get("errors")), "model accepts=%s" % model_accept, found=False)
            return
    if not real_ok:
        chk.nontrivial("reject:" + (c.side["invalid"] if c.side and c.side["invalid"] else "other") + ":" +
                       json.dumps(c.build.get("errors"))[:80])
        chk.extra.setdefault("reject_kinds", {})
        k = c.side["invalid"] if c.side and c.side["invalid"] else "other"
        chk.extra["reject_kinds"][k] = chk.extra["reject_kinds"].get(k, 0) + 1
        return

    # ---- tie T: parse the header back
    header = c.build["headers"][c.main]
    parsed = parse_header_enums(header)
    lit_ops, lit_meta = [], []
    for i, d in enumerate(c.defs):
        key = tuple(c.ns + d["path"])
        spec = c.specs[i]
        p = parsed.get(key)
        if p is None or not p["traits"]:
            viol("correspondence", "enum section of the generated header could not be parsed back",
                 "enum class %s with EnumTraits" % "::".join(key), sorted("::".join(k) for k in parsed), found=False)
            continue
        if answers:
            g = mj[i].get("gen")
            m_en = [n for n, _ in g["enumerators"]]
            # `case` labels of a switch have no order; enumerators and the strcmp chain do (first hit wins)
            if [n for n, _ in p["enumerators"]] != m_en or [list(x) for x in p["from"]] != g["from"] or \
                    sorted(list(x) for x in p["to"]) != sorted(g["to"]) or sorted(p["known"]) != sorted(g["known"]) or \
                    ("%sint%d" % ("" if p["signed"] else "u", p["bits"])) != g["ty"]:
                # spec check on the header's lists decides whether the real code is wrong
                bad = header_lists_vs_spec(p, spec)
                viol("input" if bad else "correspondence", "generated enum lists: header vs model" if not bad else bad,
                     {"model": g}, {"header": {k: p[k] for k in ("signed", "bits", "enumerators", "from", "to", "known")}},
                     found=bool(bad), key=spec_key(c, i, bad))
        bad = header_lists_vs_spec(p, spec)
        if bad:
            viol("input", bad, "lists per the property statement",
                 {k: p[k] for k in ("signed", "bits", "enumerators", "from", "to", "known")}, key=spec_key(c, i, bad))
            c.list_mismatch_key = spec_key(c, i, bad)
            c.list_mismatch = True
            continue
        for (nm, lit), (_, v) in zip(p["enumerators"], expand_declared(spec, p["enumerators"])):
            l = parse_literal(lit)
            if l is None:
                viol("correspondence", "enumerator initialiser is not of the form _render_integer emits", "", lit,
                     found=False)
                continue
            lit_ops.append("EVAL %s %d %d %d %d %d %d" % ("s" if l["signed"] else "u", l["bits"], l["neg"], l["mag"],
                                                        l["u"], 1 if l["l_suffix"] else 0, l["m1"]))
            lit_meta.append(("eval", nm, v, lit))
            lit_ops.append("RENDER %d" % v)
            lit_meta.append(("render", nm, v, lit_canonical(l)))
    c.lit_ops, c.lit_meta = lit_ops, lit_meta

    # ---- tie C: the compiled driver
    if binary_result is None:
        return
    if getattr(c, "list_mismatch", False):
        # already reported (the driver is written against the spec's lists); a compile error is
        # the same defect seen by g++
        if binary_result[0] is None:
            viol("input", "generated header (plus a driver naming every enumerator and helper) does not compile",
                 "compiles", binary_result[1][-1500:], key=c.list_mismatch_key)
        return
    binary, log = binary_result
    if binary is None:
        collide = any(len({n for n, _ in s.enumerators()}) != len(s.enumerators()) for s in c.specs)
        viol("input", "generated header (plus a driver naming every enumerator and helper) does not compile",
             "compiles", log[-1500:], key=CAMEL_KEY if collide else None)
        return
    if run_result.kind != "ok" or not run_result.out.rstrip().endswith("DONE"):
        viol("input", "driver did not run to completion (%s)" % run_result.kind, "exit 0", run_result.err[-1500:])
        return
    obs = {}
    for ln in run_result.out.split("\n"):
        p = ln.split(" ")
        if p[0] in ("TYPE", "EV", "FN", "TN", "RD", "WR", "TX", "RT"):
            obs.setdefault(p[0], {}).setdefault(int(p[1]), []).append(p[2:])
    for i, d in enumerate(c.defs):
        spec = c.specs[i]
        q = c.enums_q[i]
        mjj = mj[i] if answers else None
        tyl = obs["TYPE"][i][0]
        real_ty = (tyl[1] == "1", int(tyl[0]))
        if real_ty != spec.type():
            viol("input", "underlying type of %s" % d["name"], spec.type(), real_ty)
        if mjj and mjj["gen"]["ty"] != "%sint%d" % ("" if real_ty[0] else "u", real_ty[1]):
            viol("correspondence", "underlying type: model vs compiled header", mjj["gen"]["ty"], real_ty, found=False)
        evs = [(x[0], int(x[1])) for x in obs.get("EV", {}).get(i, [])]
        if evs != spec.enumerators():
            viol("input", "enumerator values of %s" % d["name"], spec.enumerators(), evs)
        if mjj and sorted(map(tuple, mjj["cpp"])) != sorted(evs):
            viol("correspondence", "enumerator values: model vs compiled header", mjj["cpp"], evs, found=False)
        for (idx, ok, val), s in zip(obs.get("FN", {}).get(i, []), q["q_names"]):
            want = spec.from_name(s)
            got = int(val) if ok == "1" else None
            if got != want or (ok == "0" and int(val) != SENTINEL):
                viol("input", "TryToGetEnumFromName(%r) on %s" % (s, d["name"]),
                     {"value": want, "result_untouched_on_failure": True}, {"ok": ok, "result": val})
            if mjj and mjj["from_name"][int(idx)] != got:
                viol("correspondence", "TryToGetEnumFromName(%r): model vs compiled header" % s,
                     mjj["from_name"][int(idx)], got, found=False)
            chk.count()
        for (idx, nm, known, shown), v in zip(obs.get("TN", {}).get(i, []), q["q_values"]):
            want_n = spec.to_name(v)
            got_n = None if nm == "(null)" else nm
            if got_n != want_n or (known == "1") != spec.is_known(v):
                viol("input", "TryToGetNameFromEnum/EnumIsKnown(%d) on %s" % (v, d["name"]),
                     {"name": want_n, "known": spec.is_known(v)}, {"name": got_n, "known": known})
            want_s = (want_n if want_n is not None else str(v)).encode().hex()
            if shown != want_s:
                viol("input", "operator<< of value %d of %s" % (v, d["name"]), bytes.fromhex(want_s).decode(),
                     "bytes " + shown, key=OSTREAM_KEY if (want_n is None and real_ty[1] == 8) else None)
            if mjj:
                ii = int(idx)
                ms = mjj["show"][ii]
                mshown = ms[5:].encode().hex() if ms.startswith("name ") else ms[4:].encode().hex()
                if mjj["to_name"][ii] != got_n or mjj["is_known"][ii] != (known == "1") or mshown != shown:
                    viol("correspondence", "TryToGetNameFromEnum/EnumIsKnown/operator<<(%d): model vs compiled header" % v,
                         [mjj["to_name"][ii], mjj["is_known"][ii], ms], [got_n, known, shown], found=False)
            chk.count()
        dup = len({v for _, v in spec.declared}) != len(spec.declared)
        multi = any(len(cs) > 1 for cs in spec.cases)
        kc = any("kCamelCase" in cs for cs in spec.cases)
        chk.nontrivial("enum:%s:%s:%d:dup=%d:multi=%d:k=%d:n=%d" % (
            "s" if spec.signed else "u", spec.max_bits, spec.type()[1], dup, multi, kc, len(spec.declared)))
        chk.extra["enums_checked"] = chk.extra.get("enums_checked", 0) + 1
        feat = chk.extra.setdefault("enum_features", {})
        for k, b in (("duplicate_values", dup), ("two_spellings", multi), ("kCamelCase", kc), ("signed", spec.signed),
                     ("explicit_max_bits", d["max_bits"] is not None), ("explicit_is_signed", d["is_signed"] is not None),
                     ("nested", len(d["path"]) > 1), ("value_at_64bit_limit", any(v in (-(1 << 63), (1 << 63) - 1, (1 << 64) - 1) for _, v in spec.declared))):
            if b:
                feat[k] = feat.get(k, 0) + 1
    # fields
    fi = 0
    fans = [(k, a) for k, a, _ in ans.get("rd", [])] if answers else []
    wans = [(k, a) for k, a, _ in ans.get("wr", [])] if answers else []
    fmap = {(k[1], k[2]): a for k, a in fans}
    wmap = {(k[1], k[2]): a for k, a in wans}
    for hq in c.holders_q:
        h, sg, W = hq["h"], hq["signed"], hq["W"]
        w = h["w"]
        B = spec_type_bits(h["container"])
        narrow = sg and w < W         # (since fix f572d62 a wider container alone is fine)
        for (idx, ok, val), raw in zip(obs.get("RD", {}).get(hq["id"], []), hq["raws"]):
            want = spec_field_read(sg, w, raw)
            got = int(val)
            if got != want or ok != "1":
                viol("input", "enum field read: %d-bit field of %s enum (underlying %d bits), raw bits %#x" % (
                    w, "signed" if sg else "unsigned", W, raw), want, {"ok": ok, "value": got},
                    key=F14_KEY if (narrow and raw >= (1 << (w - 1))) else None,
                    extra={"holder": h})
            if answers and fmap.get((hq["id"], raw)) != str(got):
                viol("correspondence", "EnumView::Read: model vs compiled header", fmap.get((hq["id"], raw)), got,
                     found=False, extra={"holder": h, "raw": raw})
            chk.count()
        for (idx, cw, tw, hexb, rb), v in zip(obs.get("WR", {}).get(hq["id"], []), hq["writes"]):
            want = spec_field_could_write(sg, w, v)
            stored, rest = bytes_to_field(h, hexb)
            good = (cw == "1") == want and (tw == "1") == want and rest == 0 and \
                (stored == (v % (1 << w)) if want else stored == 0) and (not want or int(rb) == v)
            if not good:
                viol("input", "enum field write of %d: %d-bit field of %s enum (underlying %d bits)" % (
                    v, w, "signed" if sg else "unsigned", W),
                    {"could_write": want, "stored_bits": v % (1 << w) if want else 0, "read_back": v if want else None},
                    {"could_write": cw, "try_to_write": tw, "buffer": hexb, "read_back": rb},
                    key=F14_KEY if (narrow and (v < 0 or stored >= (1 << (w - 1)))) else None, extra={"holder": h})
            if answers:
                m = wmap.get((hq["id"], v))
                real = ("ok %d" % stored) if cw == "1" else "no"
                if m != real or cw != tw:
                    viol("correspondence", "EnumView::CouldWriteValue/TryToWrite: model vs compiled header", m, real,
                         found=False, extra={"holder": h, "value": v})
            chk.count()
        tmap = {(k[1], k[2]): a for k, a, _ in ans.get("tx", [])} if answers else {}
        for (idx, ok, hexb, rb), (ti, (kind, v, tok)) in zip(obs.get("TX", {}).get(hq["id"], []), enumerate(hq["texts"])):
            stored, rest = bytes_to_field(h, hexb)
            in_range = spec_field_could_write(sg, w, v)
            # the property speaks for in-range values ("enum fields accept any in-range value, named or
            # not"): the text must be accepted and the field must then hold the value
            if in_range and not (ok == "1" and rest == 0 and stored == v % (1 << w) and int(rb) == v):
                viol("input", "enum field UpdateFromText(\"%s\"): %d-bit field of %s enum (underlying %d bits), "
                     "in-range value %d" % (tok, w, "signed" if sg else "unsigned", W, v),
                     {"accepted": True, "stored_bits": v % (1 << w), "read_back": v},
                     {"accepted": ok, "buffer": hexb, "read_back": rb},
                     key=F14_KEY if (narrow and v < 0) else None, extra={"holder": h, "text": tok})
            if ok == "0" and (stored != 0 or rest != 0):
                viol("input", "enum field UpdateFromText(\"%s\") failed but changed the buffer" % tok, "untouched", hexb,
                     extra={"holder": h, "text": tok})
            if answers:
                m = tmap.get((hq["id"], ti))
                real = ("ok %d" % stored) if ok == "1" else "no"
                if m != real:
                    viol("correspondence", "ReadEnumViewFromTextStream (%s token): model vs compiled header" % kind, m, real,
                         found=False, extra={"holder": h, "text": tok})
            chk.count()
            if kind == "num" and abs(v) >= (1 << 63) - 1:
                chk.extra["text_numbers_at_64bit_boundary"] = chk.extra.get("text_numbers_at_64bit_boundary", 0) + 1
        for (idx, tw, ok, same, shex), v in zip(obs.get("RT", {}).get(hq["id"], []), hq["roundtrips"]):
            spec = c.specs[h["enum"]]
            nm = spec.to_name(v)
            want_text = nm if nm is not None else str(v)
            got_text = bytes.fromhex(shex).decode(errors="replace")
            f14 = narrow and (v < 0 or v >= (1 << (w - 1)))
            if not (tw == "1" and ok == "1" and same == "1" and got_text == want_text):
                viol("input", "enum field text round trip of in-range value %d: %d-bit field of %s enum (underlying %d bits)"
                     % (v, w, "signed" if sg else "unsigned", W),
                     {"written": True, "text": want_text, "read_back_ok": True, "same_bytes": True},
                     {"written": tw, "text": got_text, "read_back_ok": ok, "same_bytes": same},
                     key=F14_KEY if f14 else None, extra={"holder": h})
            chk.count()
        chk.nontrivial("field:%s:W=%d:w=%d:B=%d:%s" % ("s" if sg else "u", W, w, B, h["kind"]))
        chk.extra["fields_checked"] = chk.extra.get("fields_checked", 0) + 1
        if narrow:
            chk.extra["signed_narrow_fields"] = chk.extra.get("signed_narrow_fields", 0) + 1


def spec_key(c, i, bad):
    """Known-finding routing for list mismatches: other-back-end attribute."""
    if c.defs is None:
        return None
    names = [n for n, _ in c.specs[i].enumerators()] if None not in c.specs[i].cases else []
    if len(set(names)) != len(names):
        return CAMEL_KEY
    d = c.defs[i]
    others = [a for lvl in d["levels"] for a in lvl if a["back_end"] != "cpp"] + \
             [a for v in d["values"] for a in v["attrs"] if a["back_end"] != "cpp"]
    return BACKEND_KEY if others else None


def expand_declared(spec, header_enumerators):
    """(enumerator, declared value) in the header's order, by the spec's enumerator list."""
    m = {}
    for n, v in spec.enumerators():
        m.setdefault(n, v)
    return [(n, m.get(n, 0)) for n, _ in header_enumerators]


def header_lists_vs_spec(p, spec):
    """The property statement evaluated on the lists parsed from the header (no compile)."""
    if (p["signed"], p["bits"]) != spec.type():
        return "underlying type differs from the declared signedness / smallest width >= maximum_bits"
    if [n for n, _ in p["enumerators"]] != [n for n, _ in spec.enumerators()]:
        return "enumerator names differ from the declared names in the requested spellings"
    if len(set(n for n, _ in p["enumerators"])) != len(p["enumerators"]):
        return "duplicate enumerator"
    en = dict(spec.enumerators())
    # fromName: first hit per text name
    first = {}
    for text, x in p["from"]:
        first.setdefault(text, x)
    if set(first) != {n for n, _ in spec.declared}:
        return "TryToGetEnumFromName accepts a different set of names than the declared Emboss names"
    for n, v in spec.declared:
        if en.get(first[n]) != v:
            return "TryToGetEnumFromName maps %s to a different value" % n
    labels = [en.get(x) for x, _ in p["to"]]
    if None in labels or len(set(labels)) != len(labels):
        return "duplicate or unknown case label in TryToGetNameFromEnum"
    for x, text in p["to"]:
        if spec.to_name(en[x]) != text:
            return "TryToGetNameFromEnum does not return the first declared name of value %d" % en[x]
    if set(labels) != {v for _, v in spec.declared}:
        return "TryToGetNameFromEnum does not cover exactly the declared values"
    kl = [en.get(x) for x in p["known"]]
    if None in kl or len(set(kl)) != len(kl) or set(kl) != {v for _, v in spec.declared}:
        return "EnumIsKnown labels are not exactly the declared values"
    return None


# ================================================================== corpora
PINNED = {
    # open finding F14
    "f14": ("enum Sgn:\n  [maximum_bits: 8]\n  [is_signed: true]\n  NEG = -1\n  POS = 1\n\n"
            "bits Bh:\n  0 [+8] UInt all\n  0 [+4] Sgn f\n\nstruct Hh:\n  0 [+1] Bh b\n",
            {"holders": [{"enum": 0, "holder": "Hh", "kind": "bits", "w": 4, "container": 8, "offset": 0, "bo": "Little",
                          "access": ".b().f()"}]}),
    # fixed by f572d62 (needs holder data, so it lives here and not in corpus/C19): a full-width field of a
    # signed enum inside a wider `bits`
    "f572d62": ('[$default byte_order: "LittleEndian"]\n' "enum Sgn:\n  [maximum_bits: 8]\n  [is_signed: true]\n  NEG = -1\n  POS = 1\n  LOW = -128\n\n"
                "bits Bh:\n  0 [+16] UInt all\n  4 [+8] Sgn f\n\nstruct Hh:\n  0 [+2] Bh b\n",
                {"holders": [{"enum": 0, "holder": "Hh", "kind": "bits", "w": 8, "container": 16, "offset": 4,
                              "bo": "Little", "access": ".b().f()"}]}),
    # 64-bit boundaries through every path (values, names, text numbers)
    "u64-field": ('[$default byte_order: "LittleEndian"]\n' "enum Big:\n  TOP = 0xffff_ffff_ffff_ffff\n  MID = 0x8000_0000_0000_0000\n  ONE = 1\n\n"
                  "enum Neg:\n  LOW = -0x8000_0000_0000_0000\n  HIGH = 0x7fff_ffff_ffff_ffff\n\n"
                  "struct Hh:\n  0 [+8] Big f\n  8 [+8] Neg g\n",
                  {"holders": [{"enum": 0, "holder": "Hh", "kind": "bytes", "w": 64, "container": 64, "offset": 0,
                                "bo": "Little", "base": 0, "total": 16, "access": ".f()"},
                               {"enum": 1, "holder": "Hh", "kind": "bytes", "w": 64, "container": 64, "offset": 0,
                                "bo": "Little", "base": 8, "total": 16, "access": ".g()"}]}),
    "other-backend": ('[expected_back_ends: "cpp, rust"]\n[(rust) $default enum_case: "kCamelCase"]\n'
                      "enum Foo:\n  AB_CD = 1\n", {"holders": []}),
}


QUICK_COMPILED_TESTDATA = ("testdata/enum.emb", "testdata/enum_case.emb")


def corpus_cases():
    out = []
    td = os.path.join(common.REPO, "testdata")
    for fn in sorted(os.listdir(td)):
        if fn.endswith(".emb"):
            with open(os.path.join(td, fn)) as f:
                txt = f.read()
            if re.search(r"^\s*(\d.*\s)?enum\b", txt, re.M):
                out.append(("testdata/" + fn, {}, "testdata/" + fn, None))
    cd = os.path.join(common.VERIF, "corpus", PROP)
    if os.path.isdir(cd):
        for fn in sorted(os.listdir(cd)):
            if fn.endswith(".emb"):
                with open(os.path.join(cd, fn)) as f:
                    out.append(("corpus/" + fn, {"m.emb": f.read()}, "m.emb", None))
    return out


# ==================================================================== runner
def run_cases(chk, cases, model_ok, r, workers):
    prepared = []
    t0 = time.time()
    for label, files, main, side in cases:
        prepared.append(prepare_case(chk, r, label, files, main, side))
    chk.extra["emboss_s"] = round(chk.extra.get("emboss_s", 0) + time.time() - t0, 1)
    jobs, jidx = [], []
    for i, c in enumerate(prepared):
        if c.driver is not None and chk.tier == "quick" and c.label.startswith("testdata/") and \
                c.label not in QUICK_COMPILED_TESTDATA:
            c.driver = None         # quick tier: tie T only for the other testdata modules
        if c.driver is not None:
            jobs.append({"src_text": c.driver, "name": "c19_%d" % i, "std": ["c++11", "c++14", "c++17"][i % 3],
                         "opt": "-O0", "extra": ["-I" + c.outdir]})
            jidx.append(i)
    t0 = time.time()
    bins = cppbuild.compile_many(jobs, workers=workers) if jobs else []
    chk.extra["compile_s"] = round(chk.extra.get("compile_s", 0) + time.time() - t0, 1)
    chk.extra["compile_jobs"] = chk.extra.get("compile_jobs", 0) + len(jobs)
    runs = cppbuild.run_many([(b, "") for b, _ in bins if b], workers=workers) if bins else []
    ri = iter(runs)
    bin_for, run_for = {}, {}
    for i, (b, log) in zip(jidx, bins):
        bin_for[i] = (b, log)
        run_for[i] = next(ri) if b else None
    all_ops = []
    spans = []
    for c in prepared:
        spans.append((len(all_ops), len(all_ops) + len(c.ops)))
        all_ops += c.ops
    answers = common.Model("model_c19").ask(all_ops) if (model_ok and all_ops) else None
    lit_ops, lit_cases = [], []
    for i, c in enumerate(prepared):
        a = answers[spans[i][0]:spans[i][1]] if answers is not None else []
        c.lit_ops, c.lit_meta = [], []
        evaluate_case(chk, c, a, bin_for.get(i), run_for.get(i))
        lit_cases.append((c, len(lit_ops), len(lit_ops) + len(c.lit_ops)))
        lit_ops += c.lit_ops
    # literals: what the header's text denotes (model semantics) vs the front end's value (spec)
    if model_ok and lit_ops:
        la = common.Model("model_c19").ask(lit_ops)
        for c, a0, a1 in lit_cases:
            for (kind, nm, v, lit), a in zip(c.lit_meta, la[a0:a1]):
                chk.count()
                if kind == "eval" and a != str(v):
                    chk.violation("input", {"input": c.files.get(c.main, c.main), "files": c.files, "main": c.main,
                                            "what": "enumerator %s: the emitted literal does not denote the declared value" % nm,
                                            "expected": v, "observed": {"literal": lit, "denotes": a}})
                if kind == "render" and not a.startswith(lit + " = "):
                    chk.violation("correspondence", {"input": c.files.get(c.main, c.main), "files": c.files, "main": c.main,
                                                     "theorem_or_correspondence": "_render_integer vs Emboss.CppInt.renderInteger",
                                                     "model": a, "observed": lit}, found_input=False)
    chk.extra["traces_validated_against_impl"] = chk.extra.get("traces_validated_against_impl", 0) + len(all_ops) + len(lit_ops)
    return prepared


class Raised:
    """Result of a call into the code under test that raised."""

    def __init__(self, e):
        self.e = repr(e)

    def __eq__(self, other):
        return False

    def __repr__(self):
        return "raised " + self.e

    def replace(self, *a):
        return self


def call_real(fn, *args):
    try:
        return fn(*args)
    except Exception as e:  # noqa: BLE001
        return Raised(e)


def function_level(chk, model_ok, r, n):
    """Direct function-level tie of the pure helpers (no compile): split, camel, type, render."""
    from compiler.back_end.cpp import header_generator as hg
    from compiler.util import name_conversion
    ops, want = [], []
    ws = [" ", "\t", "\n", "\x0b", "\x0c", "\r", "\x1c", "\x1f", "\x85", "\xa0", " ", " ", " ", " ",
          " ", "　", "​", "﻿", "\x00", "x"]
    toks = ["SHOUTY_CASE", "kCamelCase", ",", ",", ",", "a", "", "snake", "k"] + ws
    for i in range(n):
        s = "".join(r.choice(toks) for _ in range(r.randint(0, 7)))
        ops.append("SPLIT " + json.dumps(s))
        want.append(("split", s, call_real(hg._split_enum_case_values, s)))
    names = ["A_1B", "A1B", "A__B", "A_", "A__", "AB", "A_B", "THREE_WORD_ENUM", "X9_9X", "Z_0_", "ABC123_45DEF"]
    bad = set()
    for i in range(n):
        names.append(gen_shouty(r, [], bad))
    for s in names:
        ops.append("CAMEL " + json.dumps(s))
        want.append(("camel", s, call_real(name_conversion.convert_case, "SHOUTY_CASE", "CamelCase", s)))
    for mb in list(range(1, 65)):
        for sg in (0, 1):
            ops.append("TYPE %d %d" % (mb, sg))
            t = call_real(hg._cpp_integer_type_for_enum, mb, bool(sg))
            want.append(("type", (mb, sg), t.replace("::std::", "").replace("_t", "")))
    vals = set()
    for k in range(0, 65):
        for d in (-1, 0, 1):
            vals.update([(1 << k) + d, -(1 << k) + d])
    for _ in range(n):
        vals.add(r.randint(-(1 << 63), (1 << 64) - 1))
    for v in sorted(vals):
        ops.append("RENDER %d" % v)
        try:
            t = hg._render_integer(v)
        except AssertionError:
            t = "assert"
        want.append(("render", v, t))
    if not model_ok:
        return
    got = common.Model("model_c19").ask(ops)
    for (kind, arg, w), a in zip(want, got):
        chk.count()
        if isinstance(w, Raised):
            chk.violation("input", {"input": arg, "what": "%s helper raised an exception" % kind, "observed": repr(w),
                                    "expected": "model: " + a})
            continue
        if kind == "split":
            j = json.loads(a)
            errs = []
            attr = _fake_attr(arg)
            rr = call_real(hg._verify_enum_case_attribute, attr, "m.emb", errs)
            if isinstance(rr, Raised):
                chk.violation("input", {"input": arg, "what": "_verify_enum_case_attribute raised an exception",
                                        "observed": repr(rr), "expected": "model: " + a})
                continue
            if j["cases"] != w or j["ok"] != (not errs):
                chk.violation("correspondence", {"theorem_or_correspondence": "_split_enum_case_values/_verify_enum_case_attribute vs model",
                                                 "input": arg, "model": j, "observed": [w, [e[0].message for e in errs]]},
                              found_input=False)
            chk.nontrivial("split:%d:%s" % (len(w), j["ok"]))
        elif kind == "camel":
            if json.loads(a) != w:
                chk.violation("correspondence", {"theorem_or_correspondence": "snake_to_camel vs Emboss.Enum.snakeToCamel",
                                                 "input": arg, "model": a, "observed": w}, found_input=False)
            if "k" + w != spec_kcamel(arg):
                chk.violation("input", {"input": arg, "what": "kCamelCase spelling", "expected": spec_kcamel(arg),
                                        "observed": "k" + w})
        elif kind == "type":
            if a != w:
                chk.violation("correspondence", {"theorem_or_correspondence": "_cpp_integer_type_for_enum vs cppTypeForEnum",
                                                 "input": arg, "model": a, "observed": w}, found_input=False)
            if int(re.sub(r"\D", "", w)) != spec_type_bits(arg[0]) or w.startswith("u") == bool(arg[1]):
                chk.violation("input", {"input": arg, "what": "_cpp_integer_type_for_enum", "observed": w,
                                        "expected": "smallest of 8/16/32/64 >= maximum_bits, declared signedness"})
        elif kind == "render":
            if w == "assert" or a == "assert":
                if not (w == a and not (-(1 << 63) <= arg < (1 << 64))):
                    chk.violation("correspondence", {"theorem_or_correspondence": "_render_integer domain", "input": arg,
                                                     "model": a, "observed": w}, found_input=False)
                continue
            l = parse_literal(w)
            if l is None or not a.startswith(lit_canonical(l) + " = "):
                chk.violation("correspondence", {"theorem_or_correspondence": "_render_integer vs renderInteger",
                                                 "input": arg, "model": a, "observed": w}, found_input=False)
            if not a.endswith(" = %d" % arg):
                chk.violation("input", {"input": arg, "what": "_render_integer: the literal does not denote the value",
                                        "observed": w, "model_semantics": a, "expected": arg})


def _fake_attr(text):
    from compiler.util import ir_data, parser_types
    loc = parser_types.SourceLocation(parser_types.SourcePosition(1, 1), parser_types.SourcePosition(1, 1 + len(text)))
    return ir_data.Attribute(name=ir_data.Word(text="enum_case"), back_end=ir_data.Word(text="cpp"),
                             value=ir_data.AttributeValue(string_constant=ir_data.String(text=text, source_location=loc)))


def search(chk):
    """Model-free: spec oracle on the real compiler + compiled headers."""
    before = len(chk.violations)
    r = common.rng("C19-search")
    bad = _bad_names()
    function_level_spec_only(chk, r)
    cases = corpus_cases()
    for i in range(10):
        t, side = gen_module(r, bad)
        cases.append(("search%d" % i, {"m.emb": t}, "m.emb", side))
    run_cases(chk, cases, False, r, 6)
    return len(chk.violations) - before


def function_level_spec_only(chk, r):
    from compiler.back_end.cpp import header_generator as hg
    from compiler.util import name_conversion
    for s in ["A_1B", "A1B", "AB", "A_B", "THREE_WORD_ENUM", "X9_9X"] + [gen_shouty(r, [], set()) for _ in range(200)]:
        chk.count()
        w = call_real(name_conversion.convert_case, "SHOUTY_CASE", "kCamelCase", s)
        if w != spec_kcamel(s):
            chk.violation("input", {"input": s, "what": "kCamelCase spelling", "expected": spec_kcamel(s), "observed": w})
    for mb in range(1, 65):
        for sg in (False, True):
            t = call_real(hg._cpp_integer_type_for_enum, mb, sg)
            if isinstance(t, Raised) or int(re.sub(r"\D", "", t)) != spec_type_bits(mb) or ("uint" in t) == sg:
                chk.violation("input", {"input": [mb, sg], "what": "_cpp_integer_type_for_enum", "observed": t,
                                        "expected": "smallest of 8/16/32/64 >= maximum_bits, declared signedness"})


def run(tier):
    """A bug in this harness is an infrastructure failure (exit 2), never a pass or a violation."""
    import subprocess
    import traceback
    try:
        return _run(tier)
    except (common.InfraError, subprocess.TimeoutExpired):
        raise
    except Exception:  # noqa: BLE001
        raise common.InfraError("harness exception:\n" + traceback.format_exc())


def _run(tier):
    chk = common.Check(PROP, tier, exes=["model_c19"])
    chk.cov["rule"] = ("one evaluation = one observation compared (a name lookup, a value lookup, a field read/write, a "
                       "literal, a helper-function call) or one module compiled; non-trivial = distinct by enum shape "
                       "(signedness, maximum_bits, underlying width, duplicate values, two spellings, kCamelCase, size), "
                       "field shape (signedness, underlying/field/container width, struct|bits), reject kind, split shape")
    chk.trusted += ["g++/libstdc++ with ASan+UBSan as the oracle for what the generated header means",
                    "harness/corr/C19.py header parser (regular expressions over the enum templates' output)"]
    model_ok = common.proof_gate(chk, search)
    r = common.rng("C19")
    quick = tier == "quick"
    workers = 6 if quick else 8
    bad = _bad_names()
    function_level(chk, model_ok, r, 150 if quick else 3000)
    cases = corpus_cases()
    # pinned inputs of open findings + fixed findings in reach
    for nm, (txt, extra) in PINNED.items():
        cases.append(("pinned:" + nm, {"m.emb": txt}, "m.emb", ("pinned", extra)))
    n_valid, n_invalid = (6, 14) if quick else (200, 140)
    inv_kinds = ["maxbits", "value-range", "mixed-sign-64", "bad-case", "field-too-wide", "other-backend",
                 "camel-collision"]
    dist = {}
    for i in range(n_valid):
        t, side = gen_module(r, bad)
        cases.append(("gen%d" % i, {"m.emb": t}, "m.emb", side))
    for i in range(n_invalid):
        k = inv_kinds[i % len(inv_kinds)]
        t, side = gen_module(r, bad, invalid=k)
        dist[k] = dist.get(k, 0) + 1
        cases.append(("inv%d-%s" % (i, k), {"m.emb": t}, "m.emb", side))
    chk.extra["generator"] = {"valid_modules": n_valid, "invalid_modules": dist, "corpus": len(cases) - n_valid - n_invalid}
    # pinned cases carry holders but no GEnum side: convert
    conv = []
    for label, files, main, side in cases:
        if isinstance(side, tuple) and side[0] == "pinned":
            conv.append((label, files, main, PinnedSide(side[1])))
        else:
            conv.append((label, files, main, side))
    prepared = run_cases(chk, conv, model_ok, r, workers)
    for c in prepared:
        if c.label.startswith("gen") and c.status == "ok":
            chk.sample({"emb": c.files["m.emb"][:600]}, limit=2)
    chk.extra["modules_compiled"] = sum(1 for c in prepared if c.driver is not None)
    return chk.finish()


class PinnedSide(dict):
    """Side data of a pinned input: holders given, enum specs derived from the IR."""

    def __init__(self, extra):
        super().__init__(enums=None, holders=extra.get("holders", []), invalid=None, ns=None)


def replay(path):
    rec = json.load(open(path))
    files = rec.get("files") or {"m.emb": rec["input"]}
    main = rec.get("main", "m.emb")
    chk = common.Check(PROP, "quick", exes=["model_c19"])
    chk.known = []          # show everything
    r = common.rng("C19-replay")
    side = None
    if rec.get("holder"):
        side = PinnedSide({"holders": [rec["holder"]]})
    run_cases(chk, [("replay", files, main, side)], False, r, 2)
    print("what:", rec.get("what"))
    print("violations on replay:", len(chk.violations))
    for k, p in chk.violations:
        print(open(os.path.join(common.VERIF, p)).read()[:3000])
    return 1 if chk.violations else 0
