"""C06: shapes for the Lean *reader* model (`model_c06` op RVAL) built from the generator's
struct descriptions, for structs whose layout is static (no existence conditions, no dynamic
sizes / offsets anywhere below).  The model answers with the sequence of TryToWrite calls;
the harness compares accept/reject with the real UpdateFromText and the written values with
what the real accessors read afterwards.
"""
from harness.corr import c06_int as I


class NoShape(Exception):
    pass


def _range(sc, container_wider):
    b = sc.bits
    if sc.kind == "uint":
        return 0, (1 << b) - 1
    if sc.kind == "int":
        return -(1 << (b - 1)), (1 << (b - 1)) - 1
    if sc.kind == "bcd":
        return 0, 10 ** (b // 4) - 1
    if sc.kind == "enum":
        # EnumView::CouldWriteValue after f572d62: a full-width field (kBits = width of the enum's
        # underlying type, the only kind generated here) takes every value of the underlying type,
        # also inside a wider `bits`
        if sc.enum.signed:
            return -(1 << (b - 1)), (1 << (b - 1)) - 1
        return 0, (1 << b) - 1
    raise NoShape()


def scalar_shape(sc, container_wider=False):
    if sc.kind == "flag":
        return ["b"]
    if sc.kind == "float":
        return ["f"]
    lo, hi = _range(sc, container_wider)
    if sc.kind == "enum":
        e = sc.enum
        out = ["e", ("i%d" if e.signed else "u%d") % e.bits, str(lo), str(hi), str(len(e.items))]
        for n, v in e.items:
            out += [I.hexs(n), str(v)]
        return out
    return ["i", sc.cpp_int_type(), str(lo), str(hi)]


def ftype_shape(ft):
    if ft[0] == "scalar":
        return scalar_shape(ft[1])
    if ft[0] == "struct":
        return struct_shape(ft[1])
    _, elem, count = ft
    if count is None:
        raise NoShape()
    return ["a", str(count)] + ftype_shape(elem)


def struct_shape(st):
    fields = []
    by_name = {f.name: f for f in st.fields}
    for f in st.fields:
        if f.cond or f.dyn_count or f.dyn_offset:
            raise NoShape()
        if f.anonymous_bits is not None:
            for g in f.anonymous_bits.fields:
                fields.append((g.name, scalar_shape(g.ftype[1], g.size < f.anonymous_bits.static_size)))
            continue
        if f.virtual:
            if f.virtual[0] == "alias":
                tgt = by_name[f.virtual[1]]
                while tgt.virtual and tgt.virtual[0] == "alias":
                    tgt = by_name[tgt.virtual[1]]            # alias of an alias
                if tgt.virtual:
                    if tgt.virtual[0] == "expr" and tgt.virtual[4]:
                        raise NoShape()      # alias of a writable `x + k`: codec type not tracked
                    continue                 # alias of a read-only field: read-only, comment only
                fields.append((f.name, ftype_shape(tgt.ftype)))
            elif f.virtual[4]:
                # `x + k`: writable through the inverse; the text codec type of virtual fields is not
                # tracked by the generator
                raise NoShape()
            continue
        if st.kind == "bits":
            fields.append((f.name, scalar_shape(f.ftype[1], f.size < st.static_size)))
        else:
            fields.append((f.name, ftype_shape(f.ftype)))
    out = ["s", str(len(fields))]
    for n, sh in fields:
        out += [I.hexs(n)] + sh
    return out


def parse_answer(ans):
    """'ok path=v;…' -> dict path -> value string (last write wins) | 'fail' | other."""
    if ans == "fail":
        return "fail", None
    if ans.startswith("ok"):
        writes = {}
        for item in ans[2:].strip().split(";"):
            if item:
                k, _, v = item.partition("=")
                writes[k] = v
        return "ok", writes
    return ans, None
