"""Worker for C17: runs in a FRESH interpreter (own PYTHONHASHSEED), compiles a list of
source sets one after the other with the real emboss of argv[1], and writes one JSON
record per set to argv[3].  No harness imports: only the emboss under test.

job file: {"sets": [{"name", "files": {name: text}, "main", "full": bool}], "finddirs": [...],
           "trace": [[file suffix, function name], ...]  (optional: per record "reached": was a
           function of that name in that file CALLED while the set was compiled — sys.setprofile)}
record:   {"name", "exc", "ir_sha", "header_sha", "err_sha", "err_src_sha", "prod_sha",
           "errors" (text, truncated unless full), "mods": [[file, [anon numbers…]], …],
           "ir", "header" (only when full)}
"""
import hashlib
import json
import os
import re
import sys

repo, jobfile, outfile = sys.argv[1], sys.argv[2], sys.argv[3]
sys.path.insert(0, repo)
os.environ["GOOGLE_EMBOSS_VERIF"] = "1"

from compiler.back_end.cpp import header_generator  # noqa: E402
from compiler.front_end import glue  # noqa: E402
from compiler.util import error  # noqa: E402
from compiler.util import ir_data_utils  # noqa: E402

ANON = re.compile(r"emboss_reserved_anonymous_field_(\d+)")


def sha(s):
    return hashlib.sha256(s.encode("utf-8", "surrogatepass")).hexdigest()[:24] if s is not None else None


def reader(files):
    def read(name):
        if name in files:
            return files[name], None
        return None, ["File '{}' not found.".format(name)]
    return read


TRACE = []          # [(file suffix, function name)] — set from job["trace"]
_reached = set()


def _profile(frame, event, arg):
    # 'call' events only matter; cheap test on the code object's name first
    if event == "call":
        co = frame.f_code
        for i, (suffix, fn) in enumerate(TRACE):
            if co.co_name == fn and co.co_filename.endswith(suffix):
                _reached.add(i)


def one(s):
    if not TRACE:
        return one_(s)
    _reached.clear()
    sys.setprofile(_profile)
    try:
        rec = one_(s)
    finally:
        sys.setprofile(None)
    rec["reached"] = [i in _reached for i in range(len(TRACE))]
    return rec


def one_(s):
    rec = {"name": s["name"], "exc": None, "mods": []}
    ir_json = header = None
    errs_text = errs_src_text = ""
    prod = None
    try:
        kw = {}
        if s.get("parse_only"):
            # public test hook of parse_emboss_file: the IR as parsed, before any pass
            kw["stop_before_step"] = "desugar"
        ir, dbg, errors = glue.parse_emboss_file(s["main"], reader(s["files"]), **kw)
        if dbg is not None and s["main"] in dbg.modules and dbg.modules[s["main"]].used_productions is not None:
            prod = glue.format_production_set(dbg.modules[s["main"]].used_productions)
        if errors:
            errs_text = error.format_errors(errors, {})
            srcs = {}
            if dbg is not None:
                for k, m in dbg.modules.items():
                    if m.source_code is not None:
                        srcs[k] = m.source_code
            errs_src_text = error.format_errors(errors, srcs)
        else:
            ir_json = ir_data_utils.IrDataSerializer(ir).to_json()
            for m in json.loads(ir_json).get("module", []):
                nums = sorted(set(int(x) for x in ANON.findall(json.dumps(m))))
                rec["mods"].append([m.get("source_file_name", ""), nums])
            header, herrors = (None, []) if s.get("parse_only") else header_generator.generate_header(ir)
            if herrors:
                srcs = {m.source_file_name: m.source_text for m in ir.module}
                errs_text = error.format_errors(herrors, {})
                errs_src_text = error.format_errors(herrors, srcs)
                header = None
    except Exception as e:  # noqa: BLE001  (a crash is C16's business; here it is an observable)
        rec["exc"] = "%s: %s" % (type(e).__name__, str(e)[:300])
    rec.update(ir_sha=sha(ir_json), header_sha=sha(header), err_sha=sha(errs_text),
               err_src_sha=sha(errs_src_text), prod_sha=sha(prod))
    if s.get("full"):
        rec.update(ir=ir_json, header=header, errors=errs_text, errors_src=errs_src_text)
    else:
        rec["errors"] = errs_text[:600]
    return rec


def finddirs(job):
    """The real import-directory search on real directories."""
    from compiler.front_end import emboss_front_end
    out = []
    for j in job:
        try:
            text, errs = emboss_front_end._find_in_dirs_and_read(j["dirs"])(j["file"])
            out.append({"text": text, "errors": errs})
        except Exception as e:  # noqa: BLE001
            out.append({"exc": "%s: %s" % (type(e).__name__, e)})
    return out


def main():
    with open(jobfile) as f:
        job = json.load(f)
    TRACE.extend((a, b) for a, b in job.get("trace", []))
    res = {"records": [one(s) for s in job.get("sets", [])]}
    if job.get("finddirs"):
        res["finddirs"] = finddirs(job["finddirs"])
    try:
        from compiler.front_end import module_ir
        res["counter"] = getattr(module_ir, "_anonymous_name_counter", None)
    except Exception:  # noqa: BLE001
        res["counter"] = None
    res["hashseed"] = os.environ.get("PYTHONHASHSEED")
    with open(outfile, "w") as f:
        json.dump(res, f)


main()
