"""C20 — CopyFrom / Equals implement logical copy and logical equality.

Tie: correspondence.  `EQ` / `CP` / `CPO` commands of the sanitized C++ driver (cppdrv) over pairs
of buffers (equal, one bit flipped, only the tail differs, different lengths, truncated, unrelated,
overlapping windows of one arena at many shifts) versus the Lean model (`viewEquals`, `tryCopy`
over the real IR).  Spec oracles on the real outputs: symmetry of Equals, Equals == logical
equality of the reference observations (embref, random modules), UncheckedEquals == Equals on Ok
views, TryToCopyFrom succeeds iff the source is Ok and fits, memmove post-condition / frame,
failed copy changes nothing, and after every successful copy a second pass checks that the
destination is Ok and Equals the source.
"""
import collections
import random
import time
import json

from harness.lib import common, cppdrv, embgen, embref, viewcorr

PROP = "C20"
KEY_PARAM = "compile:equals-on-parameterized-struct"
PARAM_PROBE = ('[$default byte_order: "LittleEndian"]\nstruct In(q: UInt:8):\n  0 [+1]  UInt  a\n'
               'struct Foo:\n  0 [+1]  UInt  n\n  1 [+1]  In(n)  s\n')


def _parse_cmd(case, cmd):
    t = cmd.split()
    si = case.prepared.structs[t[1]]
    np = len(si.params)
    pv = [int(x) for x in t[2:2 + np]]
    rest = t[2 + np:]
    return t[0], si, pv, rest


def _hx(h):
    return b"" if h == "-" else bytes.fromhex(h)


def _spec_check(chk, case, cmd, ans, stats, followups):
    op, si, pv, rest = _parse_cmd(case, cmd)
    ps = "".join("%d " % x for x in pv)
    bad = []
    if op == "EQ":
        a, b = _hx(rest[0]), _hx(rest[1])
        f = dict((x[0], x[1:]) for x in ans.split()[1:])
        if "uninstantiable" in ans:
            stats["eq_uninstantiable"] += 1
            return
        if f["e"] != f["r"]:
            bad.append("Equals is not symmetric: a.Equals(b)=%s b.Equals(a)=%s" % (f["e"], f["r"]))
        if f["e"] != "-" and f["u"] != f["e"]:
            bad.append("UncheckedEquals=%s differs from Equals=%s on Ok views" % (f["u"], f["e"]))
        ra, rb = viewcorr.reference_obs(case, si, pv, a), viewcorr.reference_obs(case, si, pv, b)
        if ra is not None and f["e"] != "-" and ra["ok"] is True and rb["ok"] is True:
            want = embref.logical_equal(ra, rb)
            stats["eq_reference_checked"] += 1
            if want is not None and (f["e"] == "1") != want:
                bad.append("Equals=%s but the reference observations are logically %s" %
                           (f["e"], "equal" if want else "different"))
        if ra is not None:
            for side, r_, flag in (("a", ra, f["a"]), ("b", rb, f["b"])):
                if r_["ok"] is not None and (flag == "1") != r_["ok"]:
                    bad.append("%s.Ok()=%s, reference %s" % (side, flag, r_["ok"]))
        stats["eq_" + f["e"]] += 1
    else:
        t = ans.split()
        ok = t[1] == "t1"
        if op == "CP":
            src, dst = _hx(rest[0]), _hx(rest[1])
            dst2, src2 = _hx(t[2]), _hx(t[3])
            arena, so, sl, d0, dl = src + dst, 0, len(src), len(src), len(dst)
            arena2 = src2 + dst2
        else:
            arena = _hx(rest[0])
            so, sl, d0, dl = (int(x) for x in rest[1:5])
            arena2 = _hx(t[2])
            src = arena[so:so + sl]
        if len(arena2) != len(arena):
            bad.append("arena length changed")
        rs = viewcorr.reference_obs(case, si, pv, src)
        if not ok:
            if arena2 != arena:
                bad.append("failed copy changed bytes")
            if rs is not None and rs["ok"] is True and rs["size"] <= dl:
                bad.append("copy failed although the source is Ok and fits (size %d, destination %d)" %
                           (rs["size"], dl))
        else:
            # some n <= dl with memmove semantics
            ns = [n for n in range(0, min(sl, dl) + 1)
                  if arena2 == arena[:d0] + arena[so:so + n] + arena[d0 + n:]]
            if not ns:
                bad.append("result is not a memmove of a prefix of the source into the destination")
            if rs is not None:
                if rs["ok"] is False:
                    bad.append("copy succeeded although the reference says the source is not Ok")
                if rs["ok"] is True:
                    if rs["size"] > dl:
                        bad.append("copy succeeded into a destination smaller than the source's size")
                    elif rs["size"] not in ns:
                        bad.append("copied a number of bytes different from the source's size %d" % rs["size"])
            if op == "CP":
                followups.append(("EQ %s %s%s %s" % (si.name, ps, rest[0], t[2]), cmd))
        stats["%s_%s" % (op.lower(), "ok" if ok else "fail")] += 1
    for b_ in bad:
        chk.violation("input", {"module": case.text, "case": case.name, "command": cmd, "observed": ans,
                                "expected": b_})


def _run(chk, tier, model_ok):
    r = common.rng("C20")
    quick = tier == "quick"
    stats = collections.Counter()
    phase, t0 = {}, time.time()
    # does Equals on a structure with a runtime parameter compile?  (pinned known finding)
    probe = cppdrv.prepare(PARAM_PROBE)
    (pb, plog), = cppdrv.build([probe], features=("eq",), eq_params_ok=True)
    eq_params_ok = pb is not None
    if not eq_params_ok:
        k = chk.known_finding(KEY_PARAM)
        if k is not None and "has no member named" in plog:
            chk.report_known(k)
        else:
            chk.violation("input", {"module": PARAM_PROBE, "command": "instantiate In::Equals",
                                    "observed": plog[-1500:], "expected": "Equals compiles"}, key=KEY_PARAM)
    cases, dist = viewcorr.make_cases(chk, r, 14 if quick else 100, corpus_prop=PROP,
                                      testdata=viewcorr.TESTDATA[:8] if quick else viewcorr.TESTDATA)
    # arrays of 1/2/3-byte structures with padding bits/bytes and conditional members: a fixed family
    # (independent of VERIF_SEED; covers every (element size, style) combination) + seeded ones
    combos = embgen.PADDED_ELEM_COMBOS
    pmods = [embgen.gen_padded_array_module(random.Random(1000 + i), combos[2 * i:2 * i + 2])
             for i in range(len(combos) // 2)]
    padded = viewcorr.generated_cases(pmods, "padded-fixed", dist)
    if len(padded) != len(pmods):
        raise common.InfraError("a module of the fixed padded-array family is rejected by the front end: %r"
                                % dict(dist.reject_reasons))
    padded += viewcorr.generated_cases([embgen.gen_padded_array_module(r) for _ in range(2 if quick else 24)],
                                       "padded-random", dist)
    cases += padded
    phase["generate+front_end"] = round(time.time() - t0, 1)
    t0 = time.time()
    failed = viewcorr.build_cases(cases, features=("eq", "cp"), workers=8, eq_params_ok=eq_params_ok,
                                  std="c++14" if quick else "c++17")
    for c in failed:
        raise common.InfraError("driver of %s does not compile: %s" % (c.name, c.build_log[-1500:]))
    phase["g++"] = round(time.time() - t0, 1)
    t0 = time.time()
    per_case = []
    crashes = []
    for case in cases:
        if len(chk.violations) >= 12:
            chk.extra["stopped_early"] = "12 violations reported; remaining cases not run"
            break
        cmds = viewcorr.pinned_commands(case, ("EQ", "CP", "CPO")) + \
            viewcorr.pair_commands(r, case, 8 if quick else 24)
        if case.gen is not None:
            # single-bit pairs classified by the reference: exhaustive over the padded-array cases,
            # a few bits per (class, depth, in-array) bucket on the ordinary random modules
            pad = case.name.startswith("padded")
            cmds += viewcorr.coverage_pair_commands(r, case, stats, n_random_bases=2 if quick else 6,
                                                    per_class=None if pad else (2 if quick else 6),
                                                    n_det_bases=4 if pad else 2)

        def on_crash(cmd, rr, case=case):
            key = viewcorr.crash_key(rr, cmd, case)
            crashes.append((case.name, cmd, key))
            chk.violation("input", {"module": case.text, "case": case.name, "command": cmd,
                                    "observed": "%s: %s" % (rr.kind, (rr.err or "")[:1200]),
                                    "expected": "an answer (the driver aborted: sanitizer report or EMBOSS_CHECK; "
                                                "see also C04)"}, key=key)
        answers = viewcorr.run_surviving(case, cmds, on_crash, max_crashes=6)
        followups = []
        for c, a in zip(cmds, answers):
            if a is None:
                continue
            chk.count()
            if len(chk.violations) >= 40:
                chk.extra["stopped_early"] = "40 violations reported; remaining commands of %s not judged" % case.name
                break
            _spec_check(chk, case, c, a, stats, followups)
            chk.nontrivial((case.name, c.split()[1], c.split()[0], " ".join(a.split()[:5])[:24]))
        # second pass: after a successful copy the destination is Ok and Equals the source
        if followups:
            fa = viewcorr.run_surviving(case, [f[0] for f in followups], on_crash)
            for (fc, origin), a in zip(followups, fa):
                if a is None or "uninstantiable" in a:
                    continue
                chk.count()
                stats["post_copy_equals_checked"] += 1
                if not a.startswith("EQ a1 b1 e1 r1"):
                    chk.violation("input", {"module": case.text, "case": case.name, "command": origin,
                                            "followup": fc, "observed": a,
                                            "expected": "after a successful copy the destination is Ok and Equals the source"})
        per_case.append((case, cmds, answers))
        if len(chk.cov["samples"]) < 5 and cmds and answers[0]:
            chk.sample({"case": case.name, "command": cmds[0], "real": answers[0][:200]})
    phase["commands+oracles"] = round(time.time() - t0, 1)
    t0 = time.time()
    chk.extra["sanitizer_or_check_aborts"] = [list(x) for x in crashes[:10]]
    if model_ok:
        todo = [(case, cmds) for case, cmds, _a in per_case if case.sexpr]
        results = viewcorr.model_answers(todo)
        validated = disagreements = 0
        for (case, cmds, answers), (head, mans) in zip([pc for pc in per_case if pc[0].sexpr], results):
            if not head.startswith("ok "):
                chk.violation("correspondence", {"module": case.text, "model": head,
                                                 "theorem_or_correspondence": "IR not loadable by model_c01"},
                              found_input=False)
                continue
            for cmd, real, mod in zip(cmds, answers, mans):
                if real is None or "uninstantiable" in real:
                    continue
                validated += 1
                canon = " ".join(x for x in real.split() if not x.startswith("u"))
                if canon != mod:
                    disagreements += 1
                    if disagreements <= 5:
                        chk.violation("correspondence", {
                            "module": case.text, "case": case.name, "command": cmd, "observed": real, "model": mod,
                            "expected": "the spec oracles accepted the real answer; the model differs",
                            "theorem_or_correspondence": "model_c01 EQ/CP/CPO vs generated C++"},
                            found_input=False)
        chk.extra["traces_validated_against_impl"] = validated
        chk.extra["disagreements"] = disagreements
    phase["model"] = round(time.time() - t0, 1)
    chk.extra["phase_seconds"] = phase
    chk.extra["generator"] = dist.as_dict()
    chk.extra["stats"] = dict(stats)
    chk.extra["equals_on_parameterized_structs_compiles"] = eq_params_ok
    chk.extra["cases"] = [c.name for c in cases]


def search(chk):
    before = len(chk.violations)
    _run(chk, "quick", False)
    return len(chk.violations) - before


def run(tier):
    chk = common.Check(PROP, tier, exes=["model_c01"])
    chk.cov["rule"] = ("one evaluation = one EQ / CP / CPO command on the real generated C++ (plus the post-copy "
                       "Equals follow-ups); non-trivial = distinct (case, structure, command kind, outcome)")
    chk.trusted += ["g++/libstdc++/ASan/UBSan as oracle of what the generated C++ does; memmove as modelled",
                    "harness/lib/embref.py (reference semantics, logical equality)"]
    model_ok = common.proof_gate(chk, search)
    if model_ok:
        _run(chk, tier, True)
    return chk.finish()


def replay(path):
    rec = json.load(open(path))
    p = cppdrv.prepare(rec["module"])
    if not p.ok:
        print("module rejected:", p.errors, p.exception)
        return 1
    (b, log), = cppdrv.build([p], features=("eq", "cp"), eq_params_ok=rec.get("key") == KEY_PARAM)
    if not b:
        print("does not compile:", log[-2500:])
        return 1 if rec.get("key") == KEY_PARAM else 2
    cmds = [c for c in (rec.get("command"), rec.get("followup")) if c and c.split()[0] in ("EQ", "CP", "CPO")]
    rr, out = cppdrv.ask(b, cmds)
    print("driver:", rr.kind, rr.err[-800:])
    for c, o in zip(cmds, out):
        print(c, "->", o)
    print("recorded expectation:", rec.get("expected"))
    return 0
