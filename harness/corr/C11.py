"""C11 — the formatter preserves meaning, is idempotent, never fails on valid input.

Ties
  T  harness/translate/fmt_table.py regenerates lean/Emboss/Generated/FmtTable.lean
     (grammar productions + production -> handler registry, sorted, plus an interned copy) and
     lean/Emboss/Generated/FmtGlue.lean (certificate tables for separability) before the Lean build; `C11_table_ok` (every handler known, registered with the right
     calling convention, typed at every production, ignoring only layout tokens; registry =
     grammar) is re-decided in the kernel by `lake build`; the compiled checker re-evaluates
     it (op TABLE) together with the separability obligation (ops GLUE / GLUECHECK).
  C  real `format_emb.format_emboss_parse_tree(tree, Config(indent_width=k))` vs the model
     driver op `FMT k <tree>` on the same parse tree: byte-identical text, k in 1..8;
     real `sanity_check_format_result` vs op `SANITY` on token streams (answer kind and,
     for "Symbol i differs", the index).

Spec oracle (model-free, written from the property statement): the formatted text
tokenizes and parses; its token stream equals the original's up to newline runs,
Indent texts and trailing blanks of Comment/Documentation; the IR built from both parse
trees is equal apart from source locations; formatting the result again is the
identity; `sanity_check_format_result` returns []; nothing raises.  For the self-check
itself: on any two tokenizable texts it returns [] iff the two token streams are equal up
to newline runs / leading newlines and blanks around token texts, and it never raises.
"""
import io
import json
import os
import re
import subprocess
import sys
import time
import contextlib

from harness.lib import common, fmtgen
from harness.translate import fmt_table

from compiler.front_end import format as format_main
from compiler.front_end import format_emb
from compiler.front_end import module_ir
from compiler.front_end import parser
from compiler.front_end import tokenizer
from compiler.util import ir_data_utils
from compiler.util import parser_types

PROP = "C11"
NL = '"\\n"'

# ----------------------------------------------------------------- real code access


def parse(text):
    """(tokens, parse tree) or (None, why)."""
    try:
        toks, errs = tokenizer.tokenize(text, "")
    except Exception as e:  # noqa: BLE001  (C16's business; not a formatter input)
        return None, "tokenizer-exception %r" % (e,)
    if errs:
        return None, "untokenizable"
    pr = parser.parse_module(toks)
    if pr.error:
        return None, "unparseable"
    return toks, pr.parse_tree


def real_format(tree, k):
    return format_emb.format_emboss_parse_tree(tree, format_emb.Config(indent_width=k))


def serialize(tree, pindex):
    """Prefix form for the model driver (iterative: trees are deep)."""
    out = []
    stack = [tree]
    while stack:
        n = stack.pop()
        if isinstance(n, parser_types.Token):
            out.append("T" + n.text.encode("utf-8").hex())
        else:
            i = pindex.get(n.production)
            if i is None:
                return None
            out.append("N%d:%d" % (i, len(n.children)))
            stack.extend(reversed(n.children))
    return " ".join(out)


# ----------------------------------------------------------------- spec oracle
def canon(toks):
    """Token stream up to what the property allows to change."""
    out = []
    for t in toks:
        if t.symbol == NL:
            if out and out[-1][0] != NL:
                out.append((NL, ""))
        elif t.symbol in ("Indent", "Dedent"):
            out.append((t.symbol, ""))
        elif t.symbol in ("Comment", "Documentation"):
            out.append((t.symbol, t.text.rstrip()))
        else:
            out.append((t.symbol, t.text))
    while out and out[-1][0] == NL:
        out.pop()
    return out


def strip_locations(x, in_doc=False):
    """Drop source locations; documentation text is compared up to trailing blanks
    (the property allows the formatter to remove them)."""
    if isinstance(x, dict):
        return {k: (v.rstrip() if in_doc and k == "text" and isinstance(v, str)
                    else strip_locations(v, in_doc or k == "documentation"))
                for k, v in x.items() if k != "source_location"}
    if isinstance(x, list):
        return [strip_locations(v, in_doc) for v in x]
    return x


_ANON = re.compile(r"(emboss_reserved_anonymous_field_|EmbossReservedAnonymousField)(\d+)")


def ir_of(tree):
    """IR as JSON without source locations.  module_ir numbers anonymous `bits` fields
    with a process-global counter: renumber in order of first appearance."""
    ir = module_ir.build_ir(tree)
    js = ir_data_utils.IrDataSerializer(ir).to_json()
    seen = {}

    def ren(m):
        return m.group(1) + str(seen.setdefault(m.group(2), len(seen) + 1))
    return strip_locations(json.loads(_ANON.sub(ren, js)))


def spec_check(text, toks, tree, k, with_ir=False):
    """Returns (verdict, detail, formatted text or None).  verdict 'ok' or a failure kind."""
    try:
        out = real_format(tree, k)
    except Exception as e:  # noqa: BLE001
        return "exception", "format_emboss_parse_tree raised %r" % (e,), None
    if not isinstance(out, str):
        return "not-text", repr(type(out)), None
    t2, tree2 = parse(out)
    if t2 is None:
        return "reparse-fail", "formatted text is %s" % tree2, out
    if canon(t2) != canon(toks):
        a, b = canon(toks), canon(t2)
        i = next((j for j in range(min(len(a), len(b))) if a[j] != b[j]), min(len(a), len(b)))
        return "tokens-differ", "at %d: %r vs %r" % (i, a[i:i + 2], b[i:i + 2]), out
    if with_ir:
        try:
            if ir_of(tree) != ir_of(tree2):
                return "ir-differs", "IR of the formatted text differs (ignoring source locations)", out
        except Exception as e:  # noqa: BLE001
            return "ir-exception", repr(e), out
    try:
        out2 = real_format(tree2, k)
    except Exception as e:  # noqa: BLE001
        return "exception", "second format raised %r" % (e,), out
    if out2 != out:
        la, lb = out.split("\n"), out2.split("\n")
        i = next((j for j in range(min(len(la), len(lb))) if la[j] != lb[j]), min(len(la), len(lb)))
        return "not-idempotent", "line %d: %r -> %r" % (i + 1, la[i:i + 1], lb[i:i + 1]), out
    try:
        s = format_emb.sanity_check_format_result(out, text)
    except Exception as e:  # noqa: BLE001
        return "sanity-exception", repr(e), out
    if s:
        return "sanity-disagrees", str(s)[:300], out
    return "ok", "", out


# ----------------------------------------------------------------- constructs of the three repaired defects
# (81a07e9 `a - -b`, ad57b46 trailing blanks of inline documentation, f3f855c self-check and
# stream lengths).  Nothing is routed or excused any more: the predicates only count how often
# the generated inputs contain the construct, so that reverting a fix is reported.


def has_minus_minus(toks):
    return any(a.symbol == '"-"' and b.symbol == '"-"' for a, b in zip(toks, toks[1:]))


def inline_docs_with_trailing_blanks(toks):
    """Documentation tokens that are not the first token of their line and end in blanks."""
    out = []
    prev = None
    for t in toks:
        if t.symbol == "Documentation" and t.text != t.text.rstrip() and prev is not None and \
                prev.symbol not in (NL, "Indent", "Dedent"):
            out.append(t)
        prev = t
    return out


# ----------------------------------------------------------------- tree shape
def shape_has(tree, what):
    """Construct detectors (statistics only), on the parse tree, by symbol names of the grammar:
    `if_comment`: a comment line directly below an `if …:` header, above its first field;
    `inline_abbrev`: an inline struct/enum/bits field definition that carries an abbreviation."""
    stack = [tree]
    while stack:
        n = stack.pop()
        if isinstance(n, parser_types.Token):
            continue
        lhs = n.production.lhs
        rhs = list(n.production.rhs)
        if what == "if_comment" and lhs.startswith("conditional-") and "eol" in rhs:
            if any(t.symbol == "Comment" for t in leaves_of(n.children[rhs.index("eol")])):
                return True
        if what == "inline_abbrev" and lhs.startswith("inline-") and "abbreviation?" in rhs:
            if leaves_of(n.children[rhs.index("abbreviation?")]):
                return True
        stack.extend(n.children)
    return False


def leaves_of(n):
    out, stack = [], [n]
    while stack:
        m = stack.pop()
        if isinstance(m, parser_types.Token):
            out.append(m)
        else:
            stack.extend(reversed(m.children))
    return out


def same_shape(t1, t2):
    """Hypothesis of `C11_format_fixed_point_partial` (`equivC`): same productions node by node;
    at the tokens the same symbol and the same text, except that layout tokens (Indent, Dedent,
    newline) may carry any text and Documentation / Comment tokens may differ in trailing blanks."""
    stack = [(t1, t2)]
    while stack:
        a, b = stack.pop()
        ta, tb = isinstance(a, parser_types.Token), isinstance(b, parser_types.Token)
        if ta != tb:
            return False
        if ta:
            if a.symbol != b.symbol:
                return False
            if a.symbol in (NL, "Indent", "Dedent"):
                continue
            if a.symbol in ("Documentation", "Comment"):
                if a.text.rstrip() != b.text.rstrip() or (a.text == "") != (b.text == ""):
                    return False
            elif a.text != b.text:
                return False
        else:
            if a.production != b.production or len(a.children) != len(b.children):
                return False
            stack.extend(zip(a.children, b.children))
    return True


_HNAME = {}


def _hname(production):
    """Handler function name the live registry assigns to a production."""
    if not _HNAME:
        for prod, name, _cfg in fmt_table.registry():
            _HNAME[prod] = name
    return _HNAME.get(production)


def _chain_lines(c):
    """A chain `x* -> x x*` (`_concatenate_lists`) / `x* ->` (`_empty_list`) of comment lines
    (`_comment_line`) as a list of its line nodes; None when `c` is not such a chain."""
    out = []
    while True:
        if isinstance(c, parser_types.Token):
            return None
        h = _hname(c.production)
        if h == "_empty_list" and not c.children:
            return out
        if h != "_concatenate_lists" or len(c.children) != 2:
            return None
        line = c.children[0]
        if isinstance(line, parser_types.Token) or _hname(line.production) != "_comment_line" or \
                len(line.children) != 2:
            return None
        out.append(line)
        c = c.children[1]


def _is_blank_line(line):
    a, b = line.children
    return (not isinstance(a, parser_types.Token)) and _hname(a.production) == "_empty_string" and \
        not a.children and isinstance(b, parser_types.Token)


def _strip_blank_lines(lines):
    i, j = 0, len(lines)
    while i < j and _is_blank_line(lines[i]):
        i += 1
    while j > i and _is_blank_line(lines[j - 1]):
        j -= 1
    return lines[i:j]


def same_shape_blank(t1, t2):
    """Hypothesis of `C11_idempotent_partial` (`equivC` followed by `EquivB`): as `same_shape`,
    except that under a node handled by `_eol` and at the head of the node handled by `_module`
    the chains of comment lines are compared after dropping the blank lines at their two ends
    (blank = a `_comment_line` node whose `Comment?` is the empty production)."""
    stack = [(t1, t2)]
    while stack:
        a, b = stack.pop()
        ta, tb = isinstance(a, parser_types.Token), isinstance(b, parser_types.Token)
        if ta != tb:
            return False
        if ta:
            if not same_shape(a, b):
                return False
            continue
        if a.production != b.production or len(a.children) != len(b.children):
            return False
        h = _hname(a.production)
        pos = 1 if (h == "_eol" and len(a.children) == 2) else 0 if (h == "_module" and a.children) else None
        if pos is not None:
            la, lb = _chain_lines(a.children[pos]), _chain_lines(b.children[pos])
            if la is not None and lb is not None:
                la, lb = _strip_blank_lines(la), _strip_blank_lines(lb)
                if len(la) != len(lb):
                    return False
                stack.extend(zip(la, lb))
                stack.extend((x, y) for i, (x, y) in enumerate(zip(a.children, b.children)) if i != pos)
                continue
        stack.extend(zip(a.children, b.children))
    return True


def relayout(r, text, toks):
    """The same token sequence laid out differently *within* each line: every indentation character
    doubled (prefix relations between indentations, which is all the tokenizer looks at, are kept),
    every non-empty gap between two tokens replaced by a random blank string, blanks appended after
    a Documentation or Comment token.  Line structure (blank lines, comment lines) is untouched, so the parse
    tree is `equivT` to the original one: `C11_format_factors_partial` says the formatted text must
    be the same."""
    lines = text.split("\n")
    per_line = {}
    for t in toks:
        if t.symbol in (NL, "Indent", "Dedent"):
            continue
        per_line.setdefault(t.source_location.start.line, []).append(t)
    out = []
    for n, line in enumerate(lines, 1):
        ts = per_line.get(n)
        if not ts:
            out.append(line)
            continue
        first = ts[0].source_location.start.column - 1
        new = "".join(ch * 2 for ch in line[:first])
        prev_end = None
        for t in ts:
            a, b = t.source_location.start.column - 1, t.source_location.end.column - 1
            if prev_end is not None:
                new += r.choice([" ", "  ", "   ", " \t", "     "]) if line[prev_end:a] else ""
            new += line[a:b]
            prev_end = b
        if ts[-1].symbol in ("Documentation", "Comment"):
            new += r.choice(["", " ", "    "])
        else:
            new += line[prev_end:]
        out.append(new)
    return "\n".join(out)


def relaid_case(st, r, text, k):
    """Metamorphic use of the normal-form theorem on the real code: a re-laid-out copy of `text`
    goes through the whole oracle + correspondence as an input of its own, and the real formatter
    must give the same text for both."""
    toks, tree = parse(text)
    if toks is None:
        return
    try:
        text2 = relayout(r, text, toks)
    except Exception:  # noqa: BLE001  (positions the helper does not understand: not a formatter matter)
        st.bump(st.stats, "relaid_rejected")
        return
    toks2, tree2 = parse(text2)
    if text2 == text or toks2 is None or not same_shape(tree2, tree):
        st.bump(st.stats, "relaid_rejected")
        return
    run_text(st, text2, [k], "relaid", with_ir=False)
    try:
        same = real_format(tree2, k) == real_format(tree, k)
    except Exception:  # noqa: BLE001  (reported by the oracle in run_text)
        return
    st.bump(st.stats, "relaid_same_output" if same else "relaid_output_differs")
    if not same and len(st.chk.violations) < st.max_viol:
        st.chk.violation("correspondence", {
            "input": text, "relaid_input": text2, "indent_width": k,
            "theorem_or_correspondence": "C11_format_factors_partial: trees that differ only in layout-token texts / "
                                         "trailing blanks of documentation and comments are formatted to the same text",
            "note": "the real formatter's output depends on the layout of the source; the model's provably "
                    "does not (not by itself a violation of the property statement)"}, found_input=False)


def fixed_point_hypothesis(st, tree, out):
    """How often idempotence is a consequence of the theorem: the parse tree of the formatted
    text has the shape of the original one (the source already had the formatter's blank-line and
    comment-line structure)."""
    t2, tree2 = parse(out)
    if t2 is None:
        return
    st.bump(st.stats, "fixed_point_theorem_applies" if same_shape(tree2, tree) else "fixed_point_by_oracle_only")
    # round 3: the weaker hypothesis of C11_idempotent_partial (blank lines at the ends of comment
    # blocks may differ as well)
    st.bump(st.stats, "idempotent_theorem_applies" if same_shape_blank(tree, tree2)
            else "idempotent_by_oracle_only")


def classify_retok(ans, want, fmt_agreed, verdict):
    """What a `RETOK` answer means.  `fmt_agreed`: the `FMT` op of the same case agreed byte for
    byte (model and real formatter produce the same text); `verdict`: the spec oracle's verdict on
    the real code (only computed when the answers differ)."""
    if ans == want:
        return "applies"
    if ans == "hyp-fails":
        return "hyp-fails"
    if verdict != "ok":
        return "violation-input"
    if fmt_agreed:
        return "tokenizer-model"
    return "violation-correspondence"


# ----------------------------------------------------------------- one case
class State:
    def __init__(self, chk, tier):
        self.chk = chk
        self.tier = tier
        self.pindex = fmt_table.production_index()
        self.model_ops = []      # (op line, expected answer, text, k)
        self.stats = {}
        self.verdicts = {}
        self.productions_used = set()
        self.max_viol = 12

    def bump(self, d, k, n=1):
        d[k] = d.get(k, 0) + n


def shrink(text, k, verdict, budget_s=8.0):
    """Delta-debugging: drop lines, then blank-separated words, while the same kind of failure
    remains."""
    t_end = time.time() + budget_s

    def pred(cand):
        if time.time() > t_end:
            return False
        toks, tree = parse(cand)
        if toks is None:
            return False
        return spec_check(cand, toks, tree, k)[0] == verdict
    lines = text.split("\n")
    n = 2
    while len(lines) >= 2 and time.time() < t_end:
        chunk = max(1, len(lines) // n)
        reduced = False
        for i in range(0, len(lines), chunk):
            cand = lines[:i] + lines[i + chunk:]
            if pred("\n".join(cand)):
                lines, n, reduced = cand, max(n - 1, 2), True
                break
        if not reduced:
            if chunk == 1:
                break
            n = min(n * 2, len(lines))
    text = "\n".join(lines)
    changed = True
    while changed and time.time() < t_end:
        changed = False
        parts = re.split(r"([ \t]+)", text)
        for i in range(len(parts)):
            if not parts[i] or parts[i].isspace():
                continue
            cand = "".join(parts[:i] + parts[i + 1:])
            if cand != text and pred(cand):
                text, changed = cand, True
                break
    return text


def report(st, text, k, verdict, detail, key=None):
    if len(st.chk.violations) >= st.max_viol:
        return
    if verdict in ("exception", "reparse-fail", "tokens-differ", "ir-differs", "not-idempotent",
                   "sanity-exception", "sanity-disagrees") and len(text) > 80:
        small = shrink(text, k, verdict)
        if small != text:
            toks, tree = parse(small)
            v2, d2, _ = spec_check(small, toks, tree, k)
            if v2 == verdict:
                st.chk.violation("input", {"input": small, "unshrunk_input": text, "indent_width": k,
                                           "observed": "%s: %s" % (v2, d2),
                                           "expected": "formatted text parses to the same tokens, second format "
                                                       "is the identity, self-check returns [], no exception"},
                                 key=key)
                return
    st.chk.violation("input", {"input": text, "indent_width": k, "observed": "%s: %s" % (verdict, detail),
                               "expected": "formatted text parses to the same tokens, second format is "
                                           "the identity, self-check returns [], no exception"}, key=key)


def run_text(st, text, widths, origin, with_ir=True):
    """Full oracle on one text for the given widths; queue the model comparison."""
    chk = st.chk
    toks, tree = parse(text)
    if toks is None:
        st.bump(st.stats, "skipped_" + tree.split(" ")[0])
        return False
    st.bump(st.stats, "parsed_" + origin)
    if has_minus_minus(toks):
        st.bump(st.stats, "with_binary_minus_unary_minus")
    if inline_docs_with_trailing_blanks(toks):
        st.bump(st.stats, "with_inline_doc_trailing_blanks")
    if shape_has(tree, "if_comment"):
        st.bump(st.stats, "with_comment_below_if")
    if shape_has(tree, "inline_abbrev"):
        st.bump(st.stats, "with_inline_type_abbreviation")
    used = set()
    for i, k in enumerate(widths):
        chk.count()
        verdict, detail, out = spec_check(text, toks, tree, k, with_ir=(with_ir and i == 0))
        st.bump(st.verdicts, verdict)
        if verdict != "ok":
            report(st, text, k, verdict, detail)
        elif i == 0:
            fixed_point_hypothesis(st, tree, out)
        # model comparison (the model mirrors the code, defects included)
        try:
            out_real = real_format(tree, k)
            want = "ok " + out_real.encode("utf-8").hex()
        except Exception:  # noqa: BLE001
            want = "none"
        ser = serialize(tree, st.pindex)
        if ser is not None:
            st.model_ops.append(("FMT %d %s" % (k, ser), want, text, k))
            if i == 0 and want != "none":
                # round 3: C11_retokenize_checked — the model evaluates the theorem's hypotheses on its
                # rows and answers the token sequence they imply; expected: what the REAL tokenizer
                # makes of the REAL formatter's output
                res = tokenizer.tokenize(out_real, "")
                if not res[1]:
                    leaves = ",".join("%s:%s" % (t.symbol.encode("utf-8").hex(), t.text.encode("utf-8").hex())
                                      for t in res[0])
                    st.model_ops.append(("RETOK %d %s" % (k, ser), "ok " + (leaves or "-"), text, k))
    try:
        format_emb.format_emboss_parse_tree(tree, format_emb.Config(), used)
    except Exception:  # noqa: BLE001  (already reported by the oracle above)
        pass
    st.productions_used |= used
    if origin != "relaid":      # a re-laid-out copy has the production set of its source: not a new case
        chk.nontrivial("%s|%s" % (origin, hash(tuple(sorted(str(p) for p in used)))))
    return True


# ----------------------------------------------------------------- streams
SIMPLE = "struct Foo:\n  0 [+1] UInt x\n  1 [+2] UInt  yy  # c\n"

BOUNDARY = [
    SIMPLE,
    "", "\n", "\n\n\n", "# only a comment", "# c\n\n\n# d\n", "-- doc\n", "--\n", "--   \n",
    "-- doc\n# c\n", "import \"x\" as y\n", "[a: 1]\n", "[$default b: \"s\"]\n[(cpp) namespace: \"a::b\"]\n",
    "struct Foo:\n  0 [+1] UInt x\n",
    "struct Foo:\n  0 [+1] UInt x",
    "struct Foo:\n\t0 [+1] UInt x\n\t1 [+1] UInt y\n",
    "struct Foo:\n  # only comment before\n  0 [+1] UInt x\n  # trailing comment\nstruct Bar:\n  0 [+1] UInt y\n",
    "struct Foo:\n  let y = 1 - +5\n",
    # binary minus followed by unary minus, in every position an expression can take
    "struct Foo:\n  let y = a - -1\n", "struct Foo:\n  let y = -(-x)\n",
    "struct Foo:\n  0 - -b [+1] UInt x\n", "struct Foo:\n  0 [+4 - -b] UInt x\n",
    "struct Foo:\n  if x - -1 == 0:\n    0 [+1] UInt y\n", "enum Foo:\n  AA = 1 - -1\n",
    "struct Foo:\n  0 [+1] UInt x\n    [requires: this - -1 > 0]\n",
    "struct Foo:\n  0 [+1] UInt:8[4 - -2] x\n", "struct Foo(a: UInt:8):\n  0 [+1] Bar(a - -1) x\n",
    # trailing blanks in inline documentation / comments
    "struct Foo:\n  0 [+1] UInt a -- abc   \n  1 [+1] UInt b # c\n",
    "enum Foo:\n  AA = 1 # abc   \n  BB = 2 -- d\n",
    "struct Foo:\n  0 [+1] UInt a --   \n  1 [+1] UInt b # c\n",
    "struct Foo:\n  0 [+1] UInt a # abc   \n  1 [+1] UInt b # c\n",
    "enum Foo:\n  AA = 1\n    -- doc\n    [a: 1]\n  BB = 2 -- inline\n",
    "struct Foo:\n  0 [+4] bits:\n    0 [+1] Flag a\n    if a:\n      1 [+1] Flag b\n",
    "struct Foo:\n  if true:\n    0 [+4] bits:\n      0 [+1] Flag a\n    let x = 1\n",
    "bits Foo:\n  0 [+1] Flag a\n  if a:\n    1 [+1] Flag b\n    let c = b\n",
    "struct Foo(a: UInt:8, b: Bar.Baz):\n  0 [+a] UInt:8[] xs\n",
    "struct Foo:\n  0 [+1] enum e:\n    AA = 0\n  1 [+1] bits b:\n    0 [+1] Flag f\n  2 [+2] struct s:\n    0 [+1] UInt q (qq) [a: 1] [b: 2] -- d\n",
    "external Foo:\n  -- doc\n  [a: 1]\n",
    "struct Foo:\n  0 [+1] UInt x\n\n\n\n\n  # c\n\n\n  1 [+1] UInt y\n",
    "struct Foo:\n  let x = a ? b : c\n  let y = a == b && c != d || e < f\n  let z = $max(a, b,c) + $present(x.y.z)\n",
    # comment lines (and blank lines) at every place a line can stand: below an `if` header, below a type
    # header, below a field with a body, between attribute lines, before a dedent — in struct, bits,
    # anonymous bits, enum
    "struct Foo:\n  0 [+1] UInt a\n  if a == 1:\n    # below if\n\n    # second\n    1 [+1] UInt b\n      -- doc of b\n    2 [+1] UInt c\n",
    "bits Foo:\n  0 [+1] Flag a\n  if a:  # on the if line\n    # below if\n    1 [+1] Flag b\n",
    "struct Foo:\n  0 [+4] bits:\n    0 [+1] Flag a\n    if a:\n      # below if, anonymous bits\n      1 [+1] Flag b\n    # after\n",
    "struct Foo:  # header\n  # below header\n\n  -- doc\n  # between doc and attribute\n  [a: 1]\n  # before field\n  0 [+1] UInt x  # on field\n    # below field\n    -- doc of x\n    # between\n    [b: 2]\n    # end of body\n  # end of struct\n# end of file\n",
    "enum Foo:\n  # below header\n  AA = 1  # on value\n    # below value\n    -- doc\n  # between values\n\n\n  BB = 2\n",
    # abbreviations on plain fields and on every inline type
    "struct Foo:\n  0 [+1] UInt x (xx)\n  1 [+1] enum e (ee):\n    AA = 0\n  2 [+1] bits b (bb):\n    0 [+1] Flag f (ff)\n  3 [+2] struct s (ss):  # c\n    0 [+1] UInt q (qq)\n",
    "bits Foo:\n  0 [+4] enum e (ee):\n    AA = 0\n  4 [+4] UInt y (yy)\n",
]

# pinned inputs of the repaired findings (also in corpus/C11/): they must pass now
PINNED = {
    "minus-minus-juxtaposed": "struct Foo:\n  0 [+1] UInt x\n  let y = x - -5\n",
    "inline-doc-trailing-blanks-widen-column": "enum Foo:\n  AA = 1 -- abc   \n  BB = 2 # c\n",
}
# (formatted, original) probes of the repaired finding `sanity-check-ignores-length`
SANITY_PINNED = [("-- doc\n-- extra\n", "-- doc\n"), ("", "-- doc\n"), ("-- doc\n", "-- doc\n-- extra\n"),
                 ("-- doc\n", ""), ("struct Foo:\n  0 [+1] UInt x\n  let y = x--5\n",
                                    "struct Foo:\n  0 [+1] UInt x\n  let y = x - -5\n")]


def corpus_texts():
    out = []
    dirs = [os.path.join(common.REPO, "testdata"), os.path.join(common.REPO, "testdata", "format"),
            os.path.join(common.REPO, "compiler", "front_end"), os.path.join(common.VERIF, "corpus", PROP)]
    for d in dirs:
        if not os.path.isdir(d):
            continue
        for f in sorted(os.listdir(d)):
            if f.endswith(".emb") or (d.endswith(PROP) and not f.startswith(".")):
                try:
                    with open(os.path.join(d, f)) as fh:
                        out.append((f, fh.read()))
                except (OSError, UnicodeDecodeError):
                    pass
    # findings repaired in /repo (findings.d/_fixed.json) that are formatter inputs: none name C11
    return out


def widths_for(r, tier, n):
    ws = list(range(1, 9))
    r.shuffle(ws)
    return sorted(ws[:n])


def generated_stream(st, r, n, nwidths):
    for _ in range(n):
        text, toks = fmtgen.program(r, st.stats)
        ws = widths_for(r, st.tier, nwidths)
        run_text(st, text, ws, "generated")
        if _ % 3 == 0:
            relaid_case(st, r, text, ws[0])


class Collector:
    """Stand-in for `Check` inside a worker process: records what the oracle reports."""

    def __init__(self, known):
        self.known = known
        self.prop = PROP
        self.calls = []
        self.violations = []

    def count(self, n=1):
        self.calls.append(("count", n))

    def nontrivial(self, key):
        self.calls.append(("nontrivial", key))

    def known_finding(self, key):
        for k in self.known:
            if k.get("property") == PROP and k.get("status") == "open" and k.get("key") == key:
                return k
        return None

    def violation(self, kind, detail, key=None, found_input=True):
        self.violations.append((kind, detail, key, found_input))
        self.calls.append(("violation", kind, detail, key, found_input))


def _worker(args):
    tag, tier, n, nwidths, known, which, corpus = args
    col = Collector(known)
    st = State(col, tier)
    r = common.rng(tag)
    if which == "generated":
        generated_stream(st, r, n, nwidths)
    else:
        mutated_stream(st, r, corpus, n, nwidths)
    return col.calls, st.model_ops, st.stats, st.verdicts, st.productions_used


def parallel_stream(st, which, tag, n, nwidths, corpus, workers=3):
    """Thorough tier: the stream is split over `workers` processes (fork: the front end is
    already imported), each with its own PRNG derived from VERIF_SEED."""
    import multiprocessing
    ctx = multiprocessing.get_context("fork")
    jobs = [("%s-w%d" % (tag, i), st.tier, n // workers + (1 if i < n % workers else 0), nwidths,
             st.chk.known, which, corpus) for i in range(workers)]
    with ctx.Pool(workers) as pool:
        results = pool.map(_worker, jobs)
    for calls, ops, stats, verdicts, used in results:
        for c in calls:
            if c[0] == "count":
                st.chk.count(c[1])
            elif c[0] == "nontrivial":
                st.chk.nontrivial(c[1])
            elif c[0] == "violation" and len(st.chk.violations) < st.max_viol:
                st.chk.violation(c[1], c[2], key=c[3], found_input=c[4])
        st.model_ops.extend(ops)
        for k, v in stats.items():
            st.bump(st.stats, k, v)
        for k, v in verdicts.items():
            st.bump(st.verdicts, k, v)
        st.productions_used |= used


def mutated_stream(st, r, corpus, n, nwidths):
    good = [t for _, t in corpus if parse(t)[0] is not None]
    done = 0
    attempts = 0
    while done < n and attempts < 6 * n and good:
        attempts += 1
        base = r.choice(good)
        if len(base) > 12000 and st.tier == "quick":
            continue
        m = fmtgen.mutate_text(r, base)
        if m == base or parse(m)[0] is None:
            st.bump(st.stats, "mutant_rejected")
            continue
        run_text(st, m, widths_for(r, st.tier, nwidths), "mutated", with_ir=False)
        done += 1


def malformed_stream(st, r, n):
    """Texts that do not parse: the CLI entry must report, not raise (and never write)."""
    d = common.scratch()
    for i in range(n):
        text, _ = fmtgen.program(r, None)
        lines = text.split("\n")
        k = r.randrange(4)
        if k == 0 and lines:
            lines[r.randrange(len(lines))] = "  " + r.choice(["struct", "0 [+", "~", "a b c", "\"", "--x", "]"])
        elif k == 1:
            lines = [" " * r.randrange(0, 5) + l for l in lines]
        elif k == 2:
            lines.insert(r.randrange(len(lines) + 1), r.choice(["emboss_reserved_x", "0xZZ", "\x00", "\t\tif:"]))
        else:
            lines = lines[: max(1, len(lines) // 2)]
        bad = "\n".join(lines)
        p = os.path.join(d, "bad%d.emb" % i)
        with open(p, "w") as f:
            f.write(bad)
        err = io.StringIO()
        outb = io.StringIO()
        st.chk.count()
        try:
            with contextlib.redirect_stderr(err), contextlib.redirect_stdout(outb):
                rc = format_main.main(["emboss-format", "--no-edit-in-place", "--color-output", "never", p])
        except Exception as e:  # noqa: BLE001
            if parse(bad)[0] is not None:
                continue
            report(st, bad, 2, "cli-exception", repr(e), key="crash:format.py:main:%s" % type(e).__name__)
            continue
        with open(p) as f:
            if f.read() != bad:
                report(st, bad, 2, "cli-modified-file", "--no-edit-in-place wrote the input file")
        st.bump(st.stats, "malformed_rc_%s" % rc)
        st.bump(st.stats, "malformed_parsed" if parse(bad)[0] is not None else "malformed_rejected")


def cli_in_process(argv):
    out, err = io.StringIO(), io.StringIO()
    with contextlib.redirect_stderr(err), contextlib.redirect_stdout(out):
        rc = format_main.main(argv)
    return rc, out.getvalue(), err.getvalue()


def cli_path(st, r, texts):
    """format.main (what /repo/emboss-format calls): `--no-edit-in-place --indent k f` prints
    the formatted text and leaves the file alone; the default rewrites the file.  Every text
    in-process; the first one also through the real `emboss-format` script as a subprocess."""
    d = common.scratch()
    env = dict(os.environ)
    env["PYTHONPATH"] = common.REPO
    # PYTHONPYCACHEPREFIX is inherited from harness/lib/common.py (byte-code cache)
    exe = os.path.join(common.REPO, "emboss-format")
    n = 0
    for text in texts:
        toks, tree = parse(text)
        if toks is None:
            continue
        k = r.randrange(1, 9)
        verdict = spec_check(text, toks, tree, k)[0]
        if verdict == "exception":
            continue            # reported by the streams; nothing to compare the CLI with
        want = real_format(tree, k)
        ok_expected = verdict == "ok"
        p = os.path.join(d, "cli%d.emb" % n)
        for mode in (["inproc"] + (["subprocess"] if n == 0 else [])):
            for in_place in (False, True):
                with open(p, "w") as f:
                    f.write(text)
                argv = [exe] + ([] if in_place else ["--no-edit-in-place"]) + ["--indent", str(k), p]
                st.chk.count()
                try:
                    if mode == "inproc":
                        rc, out, err = cli_in_process(argv)
                    else:
                        pr = subprocess.run([sys.executable] + argv, env=env, stdout=subprocess.PIPE,
                                            stderr=subprocess.PIPE, timeout=900)
                        rc, out, err = pr.returncode, pr.stdout.decode("utf-8", "replace"), \
                            pr.stderr.decode("utf-8", "replace")
                except Exception as e:  # noqa: BLE001
                    report(st, text, k, "cli-exception", "%s %r" % (mode, e))
                    continue
                with open(p) as f:
                    on_disk = f.read()
                st.bump(st.stats, "cli_%s_runs" % mode)
                if not ok_expected:
                    # the self-check must refuse to write a text that does not mean the same
                    if on_disk != text and verdict in ("reparse-fail", "tokens-differ"):
                        report(st, text, k, "cli-wrote-bad-text", "self-check let a changed text through")
                    continue
                if rc != 0 or (not in_place and (out != want or on_disk != text)) or \
                        (in_place and on_disk != want):
                    report(st, text, k, "cli-differs", "%s in_place=%s rc=%d stderr=%r" % (
                        mode, in_place, rc, err[-300:]))
        n += 1
    st.stats["cli_files"] = n


# ----------------------------------------------------------------- sanity-check correspondence
def tok_arg(toks):
    if not toks:
        return "-"
    return ",".join("%s:%s" % (t.symbol.encode().hex(), t.text.encode("utf-8").hex()) for t in toks)


def real_sanity(formatted, original):
    try:
        s = format_emb.sanity_check_format_result(formatted, original)
    except Exception as e:  # noqa: BLE001
        return "exception " + type(e).__name__
    if not s:
        return "ok"
    if s[0].startswith("BUG: Symbol "):
        return "differs " + s[0].split()[2]
    if s[0].startswith("BUG: Token count differs"):
        return "countdiffers"
    return "other " + s[0][:60]


def spec_sanity(ft, ot):
    """Spec oracle for the self-check, from the property statement ("its built-in self-check
    agrees": it accepts exactly when the token sequences are the same up to whitespace and blank
    lines): True iff the two token streams, with every newline token that starts the stream or
    follows another newline token dropped, have the same length and pairwise the same symbol and
    the same text up to surrounding blanks."""
    def norm(toks):
        out = []
        for t in toks:
            if t.symbol == NL and (not out or out[-1][0] == NL):
                continue
            out.append((t.symbol, t.text.strip()))
        return out
    return norm(ft) == norm(ot)


def sanity_ops(st, r, pairs):
    """(formatted, original) text pairs -> model op + answer of the real function; the real answer is
    also held against the spec oracle (`ok` iff the streams agree; never an exception)."""
    ops = []
    for f, o in pairs:
        ft, e1 = tokenizer.tokenize(f, "")
        ot, e2 = tokenizer.tokenize(o, "")
        if e1 or e2:
            continue
        st.chk.count()
        real = real_sanity(f, o)
        agree = spec_sanity(ft, ot)
        st.bump(st.stats, "sanity_" + real.split()[0])
        bad = real.startswith("exception") or real.startswith("other") or (real == "ok") != agree
        if bad:
            st.bump(st.stats, "sanity_against_spec")
            if len(st.chk.violations) < st.max_viol:
                st.chk.violation("input", {
                    "input": {"formatted": f, "original": o}, "observed": "sanity_check_format_result: " + real,
                    "expected": "[] iff the token streams agree up to newline runs and blanks around "
                                "token texts (they %s); never an exception" % ("agree" if agree else "differ")})
        ops.append(("SANITY %s %s" % (tok_arg(ft), tok_arg(ot)), real, (f, o, bad)))
    return ops


def sanity_pairs(r, texts):
    out = list(SANITY_PINNED)
    for t in texts:
        toks, tree = parse(t)
        if toks is None:
            continue
        try:
            f = real_format(tree, r.randrange(1, 9))
        except Exception:  # noqa: BLE001
            continue
        out.append((f, t))
        fl = f.split("\n")
        tl = t.split("\n")
        if len(fl) > 2:
            out.append(("\n".join(fl[: len(fl) // 2]), t))          # formatted shorter
            out.append((f + "# extra\n-- more\n", t))               # formatted longer
            i = r.randrange(len(fl))
            out.append(("\n".join(fl[:i] + fl[i + 1:]), t))         # a line dropped
            out.append((f, "\n".join(tl[: max(1, len(tl) // 2)])))   # original shorter
            out.append(("\n\n" + f.replace("\n", "\n\n"), t))        # extra newlines only
            out.append((f + "\n\n", t + "# tail\n"))                 # original longer by one token
            j = r.randrange(len(fl))
            out.append(("\n".join(fl[:j] + ["# changed"] + fl[j + 1:]) + "\n-- more\n", t))  # differs, then longer
    return out


# ----------------------------------------------------------------- glued terminal pairs (separability)
def glued_pairs_check(st, model):
    """Separability obligation `C11_render_separable`.  The driver computes, from the regenerated
    grammar + handler table, every terminal pair some handler prints with nothing in between
    (`gluedPairs`, Spec/Fmt.lean), checks that its fixpoint computations converged and that each
    pair is in the audited list (`gluedOK`, compiled checker; the kernel checks the certificate
    form of the same statement, theorem `C11_render_separable`).  Here every computed pair is
    tried on the real tokenizer: texts of the two classes, juxtaposed, must tokenize back into
    exactly the two tokens — no unsplit pair."""
    chk = st.chk
    chk.obligations += 1
    ok, pairs_line = model.ask(["GLUECHECK", "GLUE"])
    pairs = [tuple(x.split(" ")) for x in pairs_line.split("\t") if x]
    st.stats["glued_pairs_computed"] = len(pairs)
    r = common.rng("C11-glue")
    bad = []
    n = 0
    for a, b in pairs:
        for _ in range(8):
            ta, tb = fmtgen.terminal_text(r, a), fmtgen.terminal_text(r, b)
            got = fmtgen.real_stream(ta + tb)
            n += 1
            if not (got is not None and [x for x in got if x[0] != NL] == [(a, ta), (b, tb)]):
                bad.append((a, b, ta + tb))
                break
    st.stats["glued_pair_samples"] = n
    st.stats["glued_pairs_unsplit"] = len(bad)
    chk.extra["glue_obligation"] = ok[:300]
    if ok == "ok" and not bad:
        chk.discharged += 1
        chk.theorems.append({"theorem": "gluedOK formatters (fixpoint form of C11_render_separable; compiled checker, op "
                                        "GLUECHECK) + tokenizer sampling of every computed pair: no unsplit pair",
                             "axioms": ["Lean compiler"]})
        return
    what = "gluedOK: %s; pairs the tokenizer does not split: %r" % (ok[:500], bad[:5])
    print("separability obligation of C11 no longer holds: " + what)
    if not search(chk):
        chk.violation("theorem", {"theorem_or_correspondence": what,
                                  "note": "a handler now juxtaposes a terminal pair that is not in the audited "
                                          "list / that the tokenizer does not split; search found no failing input"},
                      found_input=False)


# ----------------------------------------------------------------- search (model-free)
def search(chk):
    st = State(chk, "quick")
    before = len(chk.violations)
    r = common.rng("C11-search")
    for _, t in corpus_texts():
        run_text(st, t, [2, 4], "corpus", with_ir=False)
    for t in BOUNDARY:
        run_text(st, t, [1, 3], "boundary")
    generated_stream(st, r, 500, 2)
    sanity_ops(st, r, sanity_pairs(r, BOUNDARY))
    chk.extra["search_verdicts"] = st.verdicts
    return len(chk.violations) - before


# ----------------------------------------------------------------- main
def run(tier):
    chk = common.Check(PROP, tier, exes=["model_c11"])
    chk.cov["rule"] = ("one evaluation = one (text, indent width) pair through the full oracle (or one CLI run); "
                       "non-trivial = distinct (origin, set of grammar productions used by the parse tree)")
    chk.trusted += [
        "harness/translate/fmt_table.py transcribes module_ir.PRODUCTIONS and format_emb._formatters faithfully",
        "tokenizer.tokenize / parser.parse_module of /repo as the definition of 'parses' and of the token stream "
        "(their own correctness is C08-C10)",
    ]
    fmt_table.regenerate()
    model_ok = common.proof_gate(chk, search)
    if model_ok:
        # table obligations (hypothesis `tableTyped formatters` of the theorems, and
        # `_check_productions`): evaluated by the compiled checker on the regenerated table
        chk.obligations += 1
        ans = common.Model("model_c11").ask(["TABLE"])[0]
        chk.extra["table_obligation"] = ans
        if ans == "ok":
            chk.discharged += 1
            chk.theorems.append({"theorem": "tableTyped ∧ tableMatchesGrammar ∧ tableNormal ∧ tableComment formatters (compiled checker, op TABLE)",
                                 "axioms": ["Lean compiler"]})
        else:
            print("table obligations of C11 no longer hold: %s" % ans[:1500])
            if not search(chk):
                chk.violation("theorem", {"theorem_or_correspondence": "tableTyped / tableMatchesGrammar / tableNormal / tableComment: " + ans,
                                          "note": "regenerated production->handler table no longer satisfies the "
                                                  "hypothesis of C11_total / C11_tokens_preserved; search found no "
                                                  "failing input"}, found_input=False)
            model_ok = False
    if model_ok:
        # round 3: per-handler probes — the model reproduces the committed probe reference, the
        # real registry entries are run on the same arguments; functions that were renamed but
        # reproduce the model's handler of their productions are listed
        from harness.translate import fmt_probe
        fmt_probe.verify(chk, common.Model("model_c11"), fmt_table.registry())
    chk.extra["renamed_handlers"] = dict(fmt_table.RENAMED)
    st = State(chk, tier)
    r = common.rng("C11")
    quick = tier == "quick"
    t0 = time.time()

    # pinned inputs of open findings (none at present: the three round-1 findings are repaired
    # in /repo and their inputs are ordinary corpus / boundary cases now)
    for k in chk.known:
        if k.get("property") == PROP and k.get("status") == "open":
            text = k.get("input", "")
            toks, tree = parse(text)
            if toks is None:
                continue
            if any(spec_check(text, toks, tree, w)[0] != "ok" for w in (2, 4)):
                chk.report_known(k)
    # fixed findings: pinned inputs must now pass (a reverted fix is a violation)
    corpus = corpus_texts()
    for name, t in corpus:
        run_text(st, t, [2, 4] if quick else list(range(1, 9)), "corpus", with_ir=not quick or len(t) < 6000)
    for t in BOUNDARY + list(PINNED.values()):
        run_text(st, t, list(range(1, 9)), "boundary")
        relaid_case(st, r, t, r.randrange(1, 9))
    for name, t in corpus:
        if quick and len(t) > 6000:
            continue
        relaid_case(st, r, t, r.randrange(1, 9))
    chk.extra["t_corpus_s"] = round(time.time() - t0, 1)

    t1 = time.time()
    if quick:
        generated_stream(st, r, 260, 2)
    else:
        parallel_stream(st, "generated", "C11-gen", 3000, 4, None)
    chk.extra["t_generated_s"] = round(time.time() - t1, 1)
    t1 = time.time()
    if quick:
        mutated_stream(st, r, corpus, 100, 2)
    else:
        parallel_stream(st, "mutated", "C11-mut", 900, 3, corpus)
    chk.extra["t_mutated_s"] = round(time.time() - t1, 1)
    t1 = time.time()
    malformed_stream(st, r, 25 if quick else 200)
    chk.extra["t_malformed_s"] = round(time.time() - t1, 1)
    t1 = time.time()
    cli_path(st, r, [SIMPLE, PINNED["minus-minus-juxtaposed"]] + [corpus[r.randrange(len(corpus))][1] for _ in range(6) if corpus]
             + [fmtgen.program(r, None)[0] for _ in range(6)])
    chk.extra["t_cli_s"] = round(time.time() - t1, 1)
    t1 = time.time()

    # every production of the grammar must have been exercised
    missing = [str(p) for p in module_ir.PRODUCTIONS if p not in st.productions_used]
    chk.extra["productions_total"] = len(module_ir.PRODUCTIONS)
    chk.extra["productions_exercised"] = len(module_ir.PRODUCTIONS) - len(missing)
    chk.extra["productions_not_exercised"] = missing[:20]

    # the self-check against its own spec oracle (model-free), on formatted/original pairs and on
    # damaged variants (formatted shorter / longer / a line dropped / a line changed …)
    sp = sanity_pairs(r, [t for _, t in corpus[:: (8 if quick else 2)]] + BOUNDARY)
    sops = sanity_ops(st, r, sp)

    # correspondence with the model
    if model_ok:
        model = common.Model("model_c11")
        glued_pairs_check(st, model)
        lines = [op for op, _, _, _ in st.model_ops] + [op for op, _, _ in sops]
        answers = model.ask(lines, timeout=1800)
        dis = 0
        retok = {"retokenize_ops": 0, "retokenize_theorem_applies": 0, "retokenize_hypothesis_fails": 0,
                 "retokenize_disagrees": 0, "retokenize_tokenizer_model_differs": 0}
        fmt_agreed = {}
        for (op, want, text, k), ans in zip(st.model_ops, answers):
            if op.startswith("FMT "):
                fmt_agreed[(text, k)] = (ans == want)
            if op.startswith("RETOK "):
                retok["retokenize_ops"] += 1
                verdict = detail = None
                if ans != want and ans != "hyp-fails":
                    if retok["retokenize_disagrees"] + retok["retokenize_tokenizer_model_differs"] >= 20:
                        # enough classified ones (each costs a run of the oracle): count only
                        retok["retokenize_disagrees_unclassified"] = retok.get("retokenize_disagrees_unclassified", 0) + 1
                        continue
                    toks, tree = parse(text)
                    verdict, detail, _ = spec_check(text, toks, tree, k)
                cls = classify_retok(ans, want, fmt_agreed.get((text, k), False), verdict)
                if cls == "applies":
                    retok["retokenize_theorem_applies"] += 1
                elif cls == "hyp-fails":
                    # the hypotheses of the theorem do not hold on the model's rows: no verdict (the
                    # oracle has re-tokenized the real output anyway)
                    retok["retokenize_hypothesis_fails"] += 1
                elif cls == "tokenizer-model":
                    # same formatted text (the FMT op of this case agreed byte for byte), the property
                    # holds on the real code, only the tokenizer MODEL cuts the text differently from the
                    # real tokenizer: C10's check owns that correspondence (and reports it with an input)
                    retok["retokenize_tokenizer_model_differs"] += 1
                else:
                    retok["retokenize_disagrees"] += 1
                    dis += 1
                    if dis <= 5:
                        chk.violation("input" if cls == "violation-input" else "correspondence", {
                            "input": text, "indent_width": k, "model": ans[:400], "observed": want[:400],
                            "oracle_on_real_code": "%s: %s" % (verdict, detail),
                            "theorem_or_correspondence": "model_c11 RETOK (retokTree: C11_retokenize_checked) vs "
                                                         "tokenizer.tokenize(format_emboss_parse_tree(...))"},
                            found_input=(cls == "violation-input"))
                continue
            if ans != want:
                dis += 1
                if dis <= 5:
                    toks, tree = parse(text)
                    verdict, detail, _ = spec_check(text, toks, tree, k)
                    got = ans
                    if ans.startswith("ok "):
                        try:
                            got = bytes.fromhex(ans[3:]).decode("utf-8")
                        except ValueError:
                            pass
                    wanted = bytes.fromhex(want[3:]).decode("utf-8") if want.startswith("ok ") else want
                    chk.violation("input" if verdict != "ok" else "correspondence", {
                        "input": text, "indent_width": k, "model": got[:4000], "observed": wanted[:4000],
                        "expected": (verdict + ": " + detail) if verdict != "ok"
                        else "real code satisfies the spec on this input; the model differs",
                        "theorem_or_correspondence": "model_c11 FMT vs format_emboss_parse_tree (byte-identical)"},
                        found_input=(verdict != "ok"))
        for (op, want, pair), ans in zip(sops, answers[len(st.model_ops):]):
            if ans != want:
                dis += 1
                if pair[2]:
                    continue    # the real self-check is wrong on this pair: reported above with the input
                if dis <= 5:
                    chk.violation("correspondence", {
                        "input": {"formatted": pair[0], "original": pair[1]}, "model": ans, "observed": want,
                        "theorem_or_correspondence": "model_c11 SANITY vs sanity_check_format_result"},
                        found_input=False)
        chk.extra["t_model_s"] = round(time.time() - t1, 1)
        chk.extra["traces_validated_against_impl"] = len(lines)
        chk.extra["fmt_ops"] = len(st.model_ops) - retok["retokenize_ops"]
        chk.extra["retokenize"] = retok
        chk.extra["sanity_ops"] = len(sops)
        chk.extra["sanity_answers"] = {a: sum(1 for _, w, _ in sops if w.split()[0] == a)
                                       for a in sorted(set(w.split()[0] for _, w, _ in sops))}
        chk.extra["disagreements"] = dis
        chk.extra["tie"] = "byte-identical text, indent widths 1..8"
    chk.extra["generator"] = st.stats
    chk.extra["verdicts"] = st.verdicts
    for t in [SIMPLE]:
        try:
            chk.sample({"emb": t, "formatted_indent_3": real_format(parse(t)[1], 3)})
        except Exception as e:  # noqa: BLE001
            chk.sample({"emb": t, "formatted_indent_3": "exception %r" % (e,)})
    chk.assumptions += [
        "idempotence, re-parse and IR equality are decided by the oracle on the real code (sampled), not by a theorem",
        "the theorems are about the model; model = code is sampled byte-for-byte by the correspondence",
    ]
    return chk.finish()


def replay(path):
    rec = json.load(open(path))
    text = rec.get("input")
    if isinstance(text, dict):
        print("sanity_check_format_result:", real_sanity(text["formatted"], text["original"]))
        ft, e1 = tokenizer.tokenize(text["formatted"], "")
        ot, e2 = tokenizer.tokenize(text["original"], "")
        if not e1 and not e2:
            print("spec oracle: the token streams", "agree" if spec_sanity(ft, ot) else "differ",
                  "(expected answer: %s)" % ("ok" if spec_sanity(ft, ot) else "a reported difference"))
        return 0
    k = rec.get("indent_width", 2)
    toks, tree = parse(text)
    if toks is None:
        print("input does not parse:", tree)
        return 0
    verdict, detail, out = spec_check(text, toks, tree, k, with_ir=True)
    print("indent_width:", k)
    print("verdict:", verdict, detail)
    if out is not None:
        print("formatted text:")
        print(out)
    return 0
