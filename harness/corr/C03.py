"""C03 — field writes are range-checked, read back exactly, touch only their own bits.

Tie: correspondence.  (1) The same executions as C02 (runtime view templates instantiated
directly; real generated headers for random modules), judged on the write half of every
case: CouldWriteValue, TryToWrite, the buffer afterwards (whole structure for generated
headers), Ok()/Read() afterwards.  Write values: in-range boundaries, just outside, the
argument type's min/max, for the templated IntT overloads int8..uint64.
(2) Write inference: random `let` fields compiled by the real front end; the `write_method`
in the IR is compared structurally with the Lean model (`WMETHOD`/`INVERT`), judged by the
independent substitute-and-evaluate oracle, and exercised through the generated C++.
"""
import collections
import json

from harness.lib import common, scalarcheck, scalarcpp

PROP = "C03"
MODEL = "model_c03"


def explore(chk, tier, model_exe, budget="run"):
    import time
    stats = collections.Counter()
    stats["_reported"] = set()
    timing = chk.extra.setdefault("timing_s", {})
    t0 = time.time()
    scalarcheck.direct_part(chk, PROP, tier, model_exe, stats, budget)
    timing["direct_templates"] = round(time.time() - t0, 1)
    t0 = time.time()
    try:
        from harness.lib import scalaremb
    except ImportError:
        scalaremb = None
    if scalaremb is not None:
        scalaremb.header_part(chk, PROP, tier, model_exe, stats, budget)
        timing["generated_headers"] = round(time.time() - t0, 1)
        t0 = time.time()
        scalaremb.testdata_part(chk, PROP, tier, model_exe, stats, budget)
        timing["testdata_headers"] = round(time.time() - t0, 1)
        t0 = time.time()
    try:
        from harness.lib import winf
    except ImportError:
        winf = None
    if winf is not None:
        winf.run_winf(chk, tier, model_exe, stats, budget)
        timing["write_inference"] = round(time.time() - t0, 1)
    stats.pop("_reported", None)
    chk.extra["distribution"] = dict(sorted(stats.items()))
    return stats


def search(chk):
    """Model-free: real templates against the spec oracle only."""
    before = len(chk.violations)
    explore(chk, "quick", None, budget="search")
    return len(chk.violations) - before


def run(tier):
    chk = common.Check(PROP, tier, exes=[MODEL])
    chk.cov["rule"] = ("one evaluation = one (configuration, contents, value) CouldWriteValue+TryToWrite "
                       "on the real runtime, or one virtual field's write method; non-trivial = successful "
                       "write into a field that is a proper part of its container (read-modify-write), or "
                       "a virtual field with alias/transform write method; distinct by configuration / text")
    chk.trusted += ["g++/clang++, libstdc++, ASan/UBSan as oracles of what the C++ runtime does",
                    "host is little-endian x86-64; memcpy and __builtin_bswap modelled, not verified",
                    "unsigned->signed conversion taken as two's complement (as the runtime assumes)"]
    model_ok = common.proof_gate(chk, search)
    chk.extra.setdefault("timing_s", {})["proof_gate"] = round(__import__("time").time() - chk.t0, 1)
    stats = explore(chk, tier, MODEL if model_ok else None)
    chk.extra["traces_validated_against_impl"] = chk.cov["evaluations"] if model_ok else 0
    chk.extra["disagreements"] = stats.get("model_disagreements", 0)
    return chk.finish()


def replay(path):
    rec = json.load(open(path))
    if rec.get("kind_of_input") == "winf":
        from harness.lib import winf
        return winf.replay_winf(rec)
    if rec.get("kind_of_input") == "testdata":
        print("testdata module %s, field %s: rerun `./check %s` (the case is regenerated "
              "deterministically from VERIF_SEED=%s); recorded observation: %s" % (
                  rec.get("input"), rec.get("field"), PROP, rec.get("seed"), rec.get("observed")))
        return scalarcheck.replay_direct(rec) if "config" in rec else 0
    if rec.get("kind_of_input") == "emb-module":
        from harness.lib import scalaremb
        return scalaremb.replay(rec)
    return scalarcheck.replay_direct(rec)
