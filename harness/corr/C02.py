"""C02 — scalar fields decode with the documented byte order, bit numbering and format.

Tie: correspondence.  (1) The runtime view templates are instantiated directly
(UIntView/IntView/BcdView/FlagView/FloatView/EnumView over BitBlock and over
OffsetBitBlock<BitBlock<{Little,Big}Endian|Null ByteOrderer<ContiguousBuffer>>>) for
(type, k, c, o, byte order, alignment), both runtime code paths, and compared case by
case with the Lean model (`SCALAR` op of model_c02).  (2) Real generated headers for
random .emb modules (fields of every scalar type in structs and in bits, both byte
orders): the view-type selection of header_generator is tied as well.
Judge: `scalarcpp.spec` (containerValue / bits / two's complement / BCD / bit pattern).
"""
import collections
import json

from harness.lib import common, scalarcheck, scalarcpp

PROP = "C02"
MODEL = "model_c02"


def explore(chk, tier, model_exe, budget="run"):
    import time
    stats = collections.Counter()
    stats["_reported"] = set()
    timing = chk.extra.setdefault("timing_s", {})
    t0 = time.time()
    scalarcheck.direct_part(chk, PROP, tier, model_exe, stats, budget)
    timing["direct_templates"] = round(time.time() - t0, 1)
    t0 = time.time()
    try:
        from harness.lib import scalaremb
    except ImportError:
        scalaremb = None
    if scalaremb is not None:
        scalaremb.header_part(chk, PROP, tier, model_exe, stats, budget)
        timing["generated_headers"] = round(time.time() - t0, 1)
        t0 = time.time()
        scalaremb.testdata_part(chk, PROP, tier, model_exe, stats, budget)
        timing["testdata_headers"] = round(time.time() - t0, 1)
        t0 = time.time()
    stats.pop("_reported", None)
    chk.extra["distribution"] = dict(sorted(stats.items()))
    return stats


def search(chk):
    """Model-free: real templates against the spec oracle only."""
    before = len(chk.violations)
    explore(chk, "quick", None, budget="search")
    return len(chk.violations) - before


def run(tier):
    chk = common.Check(PROP, tier, exes=[MODEL])
    chk.cov["rule"] = ("one evaluation = one (configuration, container contents) read on the real "
                       "runtime; non-trivial = complete view whose field is a proper part of its "
                       "container (shift/mask exercised); distinct by (type, k, c, o, byte order, "
                       "mode, code path)")
    chk.trusted += ["g++/clang++, libstdc++, ASan/UBSan as oracles of what the C++ runtime does",
                    "host is little-endian x86-64; memcpy and __builtin_bswap modelled, not verified",
                    "unsigned->signed conversion taken as two's complement (as the runtime assumes)"]
    model_ok = common.proof_gate(chk, search)
    chk.extra.setdefault("timing_s", {})["proof_gate"] = round(__import__("time").time() - chk.t0, 1)
    stats = explore(chk, tier, MODEL if model_ok else None)
    chk.extra["traces_validated_against_impl"] = chk.cov["evaluations"] if model_ok else 0
    chk.extra["disagreements"] = stats.get("model_disagreements", 0)
    return chk.finish()


def replay(path):
    rec = json.load(open(path))
    if rec.get("kind_of_input") == "testdata":
        print("testdata module %s, field %s: rerun `./check %s` (the case is regenerated "
              "deterministically from VERIF_SEED=%s); recorded observation: %s" % (
                  rec.get("input"), rec.get("field"), PROP, rec.get("seed"), rec.get("observed")))
        return scalarcheck.replay_direct(rec) if "config" in rec else 0
    if rec.get("kind_of_input") == "emb-module":
        from harness.lib import scalaremb
        return scalaremb.replay(rec)
    return scalarcheck.replay_direct(rec)
