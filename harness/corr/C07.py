"""C07 — every module the compiler accepts yields a header that compiles and instantiates.

Level: translation validation + proved decision logic (honestly *partial*: C++
well-formedness beyond the enumerated causes is only observed).

On every run:
  T  `runtime/cpp/*.h` static_asserts → lean/Emboss/Generated/StaticAsserts.lean (obligations
     `C07_static_asserts_classified`/`_hold` re-elaborated); every integer literal of every
     generated header is parsed and evaluated by the model's C++ literal semantics
     (`C07_constants_equal_front_end`): none may be ill-formed, and the rendering must be the
     model's.
  C  the real compile: for every accepted module (testdata, corpus, generated: nested and
     inline types, parameters, multi-file imports with namespaces, attributes, enum_case,
     identifier shapes) the header is generated with and without enum traits and an
     instantiate-everything driver (harness/lib/instdrv.py) is compiled with g++ under
     -std=c++11/14/17 (clang++ too in the thorough tier); static constants are
     `static_assert`ed against the IR.  The Lean model `Names.clashes` predicts, per C++ scope,
     whether identifiers clash; prediction and g++ must agree.
A compile error on an accepted module is a violation with the .emb files as replay, unless it
is one of the open findings (narrow predicates below), each of which is re-executed from its
pinned input on every run.
"""
import json
import os
import re
import time

from harness.lib import common, cppbuild, cppgen, emb, embgen07, instdrv
from harness.translate import cpp_tables, static_asserts

PROP = "C07"

H = '[$default byte_order: "LittleEndian"]\n'

# OPEN findings only: key -> (what, pinned input, force flags for the driver).  The pinned inputs of the findings
# repaired by fix: commits (dca9b37, a37c4e1, d48a2f1, and the identifier-clash rejection:
# corpus/C07/clash_*_must_be_rejected.*) live in corpus/C07/ and are ordinary cases now.
FINDINGS = [
    ("constant-condition-choice-static-assert",
     "`let v = true ? a : b` (constant condition, branches of different C++ integer types): runtime static_assert "
     "\"Choice's IntermediateT should be the same as ResultT\" fails when `v()` is used (found by builder bounds)",
     H + "struct Foo:\n  0 [+1] UInt a\n  1 [+8] UInt b\n  let v = true ? a : b\n", ()),
    ("iterate-array-inside-bits",
     "`begin()`/`end()` of an array field of a `bits` do not compile (`OffsetBitBlock` has no nullptr constructor and, "
     "having const members, no copy assignment)",
     H + "bits Bb:\n  0 [+8] UInt:4[2] xs\n\nstruct Foo:\n  0 [+1] Bb b\n", ("bits-iter",)),
    ("crash:ir_util.py:get_attribute:AssertionError",
     "`enum_case` attributes for two back ends on one enum value make the C++ back end fail an assertion "
     "(`Duplicate attribute`) instead of producing a header",
     '[expected_back_ends: "cpp, rust"]\nenum Foo:\n  AB_CD = 1  [(rust) enum_case: "kCamelCase"]\n'
     '    [(cpp) enum_case: "SHOUTY_CASE"]\n', ()),
]
KEYS = {k for k, _, _, _ in FINDINGS}
HEADER_ONLY_KEYS = {"virtual-field-names-equal-after-camel-conversion", "validator-names-equal-after-camel-conversion",
                    "enum-value-names-equal-after-camel-conversion", "field-named-like-view-data-member",
                    "field-named-like-parameter-member", "parameter-named-like-view-data-member",
                    "field-named-has_-of-another-field", "nested-enum-named-like-view-member",
                    "type-named-like-generated-type-identifier", "type-named-like-enum-helper",
                    "nested-type-named-like-size-constant", "nested-enum-named-like-its-structure",
                    "type-declared-twice-in-one-cpp-namespace"}


def clash_key(c):
    ident, a, b = c
    pair = {a, b}
    if "own namespace reference" in pair:
        return "nested-enum-named-like-its-structure" if "using <enum>" in pair else "structure-named-Storage-or-ValueType"
    if a == b and a in ("view class template", "View alias", "Writer alias", "trait", "MakeAligned…View", "Make…View",
                        "namespace", "enum", "external view"):
        return "type-declared-twice-in-one-cpp-namespace"
    if pair == {"virtual view class"}:
        return "virtual-field-names-equal-after-camel-conversion"
    if pair == {"validator"}:
        return "validator-names-equal-after-camel-conversion"
    if "using <enum>" in pair:
        return "nested-enum-named-like-view-member"
    if "constant function" in pair:
        return "nested-type-named-like-size-constant"
    if "fixed member" in pair and ("field accessor" in pair or "field has_" in pair):
        return "field-named-like-view-data-member"
    if "fixed member" in pair and pair & {"parameter member", "parameter accessor", "parameter has_"}:
        return "parameter-named-like-view-data-member"
    if "parameter member" in pair and "field accessor" in pair:
        return "field-named-like-parameter-member"
    if ("field has_" in pair or "parameter has_" in pair) and ("field accessor" in pair or "parameter accessor" in pair):
        return "field-named-has_-of-another-field"
    if pair & {"EnumTraits", "helper"}:
        return "type-named-like-enum-helper"
    gen = {"view class template", "View alias", "Writer alias", "Make…View", "MakeAligned…View", "trait"}
    if pair & gen and (pair & {"enum", "namespace"} or len(pair & gen) == 2 or len(pair) == 1):
        return "type-named-like-generated-type-identifier"
    return None


# ============================================================== IR → model ops
def struct_json(t, traits=True):
    fields = []
    for f in t["structure"].get("field", []):
        nm = f["name"]["name"]["text"]
        virt = "read_transform" in f
        alias = "alias" in f.get("write_method", {})
        req = any(a["name"]["text"] == "requires" for a in cppgen.attr_list(f))
        ex = f.get("existence_condition", {})
        exists_const = "value" in ex.get("type", {}).get("boolean", {})
        fields.append({"name": nm, "own_view": virt and not alias, "validator": (not virt) and req,
                       "constant": virt and not alias and exists_const and instdrv.is_const_type(f["read_transform"])})
    return {"name": t["name"]["name"]["text"], "is_bits": t.get("addressable_unit") == 1,
            "params": [p["name"]["name"]["text"] for p in t.get("runtime_parameter", []) or []],
            "fields": fields,
            "nested_enums": [s["name"]["name"]["text"] for s in t.get("subtype", []) or [] if "enumeration" in s],
            "nested_structs": [s["name"]["name"]["text"] for s in t.get("subtype", []) or [] if "structure" in s],
            "traits": traits}


def name_ops(ir_dict, traits=True):
    """One `CLASS` op per structure and one `NS` op per C++ namespace scope of *all* modules compiled together:
    the scope of a type is the module's `(cpp) namespace` + the names of the enclosing structures, so modules
    of one namespace (and `namespace a::B` next to the nested types of a `struct B` in `namespace a`) share scopes."""
    scopes, ops = {}, []

    def scope(path):
        return scopes.setdefault(path, {"structs": [], "enums": [], "externals": [], "owner": None, "traits": traits})
    for m in ir_dict["module"]:
        ns = tuple(cppgen.module_namespace(m))
        for t, anc in cppgen.walk_types(m):
            path = ns + tuple(a["name"]["name"]["text"] for a in anc)
            nm = t["name"]["name"]["text"]
            if "structure" in t:
                sj = struct_json(t, traits)
                scope(path)["structs"].append(nm)
                scope(path + (nm,))["owner"] = sj
                ops.append("CLASS " + json.dumps(sj))
            elif "enumeration" in t:
                scope(path)["enums"].append(nm)
            elif "external" in t:
                scope(path)["externals"].append(nm)
    for path in sorted(scopes):
        ops.append("NS " + json.dumps(scopes[path]))
    return ops


def distinct_ops(ir_dict):
    """One `DISTINCT` op per structure of every module of the IR (the back end's check walks the whole IR)."""
    ops = []
    for m in ir_dict["module"]:
        for t, _anc in cppgen.walk_types(m):
            if "structure" in t:
                ops.append("DISTINCT " + json.dumps(struct_json(t)))
    return ops


def split_template_args(text, start):
    """Top-level arguments of the template-argument list opening at text[start] == '<'."""
    depth, args, cur, k = 0, [], [], start
    while k < len(text):
        c = text[k]
        if c == "<":
            depth += 1
            if depth > 1:
                cur.append(c)
        elif c == ">":
            depth -= 1
            if depth == 0:
                args.append("".join(cur).strip())
                return args
            cur.append(c)
        elif c == "," and depth == 1:
            args.append("".join(cur).strip())
            cur = []
        else:
            cur.append(c)
        k += 1
    return None


def array_units(header):
    """Set of `kAddressableUnitSize` arguments of every `GenericArrayView<…>` in a header (None = unparsable)."""
    out = set()
    for m in re.finditer(r"GenericArrayView<", header):
        a = split_template_args(header, m.end() - 1)
        if a is None or len(a) < 4:
            out.add(None)
            continue
        mm = re.match(r"(\d+)\b", a[3])
        out.add(int(mm.group(1)) if mm else None)
    return out


def expected_array_units(ir_dict):
    """From the IR: unit 1 for arrays in `bits`, 8 for arrays in `struct` (module 0; doc: bits are bit-addressed)."""
    out = set()
    for t, _anc in cppgen.walk_types(ir_dict["module"][0]):
        if "structure" in t:
            for f in t["structure"].get("field", []):
                if "array_type" in f.get("type", {}):
                    out.add(1 if t.get("addressable_unit") == 1 else 8)
    return out


_LIT_RE = re.compile(r"static_cast</\*\*/\s*::std::(u?)int(\d+)_t>\(\s*(-?)\s*(\d+)(U?)(L{0,2})\s*(- 1)?\s*\)")


def literal_ops(header):
    ops, metas = [], []
    seen = set()
    for m in _LIT_RE.finditer(header):
        if m.group(0) in seen:
            continue
        seen.add(m.group(0))
        sg, bits, neg, mag, u, ls, m1 = m.groups()
        ops.append("EVAL %s %s %d %s %d %d %d" % ("s" if sg == "" else "u", bits, neg == "-", mag, u == "U",
                                                   1 if ls else 0, m1 is not None))
        val = -int(mag) if neg else int(mag)
        if m1:
            val -= 1
        metas.append(("eval", m.group(0), val))
        ops.append("RENDER %d" % val)
        metas.append(("render", "static_cast<%sint%s>(%s%s%s%s%s)" % ("" if sg == "" else "u", bits, neg, mag, u, ls,
                                                                       " - 1" if m1 else ""), val))
    # every static_cast</**/…>( … ) the pattern did not recognise is reported by the caller
    total = len(set(re.findall(r"static_cast</\*\*/\s*::std::u?int\d+_t>\([^()]*\)", header)))
    return ops, metas, total - len(seen)


# ================================================================ one module
class Case:
    pass


def prepare(chk, label, files, main, force=(), expect_key=None):
    c = Case()
    c.label, c.files, c.main, c.force, c.expect_key = label, files, main, tuple(force), expect_key
    c.outdir = os.path.join(common.scratch(), "c07", re.sub(r"\W", "_", label))
    os.makedirs(c.outdir + "/t", exist_ok=True)
    os.makedirs(c.outdir + "/n", exist_ok=True)
    chk.count()
    c.build = cppgen.build_headers(files, main, traits=True, outdir=c.outdir + "/t")
    c.status = c.build["status"]
    c.ops, c.jobs = [], []
    c.distinct_ops = distinct_ops(c.build["ir_dict"]) if c.build.get("ir_dict") and c.status in ("ok", "back-reject") else []
    c.reject_ops, c.unchecked_driver = [], None
    if c.status == "back-reject" and c.build.get("ir_dict") and not c.build.get("in_import"):
        # the model's verdict on the scopes of a module the back end rejected (both enum-traits settings were
        # compiled with traits on here), and — for the "rejects nothing but genuine clashes" oracle — the header
        # the back end would have produced without `_verify_generated_identifiers_are_distinct`
        c.reject_ops = name_ops(c.build["ir_dict"])
        if IDENT_MSG in json.dumps(c.build.get("errors") or []):
            c.unchecked_driver = unchecked_driver(c, files, main)
    if c.status != "ok":
        return c
    c.build_n = cppgen.build_headers(files, main, traits=False, outdir=c.outdir + "/n")
    ird = c.build["ir_dict"]
    c.name_ops = name_ops(ird)
    c.lit_ops, c.lit_meta, c.lit_unparsed = [], [], 0
    for f, h in c.build["headers"].items():
        o, m, u = literal_ops(h)
        c.lit_ops += o
        c.lit_meta += m
        c.lit_unparsed += u
    d = instdrv.Driver(ird, main, traits=True)
    d.force = set(force)
    c.driver_t = d.build(cppbuild.CHECK_PRELUDE)
    c.stats = d.stats
    d2 = instdrv.Driver(ird, main, traits=False)
    d2.force = set(force)
    c.driver_n = d2.build(cppbuild.CHECK_PRELUDE)
    c.header_only = '#include "%s.h"\nint main() { return 0; }\n' % main
    return c


IDENT_MSG = "is already generated for"


def unchecked_driver(c, files, main):
    """Header + instantiate-everything driver of a module with the identifier check switched off (in this
    process only): what the rejected module would have been compiled to.  None if that fails otherwise."""
    from compiler.back_end.cpp import header_generator as hg
    saved = getattr(hg, "_verify_generated_identifiers_are_distinct", None)
    if saved is None:
        return None
    hg._verify_generated_identifiers_are_distinct = lambda ir, config: []
    try:
        os.makedirs(c.outdir + "/u", exist_ok=True)
        b = cppgen.build_headers(files, main, traits=True, outdir=c.outdir + "/u")
    finally:
        hg._verify_generated_identifiers_are_distinct = saved
    if b["status"] != "ok":
        return None
    d = instdrv.Driver(b["ir_dict"], main, traits=True)
    return d.build(cppbuild.CHECK_PRELUDE)


def compile_plan(c, idx, tier, pinned=False, all_std=False):
    """List of compile jobs (dicts for cppbuild.compile_one) with a tag each."""
    stds = ["c++11", "c++14", "c++17"]
    jobs = []
    inc_t, inc_n = ["-I" + c.outdir + "/t"], ["-I" + c.outdir + "/n"]

    def job(tag, src, std, inc, compiler="g++"):
        jobs.append((tag, {"src_text": src, "name": "c07_%d_%s" % (idx, re.sub(r"\W", "", tag)), "std": std,
                           "compiler": compiler, "sanitize": False, "opt": "-O0", "extra": inc, "syntax_only": True}))
    if pinned:
        # name clashes show up when the header alone is parsed (cheap); the rest needs the driver
        src = c.header_only if c.expect_key in HEADER_ONLY_KEYS else c.driver_t
        job("driver:%s:traits" % stds[idx % 3], src, stds[idx % 3], inc_t)
        return jobs
    if tier == "quick" and not all_std:
        job("driver:%s:traits" % stds[idx % 3], c.driver_t, stds[idx % 3], inc_t)
        job("driver:%s:no-traits" % stds[(idx + 1) % 3], c.driver_n, stds[(idx + 1) % 3], inc_n)
    else:
        for sd in stds:
            job("driver:%s:traits" % sd, c.driver_t, sd, inc_t)
        job("driver:%s:no-traits" % stds[idx % 3], c.driver_n, stds[idx % 3], inc_n)
        if tier == "thorough":
            if idx % 2:
                job("driver:clang:%s:traits" % stds[(idx + 2) % 3], c.driver_t, stds[(idx + 2) % 3], inc_t, "clang++")
            else:
                job("driver:clang:%s:no-traits" % stds[idx % 3], c.driver_n, stds[idx % 3], inc_n, "clang++")
    return jobs


def first_errors(log, n=6):
    return "\n".join([l for l in log.splitlines() if "error" in l][:n])[-2500:]


def evaluate(chk, c, name_answers, lit_answers, results):
    """results: list of (tag, ok, log)."""
    def viol(kind, what, expected, observed, key=None, found=True):
        d = {"input": c.files.get(c.main, c.main), "files": c.files, "main": c.main, "label": c.label, "what": what,
             "expected": expected, "observed": observed, "force": list(c.force)}
        if kind == "correspondence":
            d["theorem_or_correspondence"] = what
        chk.violation(kind, d, key=key, found_input=found)

    if c.status in ("front-crash", "back-crash"):
        exc = c.build.get("exc")
        key = None
        if isinstance(exc, AssertionError) and "Duplicate attribute" in str(exc):
            key = "crash:ir_util.py:get_attribute:AssertionError"
        if c.status == "back-crash":
            viol("input", "front end accepted the module but the C++ back end raised an exception", "a header",
                 repr(exc), key=key)
        else:
            chk.extra["front_end_crashes_seen"] = chk.extra.get("front_end_crashes_seen", 0) + 1   # C16's business
        return
    # ---- acceptance clause of the back end: `_verify_generated_names_are_distinct` vs `fieldNamesDistinct`
    da = getattr(c, "distinct_answers", None)
    if da is not None and c.status in ("ok", "back-reject"):
        errs = json.dumps(c.build.get("errors") or [])
        real_fields_clash = c.status == "back-reject" and ("Virtual fields '" in errs or "Fields with [requires] '" in errs)
        model_fields_clash = any(a == "false" for a in da)
        if "bad-op" in da:
            viol("correspondence", "model driver rejected a DISTINCT op", "", "", found=False)
        elif c.status == "ok" and model_fields_clash:
            viol("correspondence", "fieldNamesDistinct: the model rejects (two helper classes of one structure would get "
                 "the same name), the back end produced a header", "back-reject", c.status, found=False)
        elif c.status == "back-reject" and "would both be named" in errs and "Enum values '" not in errs and \
                real_fields_clash != model_fields_clash:
            viol("correspondence", "fieldNamesDistinct: the back end rejects, the model accepts", "accepted",
                 c.build.get("errors"), found=False)
        if c.status == "back-reject" and "would both be named" in errs:
            chk.nontrivial("rejected-generated-name-collision:" + ("fields" if real_fields_clash else "enum"))
            chk.extra["rejected_name_collisions"] = chk.extra.get("rejected_name_collisions", 0) + 1
    ra = getattr(c, "reject_answers", None)
    if c.status == "back-reject" and ra is not None and c.reject_ops:
        errs = json.dumps(c.build.get("errors") or [])
        real_ident = IDENT_MSG in errs
        pred = [tuple(cl) for a in ra if a not in ("bad-op",) for cl in json.loads(a)]
        # clashes among `EmbossReserved…` names are the business of the older check ("would both be named")
        pred_ident = [cl for cl in pred if clash_key(cl) not in ("virtual-field-names-equal-after-camel-conversion",
                                                                 "validator-names-equal-after-camel-conversion")]
        chk.count()
        if "bad-op" in ra:
            viol("correspondence", "model driver rejected a CLASS/NS op", "", "", found=False)
        elif real_ident and not pred_ident:
            viol("correspondence", "identifiersDistinct: the back end rejects (generated identifiers collide), the model "
                 "finds every scope clean", "accepted", c.build.get("errors"), found=False)
        elif (not real_ident) and pred_ident and "would both be named" not in errs and "Reserved word" not in errs \
                and "namespace" not in errs and "enum_case" not in errs:
            viol("correspondence", "identifiersDistinct: the model finds a clash, the back end rejects for another reason",
                 {"clashes": pred_ident}, c.build.get("errors"), found=False)
        if real_ident:
            keys = sorted({str(clash_key(cl)) for cl in pred_ident})
            chk.nontrivial("rejected-identifier-clash:" + ",".join(keys))
            chk.extra.setdefault("rejected_identifier_clashes", {})
            for k in keys:
                chk.extra["rejected_identifier_clashes"][k] = chk.extra["rejected_identifier_clashes"].get(k, 0) + 1
            # oracle: a rejected module's header must indeed not compile (no over-rejection)
            ur = [r for r in results if r[0].startswith("unchecked")]
            if ur and all(ok for _t, ok, _l in ur):
                viol("correspondence", "the back end rejects a module (generated identifiers collide) whose header and "
                     "instantiate-everything driver compile when the check is switched off: over-rejection",
                     "accepted", c.build.get("errors"), found=False)
            elif ur:
                chk.extra["rejected_modules_confirmed_ill_formed_by_gxx"] = \
                    chk.extra.get("rejected_modules_confirmed_ill_formed_by_gxx", 0) + 1
    if c.status != "ok":
        chk.extra.setdefault("rejected", {})
        k = c.build["errors"][0][0][3][:60] if c.build.get("errors") else c.status
        k = re.sub(r"'[^']*'|\"[^\"]*\"", "…", k)
        chk.extra["rejected"][k] = chk.extra["rejected"].get(k, 0) + 1
        return
    # ---- `enable_if` tie: kAddressableUnitSize of every GenericArrayView is 8 in a struct / 1 in a bits
    # (`EnableIfs.arrayUnit`, checked against the model once per run by unit_tie; model-free here)
    if True:
        got = set()
        for h in c.build["headers"].values():
            got |= array_units(h)
        want = expected_array_units(c.build["ir_dict"])
        hdr0 = array_units(c.build["headers"][c.main])
        chk.count()
        if None in got or not got <= {1, 8} or hdr0 != want:
            viol("input", "GenericArrayView<…, kAddressableUnitSize>: the generated unit is not 8 for arrays in a struct / "
                 "1 for arrays in bits (no SizeOfBuffer() overload is enabled for any other value)", sorted(want),
                 sorted(str(x) for x in hdr0))
    # ---- literals (tie T for C07_constants_equal_front_end)
    if lit_answers is not None:
        for (kind, text, val), a in zip(c.lit_meta, lit_answers):
            chk.count()
            if kind == "eval" and a != str(val):
                viol("input", "an integer literal of the generated header is ill-formed C++ or does not denote its value",
                     val, {"literal": text, "denotes": a})
            if kind == "render" and not a.startswith(text + " = ") and not getattr(c, "render_reported", False):
                c.render_reported = True        # one report per module is enough
                viol("correspondence", "_render_integer vs Emboss.CppInt.renderInteger", a, text, found=False)
        if c.lit_unparsed:
            viol("correspondence", "integer literals not of the form _render_integer emits", 0, c.lit_unparsed, found=False)
    # ---- names: model prediction
    predicted = []
    if name_answers is not None:
        for a in name_answers:
            if a == "bad-op":
                viol("correspondence", "model driver rejected a NAMES op", "", "", found=False)
                return
            for cl in json.loads(a):
                predicted.append(tuple(cl))
    keys = {clash_key(cl) for cl in predicted}
    fails = [(t, log) for t, ok, log in results if not ok]
    oks = [t for t, ok, log in results if ok]
    chk.extra["compiles"] = chk.extra.get("compiles", 0) + len(results)
    for t, ok, log in results:
        chk.extra.setdefault("compile_matrix", {})
        k = re.sub(r"^driver:", "", t)
        chk.extra["compile_matrix"][k] = chk.extra["compile_matrix"].get(k, 0) + 1
    if predicted:
        chk.nontrivial("clash:" + ",".join(sorted(str(k) for k in keys)))
        if None in keys:
            unk = [cl for cl in predicted if clash_key(cl) is None]
            if fails:
                viol("input", "identifier clash of a class not listed as a finding: header does not compile",
                     "compiles", {"clashes": unk, "g++": first_errors(fails[0][1])})
            return
        if not fails:
            viol("correspondence", "Names.clashes predicts an identifier clash but every compile succeeded",
                 {"clashes": predicted}, oks, found=False)
            return
        for k in sorted(keys):
            viol("input", "identifier clash: generated header does not compile", "compiles",
                 {"clashes": [cl for cl in predicted if clash_key(cl) == k], "g++": first_errors(fails[0][1])}, key=k)
        return
    if fails:
        t, log = fails[0]
        viol("input", "accepted module: generated header + instantiate-everything driver does not compile (%s)" % t,
             "compiles under %s" % [x for x, _, _ in results], first_errors(log), key=c.expect_key)
        return
    st = c.stats
    chk.nontrivial("ok:v%d:f%d:a%d:e%d:p%d:c%d" % (min(st["views"], 9), min(st["fields"] // 10, 9), min(st["arrays"], 5),
                                                    min(st["enums"], 5), min(st["params"], 4), min(st["constants"], 9)))
    for k, v in st.items():
        chk.extra.setdefault("instantiated", {})
        chk.extra["instantiated"][k] = chk.extra["instantiated"].get(k, 0) + v


def run_cases(chk, cases, model_ok, tier, workers):
    """cases: list of (label, files, main, force, expect_key, pinned, all_std)."""
    prepared = []
    t0 = time.time()
    for label, files, main, force, expect_key, pinned, all_std in cases:
        c = prepare(chk, label, files, main, force, expect_key)
        c.pinned, c.all_std = pinned, all_std
        prepared.append(c)
    chk.extra["emboss_s"] = round(chk.extra.get("emboss_s", 0) + time.time() - t0, 1)
    ops, spans = [], []
    dops, dspans = [], []
    for c in prepared:
        if c.status == "ok":
            spans.append((len(ops), len(ops) + len(c.name_ops), len(ops) + len(c.name_ops) + len(c.lit_ops)))
            ops += c.name_ops + c.lit_ops
        else:
            spans.append(None)
        dspans.append((len(dops), len(dops) + len(c.distinct_ops)))
        dops += c.distinct_ops
    answers = common.Model("model_c07").ask(ops) if (model_ok and ops) else None
    danswers = common.Model("model_c07").ask(dops) if (model_ok and dops) else None
    rops, rspans = [], []
    for c in prepared:
        rspans.append((len(rops), len(rops) + len(c.reject_ops)))
        rops += c.reject_ops
    ranswers = common.Model("model_c07").ask(rops) if (model_ok and rops) else None
    for c, (a, b) in zip(prepared, rspans):
        c.reject_answers = ranswers[a:b] if ranswers is not None else None
    for c, (a, b) in zip(prepared, dspans):
        c.distinct_answers = danswers[a:b] if danswers is not None else None
    jobs, owner = [], []
    for i, c in enumerate(prepared):
        if c.status != "ok":
            if c.unchecked_driver is not None:
                jobs.append({"src_text": c.unchecked_driver, "name": "c07_%d_u" % i, "std": "c++14", "sanitize": False,
                             "opt": "-O0", "extra": ["-I" + c.outdir + "/u"], "syntax_only": True})
                owner.append((i, "unchecked:c++14:traits"))
                # ill-formed = some supported compiler rejects (g++ lets `ValueType::f()` pass when ValueType is int32_t)
                jobs.append({"src_text": c.unchecked_driver, "name": "c07_%d_uc" % i, "std": "c++14", "sanitize": False,
                             "compiler": "clang++", "opt": "-O0", "extra": ["-I" + c.outdir + "/u"], "syntax_only": True})
                owner.append((i, "unchecked:clang:c++14:traits"))
            continue
        clash_predicted, pkeys = False, set()
        if answers is not None and spans[i] is not None:
            for a in answers[spans[i][0]:spans[i][1]]:
                if a not in ("[]", "bad-op"):
                    clash_predicted = True
                    pkeys |= {clash_key(tuple(cl)) for cl in json.loads(a)}
        if clash_predicted and not c.pinned:
            # the model says the header is ill-formed: one compile decides — of the header alone when
            # every predicted clash is a redeclaration, of the driver when it shows at instantiation
            src = c.header_only if pkeys <= HEADER_ONLY_KEYS else c.driver_t
            plan = [("clash-check:c++14:traits", {"src_text": src, "name": "c07_%d_h" % i, "std": "c++14",
                                                   "sanitize": False, "opt": "-O0", "extra": ["-I" + c.outdir + "/t"],
                                                   "syntax_only": True})]
            if "structure-named-Storage-or-ValueType" in pkeys:
                # `ValueType::f()` where `ValueType` names `int32_t` is ill-formed ([basic.lookup.qual]) and clang++
                # says so; g++ skips the non-class type and finds the namespace.  Ill-formed = some compiler rejects.
                plan.append(("clash-check:clang:c++14:traits", {"src_text": src, "name": "c07_%d_hc" % i, "std": "c++14",
                                                                "compiler": "clang++", "sanitize": False, "opt": "-O0",
                                                                "extra": ["-I" + c.outdir + "/t"], "syntax_only": True}))
        else:
            plan = compile_plan(c, i, tier, c.pinned, c.all_std)
        for tag, j in plan:
            jobs.append(j)
            owner.append((i, tag))
    t0 = time.time()
    outs = cppbuild.compile_many(jobs, workers=workers) if jobs else []
    chk.extra["compile_s"] = round(chk.extra.get("compile_s", 0) + time.time() - t0, 1)
    res = {}
    for (i, tag), (b, log) in zip(owner, outs):
        res.setdefault(i, []).append((tag, b is not None, log))
    for i, c in enumerate(prepared):
        na = la = None
        if answers is not None and spans[i] is not None:
            a, b, e = spans[i]
            na, la = answers[a:b], answers[b:e]
        evaluate(chk, c, na, la, res.get(i, []))
    chk.extra["traces_validated_against_impl"] = chk.extra.get("traces_validated_against_impl", 0) + len(ops) + len(dops) + len(rops)
    return prepared


def corpus(tier, r):
    td = os.path.join(common.REPO, "testdata")
    extra = {}
    imp = os.path.join(td, "imported.emb")
    if os.path.exists(imp):
        with open(imp) as f:
            # testdata/BUILD: genrule `sed -e 's/emboss::test/emboss::test::generated/g' imported.emb`
            extra["testdata/imported_genfiles.emb"] = f.read().replace("emboss::test", "emboss::test::generated")
    names = sorted(f for f in os.listdir(td) if f.endswith(".emb"))
    if tier == "quick":
        start = common.seed() % 4
        names = [n for i, n in enumerate(names) if i % 4 == start or n in ("parameters.emb",)]
    out = [("testdata/" + n, dict(extra), "testdata/" + n, (), None, False, False) for n in names]
    cd = os.path.join(common.VERIF, "corpus", PROP)
    if os.path.isdir(cd):
        for fn in sorted(os.listdir(cd)):
            if fn.endswith(".emb"):
                with open(os.path.join(cd, fn)) as f:
                    # every -std for the 64-bit-limits module, the rotating pair for the others
                    out.append(("corpus/" + fn, {"m.emb": f.read()}, "m.emb", (), None, False, fn == "limits.emb"))
            elif fn.endswith(".d") and os.path.isdir(os.path.join(cd, fn)):
                # a multi-file case: every .emb of the directory, main module m.emb
                files = {}
                for g in sorted(os.listdir(os.path.join(cd, fn))):
                    if g.endswith(".emb"):
                        with open(os.path.join(cd, fn, g)) as f:
                            files[g] = f.read()
                out.append(("corpus/" + fn, files, "m.emb", (), None, False, False))
    return out


def prelude_tie(chk, model_ok):
    """The clauses of `Prelude.accepts` against the real front end (function-level, no g++)."""
    n = 0
    for ty, lean in (("UInt", "uint"), ("Int", "int"), ("Bcd", "bcd"), ("Flag", "flag"), ("Float", "float")):
        for bits in (0, 1, 2, 7, 8, 9, 31, 32, 33, 63, 64, 65, 72):
            txt = "bits Foo:\n  0 [+%d] %s x\n" % (bits, ty) if bits <= 64 else \
                H + "struct Foo:\n  0 [+%d] %s x\n" % (bits // 8, ty)
            if bits == 72 or bits == 0 or bits <= 64:
                ir, errs, exc = cppgen.front_end({"m.emb": txt}, "m.emb")
                real = ir is not None and not errs and exc is None
                want = {"uint": 1 <= bits <= 64, "int": 1 <= bits <= 64, "bcd": 1 <= bits <= 64, "flag": bits == 1,
                        "float": bits in (32, 64)}[lean]
                chk.count()
                n += 1
                if real != want:
                    chk.violation("correspondence" if False else "input",
                                  {"input": txt, "what": "prelude static_requirements (clauses of Prelude.accepts) vs front end",
                                   "expected": want, "observed": real})
    chk.extra["prelude_requirement_cases"] = n


# ISO/IEC 14882:2017 [lex.key]: keywords and alternative tokens (independent of the back end's list)
CPP17_KEYWORDS = """alignas alignof asm auto bool break case catch char char16_t char32_t class const constexpr
const_cast continue decltype default delete do double dynamic_cast else enum explicit export extern false float for
friend goto if inline int long mutable namespace new noexcept nullptr operator private protected public register
reinterpret_cast return short signed sizeof static static_assert static_cast struct switch template this thread_local
throw true try typedef typeid typename union unsigned using virtual void volatile wchar_t while and and_eq bitand bitor
compl not not_eq or or_eq xor xor_eq""".split()
_IDENT_RE = re.compile(r"[A-Za-z_][A-Za-z0-9_]*\Z")


def spec_namespace(text):
    """doc/cpp-reference / language-reference: the value is a C++ namespace name — identifiers separated by
    `::`, optionally starting with `::`; blanks around the separators are tolerated.  Returns the component
    list, or None when the text is not of that shape."""
    t = text.strip()
    if t.startswith("::"):
        t = t[2:]
    parts = [p.strip() for p in t.split("::")]
    if not parts or any(not _IDENT_RE.match(p) for p in parts):
        return None
    return parts


def gen_namespace_text(r):
    words = ["a", "b_2", "Abc", "_x", "x9", "emboss", "std", "Protected", "new_", "class1", "NULL_", "acme", "wire"]
    kws = CPP17_KEYWORDS + ["NULL", "restrict", "_Bool", "fortran", "concept", "requires"]
    ws = ["", "", " ", "  ", "\t", "\xa0", "\x1f", "\u2003"]
    n = r.choice([1, 1, 2, 3, 4])
    comps = [r.choice(kws) if r.random() < 0.3 else r.choice(words) for _ in range(n)]
    k = r.random()
    if k < 0.12:       # malformed shapes
        return r.choice(["", " ", "::", " :: ", "a::", "::a::", "a:::b", "a b", "a:b", "1a", "a::1", "a-b", "a.b", "a;:b",
                         "a: :b", "::::a", "a::\u00e9", "a ::", "é"]), None
    text = r.choice(ws) + (r.choice(["::", ":: ", ""]) if r.random() < 0.4 else "")
    for i, c in enumerate(comps):
        if i:
            text += r.choice(ws) + "::" + r.choice(ws)
        text += c
    text += r.choice(ws)
    return text, comps


def _fake_ns_attr(text):
    from compiler.util import ir_data, parser_types
    loc = parser_types.SourceLocation(parser_types.SourcePosition(1, 1), parser_types.SourcePosition(1, 1 + len(text)))
    return ir_data.Attribute(name=ir_data.Word(text="namespace"), back_end=ir_data.Word(text="cpp"),
                             value=ir_data.AttributeValue(string_constant=ir_data.String(text=text, source_location=loc)))


def namespace_tie(chk, model_ok, r, n):
    """Function level: `_verify_namespace_attribute` + `_get_namespace_components` on generated texts vs the
    Lean scanner (`NSV`), and both against the documented rule + the C++17 keyword list."""
    from compiler.back_end.cpp import header_generator as hg
    texts = [" ::a1 :: b_2\t::c ", "acme :: protected :: wire", " new", "::class", "a::b", "::", "", "x"]
    texts += [gen_namespace_text(r)[0] for _ in range(n)]
    ops = ["NSV " + json.dumps(t) for t in texts]
    answers = common.Model("model_c07").ask(ops) if model_ok else [None] * len(ops)
    kinds = {}
    for t, a in zip(texts, answers):
        chk.count()
        errs = []
        try:
            hg._verify_namespace_attribute(_fake_ns_attr(t), "m.emb", errs)
            comps = hg._get_namespace_components(t) if not errs else None
        except Exception as e:  # noqa: BLE001
            chk.violation("input", {"input": t, "what": "_verify_namespace_attribute raised an exception", "observed": repr(e)})
            continue
        msgs = [e[0].message for e in errs]
        real = ("ok" if not errs else "reserved" if "Reserved word" in msgs[0] else "empty" if "Empty" in msgs[0] else
                "global" if "Global" in msgs[0] else "invalid")
        kinds[real] = kinds.get(real, 0) + 1
        # spec oracle: an accepted value must be a namespace name without keywords, and the emitted
        # components must be exactly its identifiers
        sp = spec_namespace(t)
        if real == "ok":
            bad = None
            if sp is None:
                bad = "accepted although the value is not `[::]ident(::ident)*`"
            elif comps != sp:
                bad = "emitted namespace components differ from the identifiers of the value"
            elif [c for c in sp if c in CPP17_KEYWORDS]:
                bad = "a C++ keyword is accepted as a namespace component (`namespace %s {` is ill-formed)" % \
                    [c for c in sp if c in CPP17_KEYWORDS][0]
            if bad:
                chk.violation("input", {"input": '[(cpp) namespace: "%s"]\n%sstruct Foo:\n  0 [+1] UInt y\n' % (t, H),
                                        "namespace": t, "what": bad, "expected": sp, "observed": {"accepted": True, "components": comps}})
                continue
        if a is None:
            continue
        j = json.loads(a) if a != "bad-op" else {"verdict": "bad-op"}
        if j["verdict"] != real or (real == "ok" and j.get("components") != comps) or \
                (real == "reserved" and sorted(set(j.get("words", []))) != sorted(set(re.findall(r'Reserved word "(\w+)"', " ".join(msgs))))):
            chk.violation("correspondence", {"theorem_or_correspondence": "_verify_namespace_attribute/_get_namespace_components vs "
                                             "Emboss.Names.verifyNamespace", "input": t, "model": j,
                                             "observed": {"verdict": real, "components": comps, "messages": msgs}}, found_input=False)
        chk.nontrivial("ns:%s:%d:%s" % (real, len(comps or []), bool(re.search(r"\s", t))))
    chk.extra["namespace_texts"] = kinds


def spec_int_range(kind, bits):
    return (0, (1 << bits) - 1) if kind == "UInt" else (-(1 << (bits - 1)), (1 << (bits - 1)) - 1)


def op_tie(chk, model_ok, r, n):
    """Function level (front end + back end, no g++): `a OP b` over operands at the 64-bit acceptance
    boundary.  Spec: accepted ⇒ the header names a C++ integer type for the operation (the text `None` never
    appears); model: `OP` (frontAcceptsOp / opIntermediate) must agree on accept/reject and on the type."""
    widths = [(k, b) for k in ("UInt", "Int") for b in (8, 16, 31, 32, 33, 56, 63, 64)]
    cmps = ["==", "!=", "<", "<=", ">", ">="]
    cases = []
    for _ in range(n):
        ka, ba = r.choice(widths)
        kb, bb = r.choice(widths)
        if r.random() < 0.5:
            ka, ba = "UInt", 64
            kb = "Int"
        op = r.choice(cmps + cmps + ["+", "-", "*", "?:", "$max"])
        where = r.choice(["let", "let", "if", "requires"])
        cases.append((ka, ba, kb, bb, op, where))
    cases += [("UInt", 64, "Int", 8, "==", "let"), ("UInt", 64, "Int", 8, "<", "if"), ("UInt", 64, "Int", 64, "!=", "requires"),
              ("UInt", 64, "UInt", 8, "==", "let"), ("UInt", 63, "Int", 64, "<", "let"), ("Int", 64, "Int", 8, ">=", "let")]
    ops, metas = [], []
    for ka, ba, kb, bb, op, where in cases:
        ra, rb = spec_int_range(ka, ba), spec_int_range(kb, bb)
        fa = "%d [+%d] %s a" % (0, 8, ka) if ba == 64 else None
        lines = [H.rstrip("\n"), "struct Foo:"]
        off = 0
        # operand fields: byte-sized when the width allows, else inside a 64-bit `bits`
        decl = []
        for nm, k, b in (("a", ka, ba), ("b", kb, bb)):
            if b % 8 == 0:
                decl.append("  %d [+%d] %s %s" % (off, b // 8, k, nm))
                off += b // 8
            else:
                decl.append("  %d [+8] bits:\n    0 [+%d] %s %s" % (off, b, k, nm))
                off += 8
        if op in cmps:
            expr, clauses = "a %s b" % op, [ra, rb]
        elif op == "?:":
            expr = "a == 0 ? a : b"
            clauses = [(min(ra[0], rb[0]), max(ra[1], rb[1])), ra, rb]
        elif op == "$max":
            expr = "$max(a, b)"
            clauses = [(max(ra[0], rb[0]), max(ra[1], rb[1])), ra, rb]
        else:
            expr = "a %s b" % op
            if op == "+":
                res = (ra[0] + rb[0], ra[1] + rb[1])
            elif op == "-":
                res = (ra[0] - rb[1], ra[1] - rb[0])
            else:
                prods = [x * y for x in ra for y in rb]
                res = (min(prods), max(prods))
            clauses = [res, ra, rb]
        if op not in cmps:
            where = "let"
        if where == "let":
            body = decl + ["  let v = %s" % expr]
        elif where == "if":
            body = decl + ["  if %s:\n    %d [+1] UInt x" % (expr, off)]
        else:
            body = ["  [requires: %s]" % expr] + decl
        text = "\n".join(lines + body) + "\n"
        ops.append("OP " + " ".join("%d:%d" % c for c in clauses))
        metas.append((text, clauses, op, where))
    answers = common.Model("model_c07").ask(ops) if model_ok else [None] * len(ops)
    dist = {}
    for (text, clauses, op, where), a in zip(metas, answers):
        chk.count()
        b = cppgen.build_headers({"m.emb": text}, "m.emb")
        st = b["status"]
        if st in ("front-crash", "back-crash"):
            if st == "back-crash":
                chk.violation("input", {"input": text, "what": "accepted by the front end, the C++ back end raised an exception",
                                        "observed": repr(b.get("exc"))})
            continue
        accepted = st == "ok"
        dist["%s:%s" % ("accepted" if accepted else "rejected", "cmp" if op in ("==", "!=", "<", "<=", ">", ">=") else op)] = \
            dist.get("%s:%s" % ("accepted" if accepted else "rejected", "cmp" if op in ("==", "!=", "<", "<=", ">", ">=") else op), 0) + 1
        if accepted:
            hdr = b["headers"]["m.emb"]
            if re.search(r"</\*\*/\s*None\b", hdr):
                chk.violation("input", {"input": text, "files": {"m.emb": text}, "main": "m.emb",
                                        "what": "accepted module: the header passes the Python value `None` as a C++ type "
                                                "(no 64-bit integer type holds all operands of `%s`)" % op,
                                        "expected": "rejected by the front end, or a header naming an integer type",
                                        "observed": re.findall(r"::emboss::support::\w+</\*\*/\s*None[^(]*", hdr)[:2]})
                continue
        if a is None:
            continue
        m_acc, m_ty = a.split(" ")
        # the model speaks about the outermost node only; inner nodes (`a == 0` of ?:) never mix here
        errs = json.dumps(b.get("errors") or [])
        real_mixed_reject = (not accepted) and "must fit in a 64-bit" in errs or (not accepted and "cannot fit" in errs) \
            or (not accepted and "unbounded" in errs)
        if accepted != (m_acc == "accept") and (accepted or real_mixed_reject):
            chk.violation("correspondence", {"theorem_or_correspondence": "_integer_bounds_errors_for_expression vs frontAcceptsOp",
                                             "input": text, "model": a, "observed": {"status": st, "errors": b.get("errors")}},
                          found_input=False)
        elif accepted:
            want = "::std::%s_t" % m_ty
            fn = {"==": "Equal", "!=": "NotEqual", "<": "LessThan", "<=": "LessThanOrEqual", ">": "GreaterThan",
                  ">=": "GreaterThanOrEqual", "+": "Sum", "-": "Difference", "*": "Product", "?:": "Choice", "$max": "Maximum"}[op]
            got = re.findall(r"::emboss::support::%s</\*\*/\s*([\w:]+)" % fn, b["headers"]["m.emb"])
            if op == "?:":
                got = got[:]          # Choice only (the inner Equal has its own type)
            if got and want not in got:
                chk.violation("correspondence", {"theorem_or_correspondence": "_render_builtin_operation IntermediateT vs opIntermediate",
                                                 "input": text, "model": a, "observed": got}, found_input=False)
        chk.nontrivial("op:%s:%s:%s" % (op, where, "acc" if accepted else "rej"))
    chk.extra["operation_boundary_cases"] = dist


def unit_tie(chk, model_ok):
    """`EnableIfs.arrayUnit` / `sizeOverloads` (op UNIT) against the documented units: a struct is byte-addressed
    (SizeInBytes), a bits bit-addressed (SizeInBits)."""
    if not model_ok:
        return
    a = common.Model("model_c07").ask(["UNIT 0", "UNIT 1"])
    chk.count(2)
    if a != ["8 true false", "1 false true"]:
        chk.violation("correspondence", {"theorem_or_correspondence": "EnableIfs.arrayUnit/sizeOverloads vs documented units",
                                         "model": a, "observed": ["8 true false", "1 false true"]}, found_input=False)


def search(chk):
    """Model-free: real compiler + g++ on corpus and generated modules."""
    before = len(chk.violations)
    r = common.rng("C07-search")
    namespace_tie(chk, False, r, 150)
    op_tie(chk, False, r, 40)
    cases = corpus("quick", r)
    for i in range(8):
        files, main, info = embgen07.gen(r, 0.0)
        cases.append(("search%d" % i, files, main, (), None, False, True))
    run_cases(chk, cases, False, "quick", 6)
    return len(chk.violations) - before


def run(tier):
    """A bug in this harness is an infrastructure failure (exit 2), never a pass or a violation."""
    import subprocess
    import traceback
    try:
        return _run(tier)
    except (common.InfraError, subprocess.TimeoutExpired):
        raise
    except Exception:  # noqa: BLE001
        raise common.InfraError("harness exception:\n" + traceback.format_exc())


def _run(tier):
    chk = common.Check(PROP, tier, exes=["model_c07"])
    chk.cov["rule"] = ("one evaluation = one module compiled by the real compiler, one literal, or one prelude clause; "
                       "non-trivial = distinct by shape of what the driver instantiated (views, fields, arrays, enums, "
                       "parameters, constants) or by predicted clash class")
    chk.trusted += ["g++ (and clang++ in the thorough tier) as the oracle for C++ well-formedness",
                    "harness/lib/instdrv.py: uses only the API documented in doc/cpp-reference.md",
                    "harness/translate/static_asserts.py (extraction of static_assert conditions)"]
    items, changed = static_asserts.regenerate()
    chk.extra["static_asserts_extracted"] = len(items)
    chk.extra["static_asserts_table_changed"] = changed
    words, eifs, changed2 = cpp_tables.regenerate()
    chk.extra["reserved_words_extracted"] = len(words)
    chk.extra["enable_ifs_extracted"] = len(eifs)
    chk.extra["cpp_tables_changed"] = changed2
    model_ok = common.proof_gate(chk, search)
    r = common.rng("C07")
    quick = tier == "quick"
    workers = 6 if quick else 8
    prelude_tie(chk, model_ok)
    unit_tie(chk, model_ok)
    namespace_tie(chk, model_ok, r, 150 if quick else 2000)
    op_tie(chk, model_ok, r, 40 if quick else 400)
    cases = corpus(tier, r)
    for key, what, text, force in FINDINGS:
        # pinned inputs of the open findings: no steering (force every known defect on)
        cases.append(("pinned:" + key, text if isinstance(text, dict) else {"m.emb": text}, "m.emb",
                      ("equals", "text-out", "bits-iter", "text-in"), key, True, False))
    n_gen, n_risky = (6, 6) if quick else (60, 60)
    feats = {}
    for i in range(n_gen):
        files, main, info = embgen07.gen(r, 0.0)
        for k, v in info["features"].items():
            feats[k] = feats.get(k, 0) + v
        cases.append(("gen%d" % i, files, main, (), None, False, i < 1))
    for i in range(n_risky):
        files, main, info = embgen07.gen(r, r.choice([0.05, 0.15, 0.3]))
        for k, v in info["features"].items():
            feats[k] = feats.get(k, 0) + v
        cases.append(("risky%d" % i, files, main, (), None, False, False))
    chk.extra["generator"] = {"plain_modules": n_gen, "risky_name_modules": n_risky, "features": feats,
                              "corpus_modules": len(cases) - n_gen - n_risky - len(FINDINGS), "pinned": len(FINDINGS)}
    prepared = run_cases(chk, cases, model_ok, tier, workers)
    for c in prepared:
        if c.label.startswith("gen") and c.status == "ok":
            chk.sample({"emb": c.files["m.emb"][:500], "instantiated": c.stats}, limit=2)
    if not chk.cov["samples"]:
        for c in prepared:
            if c.status == "ok":
                chk.sample({"module": c.label, "instantiated": getattr(c, "stats", None)})
                break
    accepted = sum(1 for c in prepared if c.status == "ok")
    chk.cov["programs"] = accepted
    chk.cov["disagreements_checked"] = len(chk.violations) + len(chk.known_printed)
    return chk.finish(level="translation_validation")


def replay(path):
    rec = json.load(open(path))
    files = rec.get("files") or {"m.emb": rec["input"]}
    main = rec.get("main", "m.emb")
    chk = common.Check(PROP, "quick", exes=["model_c07"])
    chk.known = []
    run_cases(chk, [("replay", files, main, tuple(rec.get("force", [])), None, False, True)], True, "quick", 3)
    print("what:", rec.get("what"))
    print("violations on replay:", len(chk.violations))
    for k, p in chk.violations:
        print(open(os.path.join(common.VERIF, p)).read()[:3000])
    return 1 if chk.violations else 0
