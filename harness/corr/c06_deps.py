"""C06: "fields are emitted after the fields they depend on", judged from the module's source.

The dependency relation is computed here, by an independent walker over the JSON form of the
parsed module (the field references that occur in a field's location, size, existence condition,
type arguments and `let` expression; attributes excluded), closed transitively — in particular
through virtual fields, which hold no data of their own: a physical field located through
`let off = n * 2` depends on `n`.  The compiler's own `fields_in_dependency_order` is never
consulted.  `check_text(...)` walks a parsed text (c06_txt.parse_text) along the types and
reports every name that stands before a name it depends on, at every struct level.
"""


def _refs(x, acc):
    if isinstance(x, dict):
        p = x.get("path")
        if isinstance(p, list) and p and isinstance(p[0], dict) and "canonical_name" in p[0]:
            acc.add(tuple(p[0]["canonical_name"]["object_path"]))
        for k, v in x.items():
            if k != "attribute":
                _refs(v, acc)
    elif isinstance(x, list):
        for v in x:
            _refs(v, acc)


def _type_target(ty):
    """('struct', key) for a field of structure type, ('array', inner) for arrays, None otherwise."""
    if not isinstance(ty, dict):
        return None
    if "array_type" in ty:
        inner = _type_target(ty["array_type"].get("base_type"))
        return ("array", inner)
    if "atomic_type" in ty:
        ref = ty["atomic_type"].get("reference", {}).get("canonical_name")
        if ref:
            return ("type", (ref.get("module_file", ""), tuple(ref["object_path"])))
    return None


def module_table(ir_dict):
    """{(module_file, object_path): {"names": [field names in source order],
                                     "deps": {name: set(names, transitive)},
                                     "types": {name: target}}} for every structure of every module."""
    out = {}

    def walk(types):
        for t in types:
            if "structure" in t:
                cn = t["name"]["canonical_name"]
                key = (cn.get("module_file", ""), tuple(cn["object_path"]))
                path = tuple(cn["object_path"])
                names, direct, types_of = [], {}, {}
                for f in t["structure"].get("field", []):
                    nm = f["name"]["name"]["text"]
                    names.append(nm)
                    acc = set()
                    _refs(f, acc)
                    direct[nm] = {r[-1] for r in acc if r[:-1] == path and len(r) == len(path) + 1}
                    types_of[nm] = _type_target(f.get("type"))
                deps = {}
                for nm in names:
                    seen, todo = set(), list(direct[nm])
                    while todo:
                        d = todo.pop()
                        if d in seen:
                            continue
                        seen.add(d)
                        todo.extend(direct.get(d, ()))
                    deps[nm] = seen
                out[key] = {"names": names, "deps": deps, "types": types_of, "direct": direct}
            walk(t.get("subtype", []))
    for m in ir_dict.get("module", []):
        walk(m.get("type", []))
    return out


def find_struct(table, name):
    """Key of the top-level structure called `name` in the main module (first match)."""
    for key in table:
        if key[1] == (name,):
            return key
    return None


def check_text(table, key, parsed, where, problems, stats=None):
    """parsed: ('struct', [(name, value)]) | ('array', [(idx, value)]) | ('tok', t) | ('empty',)."""
    if key not in table or parsed is None:
        return
    if parsed[0] != "struct":
        return
    info = table[key]
    names = [n for n, _ in parsed[1]]
    present = set(names)
    seen = set()
    for n in names:
        for d in sorted(info["deps"].get(n, ())):
            if d in present and d not in seen:
                problems.append("ORDER(source): %s: field %s is written before %s, which it depends on%s" % (
                    where or "top level", n, d,
                    "" if d in info["direct"].get(n, ()) else " (through a virtual field)"))
        if stats is not None and info["deps"].get(n):
            stats["order_checks_with_dependencies"] = stats.get("order_checks_with_dependencies", 0) + 1
            if any(d not in info["direct"].get(n, ()) for d in info["deps"][n] if d in present):
                stats["order_checks_through_virtual"] = stats.get("order_checks_through_virtual", 0) + 1
        seen.add(n)
    for n, v in parsed[1]:
        _descend(table, info["types"].get(n), v, "%s.%s" % (where, n) if where else n, problems, stats)


def _descend(table, target, value, where, problems, stats):
    if target is None or value is None:
        return
    if target[0] == "array":
        if value[0] == "array":
            for i, x in value[1]:
                _descend(table, target[1], x, "%s[%d]" % (where, i), problems, stats)
        return
    if target[0] == "type":
        check_text(table, target[1], value, where, problems, stats)
