"""Type-directed generator of well-typed .emb modules + single-rule mutation catalogue (C13).

The generator keeps the *intended* type of every expression it writes; that knowledge (not
the compiler, not the Lean model) is the spec oracle: a module from `gen_valid` follows the
documented operator signatures and positional requirements, a module from `mutate` breaks
exactly one documented rule on one known line.

Expressions are tuples:
  ("num", v) ("bool", b) ("enum", E, name) ("ref", text, ty) ("bin", op, a, b)
  ("neg", a) ("choice", c, t, f) ("fn", name, [args])
types: "int", "bool", ("enum", name), "opaque".
Rendering parenthesises every compound operand, so precedence / chaining rules of the
grammar never interfere.
"""

MAX_ARITIES = [1, 1, 2, 2, 3, 3, 5, 8, 9, 10, 13, 17, 20, 24]
ARITH = ["+", "-", "*"]
ORD = ["<", "<=", ">", ">="]
EQ = ["==", "!="]
LOGIC = ["&&", "||"]


def render(e):
    k = e[0]
    if k == "num":
        return str(e[1]) if e[1] >= 0 else "(%d)" % e[1]
    if k == "bool":
        return "true" if e[1] else "false"
    if k == "enum":
        return "%s.%s" % (e[1], e[2])
    if k == "ref":
        return e[1]
    if k == "raw":
        return e[1]
    if k == "bin":
        return "%s %s %s" % (atom(e[2]), e[1], atom(e[3]))
    if k == "neg":
        return "-%s" % atom(e[1])
    if k == "choice":
        return "%s ? %s : %s" % (atom(e[1]), atom(e[2]), atom(e[3]))
    if k == "fn":
        return "%s(%s)" % (e[1], ", ".join(render(a) for a in e[2]))
    raise ValueError(k)


def atom(e):
    if e[0] in ("bin", "neg", "choice"):
        return "(" + render(e) + ")"
    return render(e)


def depth(e):
    k = e[0]
    if k == "bin":
        return 1 + max(depth(e[2]), depth(e[3]))
    if k == "neg":
        return 1 + depth(e[1])
    if k == "choice":
        return 1 + max(depth(e[1]), depth(e[2]), depth(e[3]))
    if k == "fn":
        return 1 + max([depth(a) for a in e[2]] + [0])
    return 0


def ops_of(e, acc):
    k = e[0]
    if k == "bin":
        acc[e[1]] = acc.get(e[1], 0) + 1
        ops_of(e[2], acc), ops_of(e[3], acc)
    elif k == "neg":
        acc["neg"] = acc.get("neg", 0) + 1
        ops_of(e[1], acc)
    elif k == "choice":
        acc["?:"] = acc.get("?:", 0) + 1
        for x in e[1:]:
            ops_of(x, acc)
    elif k == "fn":
        acc[e[1]] = acc.get(e[1], 0) + 1
        for x in e[2]:
            ops_of(x, acc)
    return acc


def has_nonint_sub(e, ty):
    """Does an (integer) expression contain a syntactic sub-expression that is not an
    integer?  (predicate of the open finding about array lengths)"""
    k = e[0]
    if k in ("bool",):
        return True
    if k == "enum":
        return True
    if k == "ref":
        return e[2] != "int"
    if k == "bin":
        if e[1] in ORD + EQ + LOGIC:
            return True
        return has_nonint_sub(e[2], "int") or has_nonint_sub(e[3], "int")
    if k == "neg":
        return has_nonint_sub(e[1], "int")
    if k == "choice":
        return True   # the condition is a boolean
    if k == "fn":
        if e[1] == "$present":
            return True
        return any(has_nonint_sub(a, "int") for a in e[2])
    return False


def is_closed(e):
    k = e[0]
    if k == "ref":
        return False
    if k == "bin":
        return is_closed(e[2]) and is_closed(e[3])
    if k == "neg":
        return is_closed(e[1])
    if k == "choice":
        return all(is_closed(x) for x in e[1:])
    if k == "fn":
        return all(is_closed(x) for x in e[2])
    return True


def cv(e):
    """What ir_util.constant_value would return (None = unknown), for the steering
    predicate below; enum constants are opaque tokens."""
    k = e[0]
    if k == "num":
        return e[1]
    if k == "bool":
        return e[1]
    if k == "enum":
        return ("enum", e[1], e[2])
    if k == "ref":
        # local references are unknown; `Type.field` static references fold (treated as known)
        return 0 if "." in e[1] and e[1][0].isupper() else None
    if k == "neg":
        v = cv(e[1])
        return None if v is None else -v
    if k == "choice":
        c = cv(e[1])
        if c is None:
            return None
        return cv(e[2]) if c else cv(e[3])
    if k == "fn":
        vs = [cv(a) for a in e[2]]
        if any(v is None for v in vs):
            return None
        if e[1] == "$max":
            return max(vs) if vs else None
        return ("bound",)
    if k == "bin":
        a, b = cv(e[2]), cv(e[3])
        if e[1] == "&&":
            if a is False or b is False:
                return False
            return None if a is None or b is None else True
        if e[1] == "||":
            if a is True or b is True:
                return True
            return None if a is None or b is None else False
        if a is None or b is None:
            return None
        try:
            return {"+": lambda: a + b, "-": lambda: a - b, "*": lambda: a * b, "==": lambda: a == b,
                    "!=": lambda: a != b, "<": lambda: a < b, "<=": lambda: a <= b, ">": lambda: a > b,
                    ">=": lambda: a >= b}[e[1]]()
        except TypeError:
            return 0
    return None


def has_const_bound(e):
    """$upper_bound / $lower_bound applied to a closed argument (predicate of the open
    finding crash:ir_util.py:_constant_value_of_function:KeyError)."""
    k = e[0]
    if k == "fn":
        if e[1] in ("$upper_bound", "$lower_bound") and all(cv(a) is not None for a in e[2]):
            return True
        return any(has_const_bound(a) for a in e[2])
    if k == "bin":
        return has_const_bound(e[2]) or has_const_bound(e[3])
    if k == "neg":
        return has_const_bound(e[1])
    if k == "choice":
        return any(has_const_bound(x) for x in e[1:])
    return False


class Env:
    """Names usable in expressions of one structure, by type."""

    def __init__(self):
        self.by_ty = {}      # ty -> [text]
        self.fields = []     # texts usable in $present (any type)
        self.params = []     # runtime parameters: referred to like fields, but not fields
        self.enums = {}      # canonical enum name -> [value names] (only enums nameable in this module)
        self.alias = {}      # canonical enum name -> how this module spells it (`Ea`, `oth.Ea`)

    def add(self, text, ty, field=True):
        self.by_ty.setdefault(ty, []).append(text)
        if field:
            self.fields.append((text, ty))
        elif text != "this":
            self.params.append((text, ty))

    def copy(self):
        e = Env()
        e.by_ty = {k: list(v) for k, v in self.by_ty.items()}
        e.fields = list(self.fields)
        e.params = list(self.params)
        e.enums = self.enums
        e.alias = self.alias
        return e

    def spell(self, canon):
        return self.alias.get(canon, canon)

    def enum_types(self):
        """enum types an expression can be built for: nameable ones and those some field has."""
        ts = [("enum", n) for n in self.enums]
        for t in self.by_ty:
            if isinstance(t, tuple) and t not in ts and self.by_ty[t]:
                ts.append(t)
        return ts

    def other_enum(self, r, ty, prefer_same_name=0.6):
        """an enum type different from ty; preferably one with the same name in another module."""
        cands = [t for t in self.enum_types() if t != ty]
        if not cands:
            return None
        same = [t for t in cands if ty is not None and isinstance(ty, tuple) and base(t[1]) == base(ty[1])]
        if same and r.random() < prefer_same_name:
            return r.choice(same)
        return r.choice(cands)

    def two_enums(self, r):
        ts = self.enum_types()
        a = r.choice(ts)
        return a, self.other_enum(r, a)


def base(canon):
    return canon.split("/")[-1]


class ExprGen:
    def __init__(self, r, env, closed=False, const_bounds=True):
        self.r, self.env, self.closed = r, env, closed
        # $upper_bound/$lower_bound of a closed argument used to crash ir_util.constant_value
        # (repaired by 262d011): they are generated everywhere now
        self.const_bounds = const_bounds

    def bound_arg(self, d):
        a = self.gen("int", d)
        if self.const_bounds or cv(a) is None:
            return a
        names = [] if self.closed else self.env.by_ty.get("int", [])
        if names:
            return ("bin", "+", ("ref", self.r.choice(names), "int"), a)
        return None

    def leaf(self, ty):
        r = self.r
        names = [] if self.closed else self.env.by_ty.get(ty, [])
        if names and r.random() < 0.6:
            # references to virtual fields are inlined by the model's input: keep chains short
            plain = [n for n in names if not n.startswith("v")]
            if plain and r.random() < 0.8:
                return ("ref", r.choice(plain), ty)
            return ("ref", r.choice(names), ty)
        if ty == "int":
            return ("num", r.choice([0, 1, 2, 3, 4, 5, 7, 8, 9, 10, 100]))
        if ty == "bool":
            return ("bool", r.random() < 0.5)
        if isinstance(ty, tuple):
            if ty[1] in self.env.enums:
                return ("enum", self.env.spell(ty[1]), r.choice(self.env.enums[ty[1]]))
            if names:
                return ("ref", r.choice(names), ty)     # an enum this module cannot name: only via fields
        raise ValueError(ty)

    def gen(self, ty, d):
        r = self.r
        if d <= 0 or r.random() < 0.12:
            return self.leaf(ty)
        if ty == "int":
            c = r.random()
            if c < 0.45:
                return ("bin", r.choice(ARITH), self.gen("int", d - 1), self.gen("int", d - 1))
            if c < 0.55:
                return ("neg", self.gen("int", d - 1))
            if c < 0.70:
                return ("choice", self.gen("bool", d - 1), self.gen("int", d - 1), self.gen("int", d - 1))
            if c < 0.82:
                n = r.choice(MAX_ARITIES)
                # arities well beyond the usual: long calls get shallow arguments (size, not depth)
                return ("fn", "$max", [self.gen("int", d - 1 if n <= 3 else min(d - 1, 1) if n <= 8 else 0)
                                       for _ in range(n)])
            a = self.bound_arg(d - 1)
            if a is None:
                return ("fn", "$max", [self.gen("int", d - 1)])
            return ("fn", "$upper_bound" if c < 0.91 else "$lower_bound", [a])
        if ty == "bool":
            c = r.random()
            if c < 0.25:
                return ("bin", r.choice(LOGIC), self.gen("bool", d - 1), self.gen("bool", d - 1))
            if c < 0.50:
                return ("bin", r.choice(ORD), self.gen("int", d - 1), self.gen("int", d - 1))
            if c < 0.75:
                t = r.choice(["int", "int", "bool"] + [t for t in self.env.enum_types()
                                                      if not self.closed or t[1] in self.env.enums])
                return ("bin", r.choice(EQ), self.gen(t, d - 1), self.gen(t, d - 1))
            if c < 0.87:
                return ("choice", self.gen("bool", d - 1), self.gen("bool", d - 1), self.gen("bool", d - 1))
            if self.env.fields and not self.closed:
                return ("fn", "$present", [("ref", r.choice(self.env.fields)[0], "any")])
            return ("bin", r.choice(EQ), self.gen("int", d - 1), self.gen("int", d - 1))
        if isinstance(ty, tuple):
            if r.random() < 0.7:
                return ("choice", self.gen("bool", d - 1), self.gen(ty, d - 1), self.gen(ty, d - 1))
            return self.leaf(ty)
        raise ValueError(ty)

    def int_with_value(self, v, d):
        """Closed integer expression that evaluates to v (for sizes, enum values, integer
        attributes), built from every integer operator."""
        r = self.r
        if d <= 0 or r.random() < 0.2:
            return ("num", v)
        c = r.choice(["+", "-", "*", "max", "choice", "neg"] + (["ub", "lb"] if self.const_bounds else []))
        if c == "+":
            a = r.randint(0, max(v, 0)) if v >= 0 else r.randint(v, 0)
            return ("bin", "+", self.int_with_value(a, d - 1), self.int_with_value(v - a, d - 1))
        if c == "-":
            b = r.randint(0, 5)
            return ("bin", "-", self.int_with_value(v + b, d - 1), self.int_with_value(b, d - 1))
        if c == "*":
            fs = [f for f in (1, 2, 3, 4, 8) if v % f == 0] or [1]
            f = r.choice(fs)
            return ("bin", "*", self.int_with_value(v // f, d - 1), self.int_with_value(f, d - 1))
        if c == "max":
            lo = [self.int_with_value(v - r.randint(0, 3), d - 1) for _ in range(r.randint(0, 2))]
            args = lo + [self.int_with_value(v, d - 1)]
            r.shuffle(args)
            return ("fn", "$max", args)
        if c == "choice":
            g = ExprGen(r, self.env, closed=True, const_bounds=self.const_bounds)
            return ("choice", g.gen("bool", min(d - 1, 2)), self.int_with_value(v, d - 1), self.int_with_value(v, d - 1))
        if c == "neg":
            return ("neg", self.int_with_value(-v, d - 1))
        if c == "ub":
            return ("fn", "$upper_bound", [self.int_with_value(v, d - 1)])
        return ("fn", "$lower_bound", [self.int_with_value(v, d - 1)])


class Module:
    """Lines + sites.  A site = (line index, position kind, expression, demanded type, env)."""

    def __init__(self):
        self.lines = []
        self.sites = []
        self.meta = {}
        self.file = "m.emb"

    def add(self, text, sites=()):
        """text contains {0}, {1}... placeholders for the sites' expressions."""
        idx = len(self.lines)
        self.lines.append([text, [s[1] for s in sites]])
        for j, (pos, e, ty, env) in enumerate(sites):
            self.sites.append({"line": idx, "slot": j, "pos": pos, "expr": e, "ty": ty, "env": env})
        return idx

    def text(self):
        return "".join(t.format(*[render(e) for e in es]) + "\n" for t, es in self.lines)

    def set_expr(self, site, e):
        self.lines[site["line"]][1][site["slot"]] = e


class Lib:
    """What an importer can see of a generated library module."""

    def __init__(self, fname):
        self.fname = fname
        self.enums = {}       # canonical -> values
        self.local = {}       # canonical -> local spelling inside the library
        self.consts = []      # (suffix after `alias.`, canonical type): static references to constant `let`s
        self.holder = []      # (field name, canonical type) of struct Holder
        self.phys = "Holder.n"
        self.par_enum = None  # canonical type of Par's second parameter


def gen_lib(r, fname, maxdepth=3, sub=None):
    """A library module: enums *with the same names as the importer's* (`Ea`), a parameterised
    struct `Par`, constants, and a struct `Holder`.  sub = (alias, Lib) imported by the library."""
    m = Module()
    m.file = fname
    lib = Lib(fname)
    d = r.randint(1, maxdepth)
    ea, ec = fname + "/Ea", fname + "/Ec"
    lib.enums = {ea: ["AA", "ZZ", "QQ"], ec: ["MM", "NN"]}
    lib.local = {ea: "Ea", ec: "Ec"}
    env0 = Env()
    env0.enums = dict(lib.enums)
    env0.alias = dict(lib.local)
    if sub:
        alias, sl = sub
        m.add('import "%s" as %s' % (sl.fname, alias))
        for c, vs in sl.enums.items():
            env0.enums[c] = vs
            env0.alias[c] = alias + "." + sl.local[c]
    m.add('[$default byte_order: "LittleEndian"]')
    gvalue = ExprGen(r, Env(), closed=True)
    for c, spelled in (ea, "Ea"), (ec, "Ec"):
        m.add("enum %s:" % spelled)
        for v in lib.enums[c]:
            m.add("  %s = {0}" % v, [("enum-value", gvalue.int_with_value(r.randint(0, 200), r.randint(0, d)), "int", env0)])
    gclosed = ExprGen(r, env0, closed=True)
    penv = env0.copy()
    penv.add("pa", "int", field=False)
    penv.add("pe", ("enum", ea), field=False)
    m.add("struct Par(pa: UInt:8, pe: Ea):")
    m.add("  0 [+1]  UInt  q")
    penv.add("q", "int")
    m.add("  let k = {0}", [("let", ExprGen(r, penv).gen("int", d), "int", penv)])
    m.add("  if {0}:", [("if", ExprGen(r, penv).gen("bool", d), "bool", penv)])
    m.add("    1 [+1]  UInt  rr")
    lib.par_enum = ("enum", ea)
    m.add("struct Cst:")
    m.add("  let c0 = {0}", [("let", gclosed.int_with_value(r.randint(0, 9), min(d, 2)), "int", env0)])
    m.add("  let e0 = {0}", [("let", gclosed.gen(("enum", ea), 1), ("enum", ea), env0)])
    m.add("  let b0 = {0}", [("let", gclosed.gen("bool", min(d, 2)), "bool", env0)])
    lib.consts = [("Cst.c0", "int"), ("Cst.e0", ("enum", ea)), ("Cst.b0", "bool")]
    henv = env0.copy()
    m.add("struct Holder:")
    m.add("  0 [+1]  Ea  kind")
    m.add("  1 [+1]  UInt  n")
    m.add("  2 [+1]  Ec  ck")
    lib.holder = [("kind", ("enum", ea)), ("n", "int"), ("ck", ("enum", ec))]
    if sub:
        alias, sl = sub
        c = sorted(sl.enums)[0]
        m.add("  3 [+1]  %s.%s  tk" % (alias, sl.local[c]))
        lib.holder.append(("tk", ("enum", c)))
    for nm, ty in lib.holder:
        henv.add(nm, ty)
    g = ExprGen(r, henv)
    m.add("  let dv = {0}", [("let", g.gen("int", d), "int", henv.copy())])
    m.add("  let de = {0}", [("let", g.gen(("enum", ea), min(d, 2)), ("enum", ea), henv.copy())])
    lib.holder += [("dv", "int"), ("de", ("enum", ea))]
    m.add("  if {0}:", [("if", g.gen("bool", d), "bool", henv.copy())])
    m.add("    4 [+1]  UInt  opt")
    m.meta["depth"] = d
    m.meta["opaque"] = []
    return m, lib


def gen_valid(r, maxdepth=6, n_items=10, signed_literal=True, imports=()):
    """A well-typed module.  imports: [(alias, Lib)].  Returns Module."""
    m = Module()
    env0 = Env()
    enums = {"Ea": ["AA", "BB", "CC"], "Eb": ["XX", "YY"]}
    env0.enums = dict(enums)
    env0.alias = {"Ea": "Ea", "Eb": "Eb"}
    for alias, lib in imports:
        m.add('import "%s" as %s' % (lib.fname, alias))
        for c, vs in lib.enums.items():
            env0.enums[c] = vs
            env0.alias[c] = alias + "." + lib.local[c]
    gclosed = ExprGen(r, env0, closed=True)
    env_noenum = Env()
    gvalue = ExprGen(r, env_noenum, closed=True)
    d = r.randint(1, maxdepth)
    m.add('[$default byte_order: "LittleEndian"]')
    if r.random() < 0.3:
        m.add('[expected_back_ends: "cpp"]')
    # enums: values are closed integer expressions
    for en, vals in enums.items():
        m.add("enum %s:" % en)
        if r.random() < 0.5:
            m.add("  [maximum_bits: {0}]", [("attr-int", gvalue.int_with_value(r.choice([16, 32, 64]), r.randint(0, d)), "int", env0)])
        if r.random() < 0.4:
            if signed_literal:
                m.add("  [is_signed: %s]" % r.choice(["true", "false"]))
            else:
                m.add("  [is_signed: {0}]", [("attr-boolconst", gvalue.gen("bool", 2), "bool", env0)])
        for i, v in enumerate(vals):
            m.add("  %s = {0}" % v, [("enum-value", gvalue.int_with_value(r.randint(0, 200), r.randint(0, d)), "int", env0)])
    # an external, for the builtins and the boolean-constant / integer-constant attributes
    if r.random() < 0.5:
        m.add("external Ext:")
        m.add("  [addressable_unit_size: {0}]", [("attr-int", gclosed.int_with_value(8, r.randint(0, 2)), "int", env0)])
        m.add("  [is_integer: %s]" % r.choice(["true", "false"]))
        cmpop = r.choice(ORD + EQ)
        m.add("  [static_requirements: $is_statically_sized && ($static_size_in_bits %s ({0}))]" % cmpop,
              [("attr-bool", gclosed.int_with_value(r.choice([8, 16, 32]), r.randint(0, 2)), "int", env0)])
    # a fixed-size struct with [fixed_size_in_bits]
    m.add("struct Fx:")
    m.add("  [fixed_size_in_bits: {0}]", [("attr-int", gclosed.int_with_value(16, r.randint(0, d)), "int", env0)])
    m.add("  0 [+2]  UInt  z")
    # parameterised struct
    penv = env0.copy()
    penv.add("pa", "int", field=False)
    penv.add("pe", ("enum", "Ea"), field=False)
    m.add("struct Par(pa: UInt:8, pe: Ea):")
    m.add("  0 [+1]  UInt  q")
    penv.add("q", "int")
    g = ExprGen(r, penv)
    m.add("  let k = {0}", [("let", g.gen("int", d), "int", penv)])
    m.add("  if {0}:", [("if", g.gen("bool", d), "bool", penv)])
    m.add("    1 [+1]  UInt  rr")
    # main struct
    env = env0.copy()
    has_param = r.random() < 0.6
    hdr = "struct Main(mp: UInt:8, me: Eb"
    if has_param:
        env.add("mp", "int", field=False)
        env.add("me", ("enum", "Eb"), field=False)
        for j, (alias, lib) in enumerate(imports):
            if r.random() < 0.7:
                c = lib.par_enum[1]
                hdr += ", mo%d: %s" % (j, env0.spell(c))
                env.add("mo%d" % j, ("enum", c), field=False)
    m.add(hdr + "):" if has_param else "struct Main:")
    m.add("  0 [+1]  bits:")
    m.add("    0 [+1]  Flag  fa")
    m.add("    1 [+1]  Flag  fb")
    m.add("    2 [+3]  UInt  sm")
    m.add("  1 [+1]  UInt  x")
    m.add("  2 [+1]  Int   y")
    m.add("  3 [+1]  Ea    ea")
    m.add("  4 [+1]  Eb    eb")
    m.add("  5 [+2]  UInt:8[2]  arr")
    m.add("  6 [+2]  Par(1, Ea.AA)  sub")
    for nm, ty in [("fa", "bool"), ("fb", "bool"), ("sm", "int"), ("x", "int"), ("y", "int"),
                   ("ea", ("enum", "Ea")), ("eb", ("enum", "Eb")), ("sub.q", "int"), ("sub.k", "int")]:
        env.add(nm, ty)
    env.fields.append(("arr", "opaque"))
    env.fields.append(("sub", "opaque"))
    m.meta["opaque"] = ["arr", "sub"]
    off = 8
    # what the imported modules contribute: a Holder field (its members, virtual ones included,
    # are defined in the other file), fields of the imported enums, static references to its constants
    for j, (alias, lib) in enumerate(imports):
        hn = "oh%d" % j
        m.add("  %d [+5]  %s.Holder  %s" % (off, alias, hn))
        off += 5
        env.fields.append((hn, "opaque"))
        m.meta["opaque"].append(hn)
        for fnm, ty in lib.holder:
            env.add("%s.%s" % (hn, fnm), ty)
        for c in sorted(lib.enums):
            fn_ = "oe%d%s" % (j, lib.local[c][-1].lower())
            m.add("  %d [+1]  %s  %s" % (off, env0.spell(c), fn_))
            off += 1
            env.add(fn_, ("enum", c))
        for suffix, ty in lib.consts:
            # static references are closed: usable in constant positions as well
            env.by_ty.setdefault(ty, []).append("%s.%s" % (alias, suffix))
    # inline (nested) types: expressions inside `Main.Inl`, its nested `bits`, and an inline enum —
    # the traversals of all three passes have to descend into subtypes
    if r.random() < 0.6:
        ienv = env0.copy()
        ienv.by_ty, ienv.fields = {}, []
        ienv.add("ia", "int")
        gi = ExprGen(r, ienv)
        di = min(d, 3)
        m.add("  %d [+3]  struct  inl:" % off)
        m.add("    0 [+1]  UInt  ia")
        m.add("    if {0}:", [("if", gi.gen("bool", di), "bool", ienv.copy())])
        m.add("      1 [+1]  UInt  ib")
        m.add("    let iv = {0}", [("let", gi.gen("int", di), "int", ienv.copy())])
        ienv.add("iv", "int")
        m.add("    2 [+1]  bits  nb:")
        benv = env0.copy()
        benv.by_ty, benv.fields = {}, []
        benv.add("nib", "int")
        m.add("      0 [+4]  UInt  nib")
        m.add("      if {0}:", [("if", ExprGen(r, benv).gen("bool", di), "bool", benv)])
        m.add("        4 [+4]  UInt  nf")
        m.add("      let nv = {0}", [("let", ExprGen(r, benv).gen("int", di), "int", benv)])
        off += 3
        m.add("  %d [+1]  enum  st:" % off)
        m.add("    OK = {0}", [("enum-value", gvalue.int_with_value(r.randint(0, 50), r.randint(0, 2)), "int", env0)])
        m.add("    BAD = {0}", [("enum-value", gvalue.int_with_value(r.randint(51, 99), r.randint(0, 2)), "int", env0)])
        off += 1
        env.enums = dict(env.enums)
        env.alias = dict(env.alias)
        env.enums["Main/St"] = ["OK", "BAD"]
        env.alias["Main/St"] = "St"
        env.add("st", ("enum", "Main/St"))
        for nm in ("inl.ia", "inl.iv", "inl.nb.nib", "inl.nb.nv"):
            env.add(nm, "int")
        env.fields.append(("inl", "opaque"))
        m.meta["opaque"].append("inl")
        m.meta["nested"] = True
    m.meta["aliases"] = [alias for alias, _ in imports]
    m.meta["static_phys"] = ["Main.x"] + ["%s.%s" % (alias, lib.phys) for alias, lib in imports]
    counter = [0]

    def fresh(p):
        counter[0] += 1
        return "%s%d" % (p, counter[0])

    kinds = ["let-int", "let-int", "let-bool", "let-enum", "dyn-start", "size", "dyn-size", "array",
             "if", "requires", "passed", "let-int", "if"]
    if imports:
        kinds += ["passed-lib", "let-enum", "let-bool"]
    for _ in range(n_items):
        g = ExprGen(r, env)
        kind = r.choice(kinds)
        if kind.startswith("let-"):
            ty = {"let-int": "int", "let-bool": "bool", "let-enum": r.choice(env.enum_types())}[kind]
            nm = fresh("v")
            m.add("  let %s = {0}" % nm, [("let", ExprGen(r, env).gen(ty, d), ty, env.copy())])
            env.add(nm, ty)
        elif kind == "dyn-start":
            nm = fresh("f")
            m.add("  {0} [+1]  UInt  %s" % nm, [("field-start", g.gen("int", d), "int", env.copy())])
            env.add(nm, "int")
        elif kind == "size":
            nm = fresh("f")
            v = r.choice([1, 2, 4, 8])
            m.add("  %d [+{0}]  UInt  %s" % (off, nm), [("field-size", gclosed.int_with_value(v, d), "int", env0)])
            off += v
            env.add(nm, "int")
        elif kind == "dyn-size":
            nm = fresh("a")
            m.add("  %d [+{0}]  UInt:8[]  %s" % (off, nm), [("field-size", g.gen("int", d), "int", env.copy())])
            env.fields.append((nm, "opaque"))
            m.meta["opaque"].append(nm)
        elif kind == "array":
            nm = fresh("a")
            # since e20b103 only the length itself has to be an integer: any integer expression
            e = g.gen("int", d)
            m.add("  %d [+{0}]  UInt:8[{1}]  %s" % (off, nm),
                  [("field-size", e, "int", env.copy()), ("array-length", e, "int", env.copy())])
            env.fields.append((nm, "opaque"))
            m.meta["opaque"].append(nm)
        elif kind == "if":
            nm = fresh("f")
            m.add("  if {0}:", [("if", g.gen("bool", d), "bool", env.copy())])
            m.add("    %d [+1]  UInt  %s" % (off, nm))
            off += 1
            env.add(nm, "int")
        elif kind == "requires":
            nm = fresh("f")
            m.add("  %d [+1]  UInt  %s" % (off, nm))
            off += 1
            env.add(nm, "int")
            renv = env0.copy()
            renv.by_ty = {}
            renv.fields = []
            renv.add("this", "int", field=False)
            m.add("    [requires: {0}]", [("requires", ExprGen(r, renv).gen("bool", d), "bool", renv)])
        elif kind == "passed":
            nm = fresh("s")
            m.add("  %d [+2]  Par({0}, {1})  %s" % (off, nm),
                  [("passed-int", g.gen("int", d), "int", env.copy()),
                   ("passed-enum", g.gen(("enum", "Ea"), d), ("enum", "Ea"), env.copy())])
            off += 2
            env.fields.append((nm, "opaque"))
            env.add(nm + ".q", "int")
        elif kind == "passed-lib":
            alias, lib = r.choice(list(imports))
            nm = fresh("s")
            m.add("  %d [+2]  %s.Par({0}, {1})  %s" % (off, alias, nm),
                  [("passed-int", g.gen("int", d), "int", env.copy()),
                   ("passed-enum", g.gen(lib.par_enum, d), lib.par_enum, env.copy())])
            off += 2
            env.fields.append((nm, "opaque"))
            env.add(nm + ".q", "int")
            env.add(nm + ".k", "int")      # a virtual field defined in the other file
    # a struct-level [requires] must come right after the header: insert it there
    if r.random() < 0.6:
        hdr = next(i for i, (t, _) in enumerate(m.lines) if t.startswith("struct Main"))
        # only names defined by the fixed prologue are safe to mention before the item loop
        renv = env0.copy()
        renv.by_ty = {}
        renv.fields = []
        for nm, ty in [("fa", "bool"), ("fb", "bool"), ("sm", "int"), ("x", "int"), ("y", "int"),
                       ("ea", ("enum", "Ea")), ("eb", ("enum", "Eb"))]:
            renv.add(nm, ty)
        e = ExprGen(r, renv).gen("bool", d)
        m.lines.insert(hdr + 1, ["  [requires: {0}]", [e]])
        for s in m.sites:
            if s["line"] > hdr:
                s["line"] += 1
        m.sites.append({"line": hdr + 1, "slot": 0, "pos": "requires", "expr": e, "ty": "bool", "env": renv})
    # a second structure that refers statically to a constant virtual field
    m.add("struct Cst:")
    m.add("  let c0 = {0}", [("let", gclosed.int_with_value(r.randint(0, 9), min(d, 3)), "int", env0)])
    m.add("  let c1 = {0}", [("let", ("bin", r.choice(ARITH), ("ref", "Cst.c0", "int"), ("num", 1)), "int", env0)])
    m.add("  0 [+Cst.c1 * 0 + 1]  UInt  w")
    m.meta["depth"] = d
    return m


def gen_set(r, maxdepth=6, n_items=10, signed_literal=True, nfiles=None):
    """A set of modules {file name: Module}; `m.emb` is the main one.  With 2 or 3 files the
    imported modules define enums / structs with the *same names* as the importer, and with 3
    files one library is reached both directly and through the other library (two aliases)."""
    if nfiles is None:
        nfiles = r.choice([1, 1, 2, 2, 2, 3, 3])
    mods = {}
    imports = []
    if nfiles >= 3:
        third, l3 = gen_lib(r, "third.emb")
        mods["third.emb"] = third
        other, l2 = gen_lib(r, "other.emb", sub=("t3", l3))
        mods["other.emb"] = other
        imports = [("oth", l2), ("thd", l3)]
        r.shuffle(imports)
    elif nfiles == 2:
        other, l2 = gen_lib(r, "other.emb")
        mods["other.emb"] = other
        imports = [("oth", l2)]
    mods["m.emb"] = gen_valid(r, maxdepth=maxdepth, n_items=n_items, signed_literal=signed_literal, imports=imports)
    return mods


# ---------------------------------------------------------------------------------------
# mutation catalogue: each entry breaks exactly one documented rule on one line.

def subterms(e, path=()):
    """(path, node, demanded type is unknown here) for every compound node."""
    yield path, e
    k = e[0]
    if k == "bin":
        yield from subterms(e[2], path + (2,))
        yield from subterms(e[3], path + (3,))
    elif k == "neg":
        yield from subterms(e[1], path + (1,))
    elif k == "choice":
        for i in (1, 2, 3):
            yield from subterms(e[i], path + (i,))
    elif k == "fn":
        for i, a in enumerate(e[2]):
            yield from subterms(a, path + (2, i))


def replace(e, path, new):
    if not path:
        return new
    i = path[0]
    if e[0] == "fn" and i == 2:
        args = list(e[2])
        args[path[1]] = replace(args[path[1]], path[2:], new)
        return (e[0], e[1], args)
    l = list(e)
    l[i] = replace(l[i], path[1:], new)
    return tuple(l)


def wrong_for(r, ty, env, opaque_names, allow=("int", "bool", "enum", "opaque")):
    """An expression whose type is anything but `ty` (well-typed in itself)."""
    g = ExprGen(r, env)
    cands = []
    if ty != "int" and "int" in allow:
        cands.append(lambda: g.gen("int", r.randint(0, 2)))
    if ty != "bool" and "bool" in allow:
        cands.append(lambda: g.gen("bool", r.randint(0, 2)))
    if "enum" in allow:
        for t in env.enum_types():
            if ty != t:
                cands.append(lambda t=t: g.gen(t, r.randint(0, 1)))
        if isinstance(ty, tuple):
            # the namesake in another module is the likeliest confusion: weight it
            same = [t for t in env.enum_types() if t != ty and base(t[1]) == base(ty[1])]
            for t in same:
                cands += [lambda t=t: g.gen(t, r.randint(0, 1))] * 3
    if "opaque" in allow and opaque_names:
        cands.append(lambda: ("ref", r.choice(opaque_names), "opaque"))
    return r.choice(cands)()


def mutate(r, m):
    """Apply one catalogue entry at a random site of Module m (in place).
    Returns dict(rule, line (1-based), detail) or None if the entry found no site."""
    entry = r.choice(CATALOGUE if m.file == "m.emb" else LIB_CATALOGUE)
    return entry(r, m)


def _pick_sites(r, m, pred):
    ss = [s for s in m.sites if pred(s)]
    return r.choice(ss) if ss else None


def _visible_opaque(m, site):
    names = [t for t, ty in site["env"].fields if ty == "opaque"]
    return names


def _nodes(site, pred):
    return [(p, n) for p, n in subterms(m_expr(site)) if pred(n)]


def m_expr(site):
    return site["expr"]


def _apply(m, site, newexpr, rule, detail=""):
    m.set_expr(site, newexpr)
    # an array item writes the same expression in two slots (size and length): keep them in sync
    return {"rule": rule, "line": site["line"] + 1, "pos": site["pos"], "detail": detail,
            "expr": render(newexpr)}


def mut_operand_kind(r, m):
    """wrong operand kind for an arithmetic / logical operator, either side"""
    cands = []
    for s in m.sites:
        for p, n in subterms(s["expr"]):
            if n[0] == "bin" and n[1] in ARITH + LOGIC:
                cands.append((s, p, n))
            if n[0] == "neg":
                cands.append((s, p, n))
    if not cands:
        return None
    s, p, n = r.choice(cands)
    if n[0] == "neg":
        bad = wrong_for(r, "int", s["env"], _visible_opaque(m, s))
        new = ("neg", bad)
        side = "operand"
    else:
        want = "int" if n[1] in ARITH else "bool"
        side = r.choice([2, 3])
        bad = wrong_for(r, want, s["env"], _visible_opaque(m, s))
        new = replace(n, (side,), bad)
        side = "left" if side == 2 else "right"
    return _apply(m, s, replace(s["expr"], p, new), "operand-kind:%s:%s" % (n[1] if n[0] == "bin" else "neg", side))


def mut_comparison(r, m):
    """== / != on different kinds or two different enums; ordering on boolean / opaque / mixed"""
    cands = []
    for s in m.sites:
        for p, n in subterms(s["expr"]):
            if n[0] == "bin" and n[1] in ORD + EQ:
                cands.append((s, p, n))
    if not cands:
        return None
    s, p, n = r.choice(cands)
    env, opq = s["env"], _visible_opaque(m, s)
    g = ExprGen(r, env)
    side = r.choice([2, 3])
    if n[1] in EQ:
        variant = r.choice(["int-bool", "int-enum", "bool-enum", "two-enums", "opaque"])
        if variant == "int-bool":
            a, b = g.gen("int", 1), g.gen("bool", 1)
        elif variant == "int-enum":
            a, b = g.gen("int", 1), g.gen(r.choice(env.enum_types()), 1)
        elif variant == "bool-enum":
            a, b = g.gen("bool", 1), g.gen(r.choice(env.enum_types()), 1)
        elif variant == "two-enums":
            t1, t2 = env.two_enums(r)
            a, b = g.gen(t1, 1), g.gen(t2, 1)
        else:
            if not opq:
                return None
            a, b = ("ref", r.choice(opq), "opaque"), g.gen("int", 1)
        if side == 3:
            a, b = b, a
        new = ("bin", n[1], a, b)
    else:
        variant = r.choice(["bool", "bool-both", "int-enum", "opaque", "enum-enum", "two-enums"])
        if variant == "enum-enum":
            t1 = r.choice(env.enum_types())
            a, b = g.gen(t1, 1), g.gen(t1, 1)
        elif variant == "two-enums":
            t1, t2 = env.two_enums(r)
            a, b = g.gen(t1, 1), g.gen(t2, 1)
        elif variant == "bool":
            a, b = g.gen("bool", 1), g.gen("int", 1)
        elif variant == "bool-both":
            a, b = g.gen("bool", 1), g.gen("bool", 1)
        elif variant == "int-enum":
            a, b = g.gen("int", 1), g.gen(r.choice(env.enum_types()), 1)
        else:
            if not opq:
                return None
            a, b = ("ref", r.choice(opq), "opaque"), g.gen("int", 1)
        if side == 3:
            a, b = b, a
        new = ("bin", n[1], a, b)
    return _apply(m, s, replace(s["expr"], p, new), "comparison:%s:%s" % (n[1], variant))


def mut_choice(r, m):
    """non-boolean ?: condition, branches of different kinds / different enums"""
    cands = []
    for s in m.sites:
        for p, n in subterms(s["expr"]):
            if n[0] == "choice":
                cands.append((s, p, n))
    if not cands:
        return None
    s, p, n = r.choice(cands)
    env, opq = s["env"], _visible_opaque(m, s)
    g = ExprGen(r, env)
    variant = r.choice(["cond-int", "cond-enum", "branches-int-bool", "branches-two-enums", "branches-int-enum",
                        "branch-opaque"])
    if variant == "cond-int":
        new = ("choice", g.gen("int", 1), n[2], n[3])
    elif variant == "cond-enum":
        new = ("choice", g.gen(r.choice(env.enum_types()), 1), n[2], n[3])
    elif variant == "branches-int-bool":
        a, b = g.gen("int", 1), g.gen("bool", 1)
        if r.random() < 0.5:
            a, b = b, a
        new = ("choice", n[1], a, b)
    elif variant == "branches-two-enums":
        t1, t2 = env.two_enums(r)
        a, b = g.gen(t1, 1), g.gen(t2, 1)
        if r.random() < 0.5:
            a, b = b, a
        new = ("choice", n[1], a, b)
    elif variant == "branches-int-enum":
        a, b = g.gen("int", 1), g.gen(r.choice(env.enum_types()), 1)
        if r.random() < 0.5:
            a, b = b, a
        new = ("choice", n[1], a, b)
    else:
        if not opq:
            return None
        new = ("choice", n[1], ("ref", r.choice(opq), "opaque"), ("ref", r.choice(opq), "opaque"))
    return _apply(m, s, replace(s["expr"], p, new), "choice:" + variant)


def _nameable_enum(r, env):
    return r.choice([t for t in env.enum_types() if t[1] in env.enums])


def mut_function(r, m):
    """wrong arity / argument kind of $max, $present, $upper_bound, $lower_bound; for the
    variadic `$max` the offending argument sits at any index of a call of any arity up to 24"""
    s = _pick_sites(r, m, lambda s: s["pos"] in ("let", "if", "requires", "field-start", "passed-int", "field-size"))
    if s is None:
        return None
    env, opq = s["env"], _visible_opaque(m, s)
    g = ExprGen(r, env)
    # find an integer or boolean sub-expression to replace by the broken call
    ints = [(p, n) for p, n in subterms(s["expr"]) if n[0] in ("num",) or (n[0] == "ref" and n[2] == "int")
            or (n[0] == "bin" and n[1] in ARITH) or (n[0] == "fn" and n[1] != "$present")]
    bools = [(p, n) for p, n in subterms(s["expr"]) if n[0] == "bool" or (n[0] == "ref" and n[2] == "bool")
             or (n[0] == "bin" and n[1] in ORD + EQ + LOGIC) or (n[0] == "fn" and n[1] == "$present")]
    variant = r.choice(["max-0", "max-bool", "max-enum", "max-opaque", "max-bool", "max-enum",
                        "present-0", "present-n", "present-expr", "present-const", "present-param",
                        "upper-0", "upper-n", "upper-bool", "lower-0", "lower-n", "lower-enum"])
    detail = ""
    if variant.startswith("present"):
        if not bools:
            return None
        p, _ = r.choice(bools)
        fs = [t for t, _ in env.fields] or ["x"]
        if variant == "present-0":
            new = ("fn", "$present", [])
        elif variant == "present-n":
            k = r.choice([2, 2, 3, 5, 9, 12])
            new = ("fn", "$present", [("ref", r.choice(fs), "any") for _ in range(k)])
            detail = "arity %d" % k
        elif variant == "present-expr":
            new = ("fn", "$present", [("bin", "+", g.gen("int", 1), ("num", 1))])
        elif variant == "present-param":
            # "The argument to `$present()` must be a reference to a field": a parameter is not one
            if not env.params:
                return None
            new = ("fn", "$present", [("ref", r.choice(env.params)[0], "any")])
        else:
            c = _nameable_enum(r, env)
            new = ("fn", "$present", [r.choice([("num", 1), ("bool", True),
                                                ("enum", env.spell(c[1]), env.enums[c[1]][0])])])
    else:
        if not ints:
            return None
        p, _ = r.choice(ints)
        fn = {"max": "$max", "upper": "$upper_bound", "lower": "$lower_bound"}[variant.split("-")[0]]
        what = variant.split("-")[1]
        if what == "0":
            new = ("fn", fn, [])
        elif what == "n":
            k = r.choice([2, 2, 3, 5, 9, 12])
            new = ("fn", fn, [g.gen("int", 1 if k < 4 else 0) for _ in range(k)])
            detail = "arity %d" % k
        else:
            if what == "bool":
                bad = g.gen("bool", 1)
            elif what == "enum":
                bad = g.gen(r.choice(env.enum_types()), 1)
            else:
                if not opq:
                    return None
                bad = ("ref", r.choice(opq), "opaque")
            if fn == "$max":
                k = r.choice(MAX_ARITIES)
                at = r.randrange(k)
                args = [g.gen("int", 1 if k < 4 else 0) for _ in range(k)]
                args[at] = bad
                detail = "arity %d, argument %d" % (k, at)
            else:
                args = [bad]
            new = ("fn", fn, args)
    info = _apply(m, s, replace(s["expr"], p, new), "function:" + variant)
    info["detail"] = detail
    return info


def mut_position(r, m):
    """an expression of the wrong kind for its position"""
    s = _pick_sites(r, m, lambda s: s["pos"] in ("field-start", "field-size", "array-length", "if", "requires",
                                                 "attr-int", "enum-value", "passed-int", "passed-enum"))
    if s is None:
        return None
    env, opq = s["env"], _visible_opaque(m, s)
    if s["pos"] in ("attr-int", "enum-value"):
        g = ExprGen(r, env, closed=True)
        # not the enum being defined (a value mentioning its own enum is a dependency cycle)
        own = None
        for t, _ in reversed(m.lines[:s["line"]]):
            if t.startswith("enum "):
                own = t[5:].rstrip(":")
                break
        cs = [t for t in env.enum_types() if t[1] in env.enums and env.spell(t[1]) != own]
        c = r.choice(cs)
        bad = r.choice([g.gen("bool", 1), ("enum", env.spell(c[1]), r.choice(env.enums[c[1]]))])
    else:
        bad = wrong_for(r, s["ty"], env, opq)
    rule = "position:" + s["pos"]
    if s["pos"] == "enum-value":
        rule += ":enum" if bad[0] == "enum" else ":bool"
    info = _apply(m, s, bad, rule)
    # arrays: size and length slots of the same line both hold the expression; mutate only this slot
    return info


def mut_parameter(r, m):
    """parameter misuse: array / boolean / struct parameter type; wrong number or kind of passed parameters"""
    variant = r.choice(["decl-array", "decl-flag", "decl-struct", "pass-missing", "pass-extra", "pass-int-for-enum",
                        "pass-enum-for-int", "pass-bool", "pass-other-enum", "pass-none", "pass-namesake-enum"])
    if variant == "pass-namesake-enum":
        # the enum of the same name from an imported module
        if not m.meta.get("aliases"):
            return None
        idx = next(i for i, (t, _) in enumerate(m.lines) if "Par(1, Ea.AA)" in t)
        rep = "Par(1, %s.Ea.AA)" % r.choice(m.meta["aliases"])
        m.lines[idx][0] = m.lines[idx][0].replace("Par(1, Ea.AA)", rep)
        return {"rule": "parameter:" + variant, "line": idx + 1, "pos": "passed", "detail": rep, "expr": rep}
    if variant.startswith("decl"):
        idx = next(i for i, (t, _) in enumerate(m.lines) if t.startswith("struct Par("))
        new = {"decl-array": "struct Par(pa: UInt:8, pe: Ea, px: UInt:8[2]):",
               "decl-flag": "struct Par(pa: UInt:8, pe: Ea, px: Flag):",
               "decl-struct": "struct Par(pa: UInt:8, pe: Ea, px: Fx):"}[variant]
        m.lines[idx][0] = new
        # the fixed prologue instantiates Par(1, Ea.AA): give it the third argument so that the
        # only broken rule is the declaration
        for ln in m.lines:
            if "Par(1, Ea.AA)" in ln[0]:
                ln[0] = ln[0].replace("Par(1, Ea.AA)", "Par(1, Ea.AA, 0)")
            elif "Par({0}, {1})" in ln[0]:
                ln[0] = ln[0].replace("Par({{0}}, {{1}})".format(), "Par({0}, {1}, 0)")
        return {"rule": "parameter:" + variant, "line": idx + 1, "pos": "param-decl", "detail": new, "expr": ""}
    idx = next(i for i, (t, _) in enumerate(m.lines) if "Par(1, Ea.AA)" in t)
    rep = {"pass-missing": "Par(1)", "pass-extra": "Par(1, Ea.AA, 2)", "pass-int-for-enum": "Par(1, 2)",
           "pass-enum-for-int": "Par(Ea.BB, Ea.AA)", "pass-bool": "Par(fa, Ea.AA)",
           "pass-other-enum": "Par(1, Eb.XX)", "pass-none": "Par"}[variant]
    m.lines[idx][0] = m.lines[idx][0].replace("Par(1, Ea.AA)", rep)
    return {"rule": "parameter:" + variant, "line": idx + 1, "pos": "passed", "detail": rep, "expr": rep}


ATTR_MUTS = [
    # (anchor line prefix, indentation, attribute text, rule)
    ("struct Fx:", "  ", '[requires: 3]', "attr:requires-int"),
    ("struct Fx:", "  ", '[requires: "yes"]', "attr:requires-string"),
    ("struct Fx:", "  ", '[requires: Ea.AA]', "attr:requires-enum"),
    ("  0 [+2]  UInt  z", "    ", '[requires: this + 1]', "attr:requires-int"),
    ("  0 [+2]  UInt  z", "    ", '[byte_order: 5]', "attr:byte_order-int"),
    ("  0 [+2]  UInt  z", "    ", '[byte_order: true]', "attr:byte_order-bool"),
    ("  0 [+2]  UInt  z", "    ", '[text_output: 3]', "attr:text_output-int"),
    ("  0 [+2]  UInt  z", "    ", '[text_output: false]', "attr:text_output-bool"),
    ("enum Ea:", "  ", '[is_signed: "yes"]', "attr:is_signed-string"),
    ("enum Ea:", "  ", '[is_signed: 1]', "attr:is_signed-int"),
    ("enum Ea:", "  ", '[is_signed: Eb.XX]', "attr:is_signed-enum"),
    ("enum Ea:", "  ", '[maximum_bits: true]', "attr:maximum_bits-bool"),
    ("enum Ea:", "  ", '[maximum_bits: "8"]', "attr:maximum_bits-string"),
    ("enum Ea:", "  ", '[maximum_bits: Eb.XX]', "attr:maximum_bits-enum"),
    ("struct Fx:", "  ", '[fixed_size_in_bits: "8"]', "attr:fixed_size-string"),
    ("struct Fx:", "  ", '[fixed_size_in_bits: true]', "attr:fixed_size-bool"),
    (None, "", '[expected_back_ends: 5]', "attr:expected_back_ends-int"),
    (None, "", '[$default byte_order: 5]', "attr:default-byte_order-int"),
    ("external Ext:", "  ", '[is_integer: 1]', "attr:is_integer-int"),
    ("external Ext:", "  ", '[is_integer: "no"]', "attr:is_integer-string"),
    ("external Ext:", "  ", '[static_requirements: 3]', "attr:static_requirements-int"),
    ("external Ext:", "  ", '[static_requirements: "x"]', "attr:static_requirements-string"),
    ("external Ext:", "  ", '[addressable_unit_size: true]', "attr:addressable_unit_size-bool"),
    ("external Ext:", "  ", '[addressable_unit_size: "8"]', "attr:addressable_unit_size-string"),
    # constancy: values of the right type that mention a field or a builtin
    ("external Ext:", "  ", '[addressable_unit_size: $static_size_in_bits]', "attr:addressable_unit_size-nonconstant"),
    ("external Ext:", "  ", '[addressable_unit_size: $static_size_in_bits + 8]', "attr:addressable_unit_size-nonconstant"),
    ("external Ext:", "  ", '[is_integer: $is_statically_sized]', "attr:is_integer-nonconstant"),
    ("external Ext:", "  ", '[is_integer: $static_size_in_bits == 8]', "attr:is_integer-nonconstant"),
    ("struct Fx:", "  ", '[fixed_size_in_bits: z + 14]', "attr:fixed_size-nonconstant"),
    ("struct Fx:", "  ", '[fixed_size_in_bits: $max(16, z)]', "attr:fixed_size-nonconstant"),
    ("struct Fx:", "  ", '[fixed_size_in_bits: 8 * (z - z + 2)]', "attr:fixed_size-nonconstant"),
]


def mut_attribute(r, m):
    """attribute value of the wrong kind"""
    anchor, ind, text, rule = r.choice(ATTR_MUTS)
    name = text.strip("[]").split(":")[0].replace("$default ", "")
    if anchor is None:
        # module level: replace an existing attribute of that name, else insert at the top
        for i, ln in enumerate(m.lines):
            if ln[0].startswith("[") and name in ln[0]:
                m.lines[i] = [text, []]
                return {"rule": rule, "line": i + 1, "pos": "attribute", "detail": text, "expr": text}
        _insert(m, 0, text)
        return {"rule": rule, "line": 1, "pos": "attribute", "detail": text, "expr": text}
    idx = next((i for i, (t, _) in enumerate(m.lines) if t == anchor), None)
    if idx is None:
        return None
    # remove an existing attribute of the same name directly below the anchor (no duplicates)
    j = idx + 1
    while j < len(m.lines) and m.lines[j][0].startswith(ind + "["):
        if m.lines[j][0].startswith(ind + "[" + name + ":"):
            m.lines[j] = [ind + text, []]
            m.sites = [s for s in m.sites if s["line"] != j]
            return {"rule": rule, "line": j + 1, "pos": "attribute", "detail": text, "expr": text}
        j += 1
    _insert(m, idx + 1, ind + text)
    return {"rule": rule, "line": idx + 2, "pos": "attribute", "detail": text, "expr": text}


def _insert(m, at, text):
    m.lines.insert(at, [text, []])
    for s in m.sites:
        if s["line"] >= at:
            s["line"] += 1


def mut_static_ref(r, m):
    """static reference to a physical field / to a parameter"""
    s = _pick_sites(r, m, lambda s: s["pos"] in ("let", "if", "field-start") and "x" in s["env"].by_ty.get("int", []))
    if s is None:
        return None
    ints = [(p, n) for p, n in subterms(s["expr"]) if n[0] == "num" or (n[0] == "ref" and n[2] == "int")]
    if not ints:
        return None
    p, _ = r.choice(ints)
    new = ("ref", r.choice(m.meta.get("static_phys", ["Main.x"])), "int")
    return _apply(m, s, replace(s["expr"], p, new), "static-ref:physical")


def mut_next(r, m):
    """`$next` where it is not allowed: [requires] value, passed parameter, `let` value"""
    s = _pick_sites(r, m, lambda s: s["pos"] in ("requires", "passed-int"))
    if s is None:
        return None
    ints = [(p, n) for p, n in subterms(s["expr"]) if n[0] == "num" or (n[0] == "ref" and n[2] == "int")]
    if not ints:
        return None
    p, _ = r.choice(ints)
    return _apply(m, s, replace(s["expr"], p, ("raw", "$next")), "builtin:next-in-" + s["pos"])


LIB_CATALOGUE = [mut_operand_kind, mut_comparison, mut_comparison, mut_choice, mut_function, mut_position]
CATALOGUE = [mut_next, mut_operand_kind, mut_operand_kind, mut_comparison, mut_comparison, mut_choice, mut_function,
             mut_function, mut_position, mut_position, mut_parameter, mut_attribute, mut_attribute, mut_static_ref]


def max_arity(e):
    k = e[0]
    if k == "bin":
        return max(max_arity(e[2]), max_arity(e[3]))
    if k == "neg":
        return max_arity(e[1])
    if k == "choice":
        return max(max_arity(x) for x in e[1:])
    if k == "fn":
        return max([len(e[2])] + [max_arity(a) for a in e[2]])
    return 0


# ---------------------------------------------------------------------------------------
# boundary modules: every n-ary construct at sizes well beyond the usual, the offending item
# at every index; same-named enums of different modules in every operator.

class _Lines:
    def __init__(self, file="m.emb"):
        self.file, self.lines, self.bad = file, [], []

    def ok(self, text):
        self.lines.append(text)

    def err(self, text):
        self.lines.append(text)
        self.bad.append(len(self.lines))

    def text(self):
        return "".join(l + "\n" for l in self.lines)


def _b_functions(r):
    """pass 1: `$max` of arity 1..20, 24, 32 with a non-integer at every index; wrong arities of
    the unary functions; long operator chains and deep `?:` nests."""
    L = _Lines()
    L.ok('[$default byte_order: "LittleEndian"]')
    L.ok("enum Ea:")
    L.ok("  AA = 1")
    L.ok("struct Foo:")
    L.ok("  0 [+1]  UInt  x")
    L.ok("  1 [+1]  bits:")
    L.ok("    0 [+1]  Flag  fb")
    L.ok("  2 [+1]  Ea  ea")
    L.ok("  3 [+2]  UInt:8[2]  arr")
    bads = ["fb", "ea", "Ea.AA", "true", "arr", "x == 1"]
    k = 0
    arities = list(range(1, 21)) + [24, 32]
    for n in arities:
        L.ok("  let g%d = $max(%s)" % (n, ", ".join(r.choice(["x", "1", "x + 1"]) for _ in range(n))))
        idxs = range(n) if n <= 20 else sorted(set([0, 8, n - 1] + [r.randrange(n) for _ in range(4)]))
        for i in idxs:
            args = ["x"] * n
            args[i] = bads[k % len(bads)]
            k += 1
            L.err("  let m%d_%d = $max(%s)" % (n, i, ", ".join(args)))
    L.err("  let m0 = $max()")
    L.err("  let mm2 = $max(fb, x, ea)")
    L.err("  let mm9 = $max(x, fb, x, x, x, x, x, x, ea, x, arr)")
    L.err("  let mm20 = $max(%s)" % ", ".join(["fb"] * 20))
    for fn in ("$present", "$upper_bound", "$lower_bound"):
        L.ok("  let u1%s = %s(x)" % (fn[1:3], fn))
        for n in [0, 2, 3, 5, 8, 9, 12, 17]:
            L.err("  let u%d%s = %s(%s)" % (n, fn[1:3], fn, ", ".join(["x"] * n)))
    # chains: the parser nests them to the left; the offending operand at every position
    for n in (2, 5, 9, 16, 30):
        L.ok("  let ca%d = %s" % (n, " + ".join(["x"] * n)))
        L.ok("  let cb%d = %s" % (n, " && ".join(["fb"] * n)))
        for i in sorted(set([0, 1, n // 2, n - 1])):
            ops = ["x"] * n
            ops[i] = bads[k % 3]
            k += 1
            L.err("  let ea%d_%d = %s" % (n, i, " + ".join(ops)))
            ops = ["fb"] * n
            ops[i] = ["x", "ea", "3"][k % 3]
            L.err("  let eb%d_%d = %s" % (n, i, " || ".join(ops)))
    for n in (1, 4, 12, 25):
        def nest(d, leaf):
            return leaf if d == 0 else "fb ? %d : (%s)" % (d, nest(d - 1, leaf))
        L.ok("  let q%d = %s" % (n, nest(n, "0")))
        L.err("  let r%d = %s" % (n, nest(n, bads[k % 3])))
        k += 1
    return {"name": "functions-arity-sweep", "files": {"m.emb": L.text()}, "lines": {"m.emb": L.bad},
            "rule": "boundary:function-arity"}


def _b_positions(r):
    """pass 2: parameter lists of 1..20 parameters with the wrong argument at every index and
    every wrong length; enums of many values with a non-numeric one at several indexes; array
    dimensions."""
    L = _Lines()
    L.ok('[$default byte_order: "LittleEndian"]')
    L.ok("enum Ea:")
    L.ok("  AA = 1")
    L.ok("enum Eb:")
    L.ok("  XX = 1")
    L.ok("enum Big:")
    bad_at = set([0, 7, 8, 9, 23, 39])
    for i in range(40):
        if i in bad_at:
            L.err("  VV%d = %s" % (i, ["true", "1 == 1", "false || true"][i % 3]))
        else:
            L.ok("  VV%d = %d" % (i, i))
    sizes = [1, 2, 5, 9, 12, 20]
    for n in sizes:
        ps = ", ".join("p%d: %s" % (i, "UInt:8" if i % 2 == 0 else "Ea") for i in range(n))
        L.ok("struct Pq%d(%s):" % (n, ps))
        L.ok("  0 [+1]  UInt  q")
    L.ok("struct Foo:")
    L.ok("  0 [+1]  UInt  x")
    L.ok("  1 [+1]  bits:")
    L.ok("    0 [+1]  Flag  fb")
    L.ok("  2 [+1]  Ea  ea")
    L.ok("  3 [+1]  Eb  eb")
    off = 4
    k = 0
    for n in sizes:
        good = ["x" if i % 2 == 0 else "ea" for i in range(n)]
        L.ok("  %d [+1]  Pq%d(%s)  g%d" % (off, n, ", ".join(good), n))
        off += 1
        for i in range(n):
            a = list(good)
            a[i] = (["ea", "fb", "Eb.XX"] if i % 2 == 0 else ["x", "fb", "eb", "Eb.XX"])[k % 3]
            k += 1
            L.err("  %d [+1]  Pq%d(%s)  b%d_%d" % (off, n, ", ".join(a), n, i))
            off += 1
        if n >= 2:
            # several offenders in one use: each is reported (the model has the exact set)
            for tag, idxs in (("e", [0, n - 1]), ("a", list(range(n)))):
                a = list(good)
                for i in idxs:
                    a[i] = "fb"
                L.err("  %d [+1]  Pq%d(%s)  d%s%d" % (off, n, ", ".join(a), tag, n))
                off += 1
        for m_ in sorted(set([0, n - 1, n + 1, n + 7]) - {n}):
            a = (good * 3)[:m_]
            L.err("  %d [+1]  Pq%d%s  w%d_%d" % (off, n, "(%s)" % ", ".join(a) if a else "", n, m_))
            off += 1
    # array dimensions: every dimension's length must be an integer
    for dims in (1, 2, 4):
        L.ok("  %d [+1]  UInt:8%s  ag%d" % (off, "".join("[x - x + 1]" for _ in range(dims)), dims))
        off += 1
        for i in range(dims):
            ds = ["[1]"] * dims
            ds[i] = "[%s]" % ["fb", "ea", "x == 1"][k % 3]
            k += 1
            L.err("  %d [+1]  UInt:8%s  ab%d_%d" % (off, "".join(ds), dims, i))
            off += 1
    return {"name": "positions-arity-sweep", "files": {"m.emb": L.text()}, "lines": {"m.emb": L.bad},
            "rule": "boundary:position-arity"}


_THIRD = '''[$default byte_order: "LittleEndian"]
enum Ea:
  AA = 1
  TT = 3
struct Cst:
  let e0 = Ea.TT
'''
_OTHER = '''import "third.emb" as t3
[$default byte_order: "LittleEndian"]
enum Ea:
  AA = 0
  ZZ = 5
struct Par(pa: UInt:8, pe: Ea):
  0 [+1]  UInt  q
struct Cst:
  let e0 = Ea.ZZ
struct Holder:
  0 [+1]  Ea  kind
  1 [+1]  t3.Ea  tk
  let de = kind
  let dt = tk
'''


def _b_namesakes(r, positions):
    """three modules each defining `enum Ea`; the main one reaches third.emb both directly and
    through other.emb.  Mixing two *different* `Ea`s is an error in every operator, however the
    operands are spelled; the *same* `Ea` reached by two paths is fine."""
    L = _Lines()
    L.ok('import "other.emb" as oth')
    L.ok('import "third.emb" as thd')
    L.ok('[$default byte_order: "LittleEndian"]')
    L.ok("enum Ea:")
    L.ok("  AA = 0")
    L.ok("  BB = 1")
    L.ok("struct Par(pa: UInt:8, pe: Ea):")
    L.ok("  0 [+1]  UInt  q")
    L.ok("struct TPar(pa: UInt:8, pe: thd.Ea):")
    L.ok("  0 [+1]  UInt  q")
    L.ok("struct Main(mm: Ea, mo: oth.Ea, mt: thd.Ea):")
    L.ok("  0 [+1]  Ea  ea")
    L.ok("  1 [+1]  oth.Ea  oea")
    L.ok("  2 [+1]  thd.Ea  tea")
    L.ok("  3 [+2]  oth.Holder  oh")
    L.ok("  5 [+1]  bits:")
    L.ok("    0 [+1]  Flag  fb")
    forms = {"m": ["ea", "Ea.AA", "mm", "(fb ? ea : Ea.BB)"],
             "o": ["oea", "oth.Ea.ZZ", "mo", "oh.kind", "oh.de", "oth.Cst.e0"],
             "t": ["tea", "thd.Ea.TT", "mt", "oh.tk", "oh.dt", "thd.Cst.e0"]}
    n = 0
    if not positions:
        for a in "mot":
            for b in "mot":
                for fa in forms[a]:
                    for fb_ in forms[b]:
                        # thin out the full matrix deterministically from the seed, keep every (a, b, op) pair
                        op = ["==", "!=", "<", "<=", ">", ">=", "?:"][n % 7]
                        n += 1
                        if r.random() < 0.55 and not (fa == forms[a][0] and fb_ == forms[b][1]):
                            continue
                        if op == "?:":
                            text = "  let v%d = fb ? %s : %s" % (n, fa, fb_)
                        else:
                            text = "  let v%d = %s %s %s" % (n, fa, op, fb_)
                        if a != b:
                            L.err(text)
                        elif op in ("==", "!=", "?:"):
                            L.ok(text)      # ordering of one enum is F11's business: not generated
        rule = "boundary:namesake-enums-in-operators"
    else:
        off = 6
        for tname, want in (("Par", "m"), ("oth.Par", "o"), ("TPar", "t")):
            for b in "mot":
                for fb_ in forms[b]:
                    text = "  %d [+1]  %s(1, %s)  s%d" % (off, tname, fb_, off)
                    off += 1
                    (L.ok if b == want else L.err)(text)
        rule = "boundary:namesake-enums-as-arguments"
    return {"name": rule.split(":")[1], "files": {"m.emb": L.text(), "other.emb": _OTHER, "third.emb": _THIRD},
            "lines": {"m.emb": L.bad}, "rule": rule}


def _b_constancy(r):
    """pass 3: values of the constant-demanding attributes that mention a field and fold to a
    constant all the same (three-valued `&&`/`||`/`?:` in integer values, bound functions of
    bounded operands, static references to virtual fields whose bounds are a single value), next
    to look-alikes that do not; one enum (or struct) per attribute.  Integer values are constant
    when `constant_value` knows them; boolean ones when the bounds pass gave the type a value,
    which it does for `&&`/`||`/comparisons only if every operand is constant."""
    L = _Lines()
    L.ok('[$default byte_order: "LittleEndian"]')
    L.ok("struct Src:")
    L.ok("  0 [+1]  UInt  x")
    L.ok("  1 [+1]  Int  sx")
    L.ok("  2 [+2]  UInt  w")
    L.ok("  4 [+1]  bits:")
    L.ok("    0 [+1]  Flag  fb")
    L.ok("    1 [+3]  UInt  nib")
    L.ok("  let zero = x * 0")
    L.ok("  let three = x * 0 + 3")
    L.ok("  let same = x")
    L.ok("  let half = x - x")            # bounds -255..255: not a single value
    L.ok("  let c8 = 8")
    L.ok("  let yes = 1 < 2")
    L.ok("  let cmp = x == 1")
    L.ok("  let ub = $upper_bound(x)")
    L.ok("  let pick = fb ? 4 : 4")       # hull of 4 and 4
    L.ok("  let pick2 = fb ? 4 : 5")
    ints_ok = ["(false && Src.cmp) ? 4 : 8", "(true || Src.cmp) ? 4 : 8", "true ? 8 : Src.same",
               "Src.zero + 8", "Src.three * 2 + 2", "Src.c8", "Src.c8 * 2 - Src.zero", "$max(Src.c8, 3)",
               "$upper_bound(Src.same) - 247", "$lower_bound(Src.same) + 8", "Src.ub - 247",
               "$upper_bound(Src.same * 2 + 1) - 503", "Src.pick * 2", "$upper_bound(Src.pick2) + 3",
               "$max(Src.zero, 8)", "8 + 0 * 3", "$lower_bound(4) + $upper_bound(4)"]
    ints_bad = ["Src.same", "Src.same * 0 + 8", "Src.half + 8", "(Src.cmp && false) ? 4 : Src.same",
                "Src.cmp ? 8 : 8", "$max(Src.same, 8)", "Src.pick2", "Src.same - Src.same + 8",
                "false ? 8 : Src.same"]
    bools_ok = ["Src.yes", "Src.yes && true", "1 == 1 || 2 < 1", "Src.c8 == 8", "Src.zero == 0",
                "$upper_bound(Src.same) == 255", "true ? Src.yes : false", "Src.three > 2 && Src.c8 >= 8"]
    bools_bad = ["Src.cmp", "false && Src.cmp", "true || Src.cmp", "Src.same == Src.same", "Src.same >= 0",
                 "Src.cmp ? true : true", "Src.half == 0"]
    n = 0
    for lst, attr, bad in ((ints_ok, "maximum_bits", False), (ints_bad, "maximum_bits", True),
                           (bools_ok, "is_signed", False), (bools_bad, "is_signed", True)):
        for v in lst:
            n += 1
            L.ok("enum En%d:" % n)
            (L.err if bad else L.ok)("  [%s: %s]" % (attr, v))
            L.ok("  AA = 1")
    for v, bad in [(x, False) for x in ints_ok[:6]] + [(x, True) for x in ints_bad[:4]]:
        n += 1
        L.ok("external Ex%d:" % n)
        (L.err if bad else L.ok)("  [addressable_unit_size: %s]" % v)
    return {"name": "attribute-constancy", "files": {"m.emb": L.text()}, "lines": {"m.emb": L.bad},
            "rule": "boundary:attribute-constancy"}


def boundary_modules(r):
    return [_b_functions(r), _b_positions(r), _b_namesakes(r, False), _b_namesakes(r, True), _b_constancy(r)]
