"""Type-directed generator of well-typed .emb modules + single-rule mutation catalogue (C13).

The generator keeps the *intended* type of every expression it writes; that knowledge (not
the compiler, not the Lean model) is the spec oracle: a module from `gen_valid` follows the
documented operator signatures and positional requirements, a module from `mutate` breaks
exactly one documented rule on one known line.

Expressions are tuples:
  ("num", v) ("bool", b) ("enum", E, name) ("ref", text, ty) ("bin", op, a, b)
  ("neg", a) ("choice", c, t, f) ("fn", name, [args])
types: "int", "bool", ("enum", name), "opaque".
Rendering parenthesises every compound operand, so precedence / chaining rules of the
grammar never interfere.
"""

ARITH = ["+", "-", "*"]
ORD = ["<", "<=", ">", ">="]
EQ = ["==", "!="]
LOGIC = ["&&", "||"]


def render(e):
    k = e[0]
    if k == "num":
        return str(e[1]) if e[1] >= 0 else "(%d)" % e[1]
    if k == "bool":
        return "true" if e[1] else "false"
    if k == "enum":
        return "%s.%s" % (e[1], e[2])
    if k == "ref":
        return e[1]
    if k == "raw":
        return e[1]
    if k == "bin":
        return "%s %s %s" % (atom(e[2]), e[1], atom(e[3]))
    if k == "neg":
        return "-%s" % atom(e[1])
    if k == "choice":
        return "%s ? %s : %s" % (atom(e[1]), atom(e[2]), atom(e[3]))
    if k == "fn":
        return "%s(%s)" % (e[1], ", ".join(render(a) for a in e[2]))
    raise ValueError(k)


def atom(e):
    if e[0] in ("bin", "neg", "choice"):
        return "(" + render(e) + ")"
    return render(e)


def depth(e):
    k = e[0]
    if k == "bin":
        return 1 + max(depth(e[2]), depth(e[3]))
    if k == "neg":
        return 1 + depth(e[1])
    if k == "choice":
        return 1 + max(depth(e[1]), depth(e[2]), depth(e[3]))
    if k == "fn":
        return 1 + max([depth(a) for a in e[2]] + [0])
    return 0


def ops_of(e, acc):
    k = e[0]
    if k == "bin":
        acc[e[1]] = acc.get(e[1], 0) + 1
        ops_of(e[2], acc), ops_of(e[3], acc)
    elif k == "neg":
        acc["neg"] = acc.get("neg", 0) + 1
        ops_of(e[1], acc)
    elif k == "choice":
        acc["?:"] = acc.get("?:", 0) + 1
        for x in e[1:]:
            ops_of(x, acc)
    elif k == "fn":
        acc[e[1]] = acc.get(e[1], 0) + 1
        for x in e[2]:
            ops_of(x, acc)
    return acc


def has_nonint_sub(e, ty):
    """Does an (integer) expression contain a syntactic sub-expression that is not an
    integer?  (predicate of the open finding about array lengths)"""
    k = e[0]
    if k in ("bool",):
        return True
    if k == "enum":
        return True
    if k == "ref":
        return e[2] != "int"
    if k == "bin":
        if e[1] in ORD + EQ + LOGIC:
            return True
        return has_nonint_sub(e[2], "int") or has_nonint_sub(e[3], "int")
    if k == "neg":
        return has_nonint_sub(e[1], "int")
    if k == "choice":
        return True   # the condition is a boolean
    if k == "fn":
        if e[1] == "$present":
            return True
        return any(has_nonint_sub(a, "int") for a in e[2])
    return False


def is_closed(e):
    k = e[0]
    if k == "ref":
        return False
    if k == "bin":
        return is_closed(e[2]) and is_closed(e[3])
    if k == "neg":
        return is_closed(e[1])
    if k == "choice":
        return all(is_closed(x) for x in e[1:])
    if k == "fn":
        return all(is_closed(x) for x in e[2])
    return True


def cv(e):
    """What ir_util.constant_value would return (None = unknown), for the steering
    predicate below; enum constants are opaque tokens."""
    k = e[0]
    if k == "num":
        return e[1]
    if k == "bool":
        return e[1]
    if k == "enum":
        return ("enum", e[1], e[2])
    if k == "ref":
        # local references are unknown; `Type.field` static references fold (treated as known)
        return 0 if "." in e[1] and e[1][0].isupper() else None
    if k == "neg":
        v = cv(e[1])
        return None if v is None else -v
    if k == "choice":
        c = cv(e[1])
        if c is None:
            return None
        return cv(e[2]) if c else cv(e[3])
    if k == "fn":
        vs = [cv(a) for a in e[2]]
        if any(v is None for v in vs):
            return None
        if e[1] == "$max":
            return max(vs) if vs else None
        return ("bound",)
    if k == "bin":
        a, b = cv(e[2]), cv(e[3])
        if e[1] == "&&":
            if a is False or b is False:
                return False
            return None if a is None or b is None else True
        if e[1] == "||":
            if a is True or b is True:
                return True
            return None if a is None or b is None else False
        if a is None or b is None:
            return None
        try:
            return {"+": lambda: a + b, "-": lambda: a - b, "*": lambda: a * b, "==": lambda: a == b,
                    "!=": lambda: a != b, "<": lambda: a < b, "<=": lambda: a <= b, ">": lambda: a > b,
                    ">=": lambda: a >= b}[e[1]]()
        except TypeError:
            return 0
    return None


def has_const_bound(e):
    """$upper_bound / $lower_bound applied to a closed argument (predicate of the open
    finding crash:ir_util.py:_constant_value_of_function:KeyError)."""
    k = e[0]
    if k == "fn":
        if e[1] in ("$upper_bound", "$lower_bound") and all(cv(a) is not None for a in e[2]):
            return True
        return any(has_const_bound(a) for a in e[2])
    if k == "bin":
        return has_const_bound(e[2]) or has_const_bound(e[3])
    if k == "neg":
        return has_const_bound(e[1])
    if k == "choice":
        return any(has_const_bound(x) for x in e[1:])
    return False


class Env:
    """Names usable in expressions of one structure, by type."""

    def __init__(self):
        self.by_ty = {}      # ty -> [text]
        self.fields = []     # texts usable in $present (any type)
        self.enums = {}      # enum name -> [value names]

    def add(self, text, ty, field=True):
        self.by_ty.setdefault(ty, []).append(text)
        if field:
            self.fields.append((text, ty))

    def copy(self):
        e = Env()
        e.by_ty = {k: list(v) for k, v in self.by_ty.items()}
        e.fields = list(self.fields)
        e.enums = self.enums
        return e


class ExprGen:
    def __init__(self, r, env, closed=False, const_bounds=False):
        self.r, self.env, self.closed = r, env, closed
        # $upper_bound/$lower_bound of a closed argument crash ir_util.constant_value wherever
        # the compiler folds constants (open finding): only `let` values may contain them
        self.const_bounds = const_bounds

    def bound_arg(self, d):
        a = self.gen("int", d)
        if self.const_bounds or cv(a) is None:
            return a
        names = [] if self.closed else self.env.by_ty.get("int", [])
        if names:
            return ("bin", "+", ("ref", self.r.choice(names), "int"), a)
        return None

    def leaf(self, ty):
        r = self.r
        names = [] if self.closed else self.env.by_ty.get(ty, [])
        if names and r.random() < 0.6:
            # references to virtual fields are inlined by the model's input: keep chains short
            plain = [n for n in names if not n.startswith("v")]
            if plain and r.random() < 0.8:
                return ("ref", r.choice(plain), ty)
            return ("ref", r.choice(names), ty)
        if ty == "int":
            return ("num", r.choice([0, 1, 2, 3, 4, 5, 7, 8, 9, 10, 100]))
        if ty == "bool":
            return ("bool", r.random() < 0.5)
        if isinstance(ty, tuple):
            return ("enum", ty[1], r.choice(self.env.enums[ty[1]]))
        raise ValueError(ty)

    def gen(self, ty, d):
        r = self.r
        if d <= 0 or r.random() < 0.12:
            return self.leaf(ty)
        if ty == "int":
            c = r.random()
            if c < 0.45:
                return ("bin", r.choice(ARITH), self.gen("int", d - 1), self.gen("int", d - 1))
            if c < 0.55:
                return ("neg", self.gen("int", d - 1))
            if c < 0.70:
                return ("choice", self.gen("bool", d - 1), self.gen("int", d - 1), self.gen("int", d - 1))
            if c < 0.82:
                n = r.choice([1, 1, 2, 2, 3, 5])
                return ("fn", "$max", [self.gen("int", d - 1) for _ in range(n)])
            a = self.bound_arg(d - 1)
            if a is None:
                return ("fn", "$max", [self.gen("int", d - 1)])
            return ("fn", "$upper_bound" if c < 0.91 else "$lower_bound", [a])
        if ty == "bool":
            c = r.random()
            if c < 0.25:
                return ("bin", r.choice(LOGIC), self.gen("bool", d - 1), self.gen("bool", d - 1))
            if c < 0.50:
                return ("bin", r.choice(ORD), self.gen("int", d - 1), self.gen("int", d - 1))
            if c < 0.75:
                t = r.choice(["int", "int", "bool"] + [("enum", n) for n in self.env.enums])
                return ("bin", r.choice(EQ), self.gen(t, d - 1), self.gen(t, d - 1))
            if c < 0.87:
                return ("choice", self.gen("bool", d - 1), self.gen("bool", d - 1), self.gen("bool", d - 1))
            if self.env.fields and not self.closed:
                return ("fn", "$present", [("ref", r.choice(self.env.fields)[0], "any")])
            return ("bin", r.choice(EQ), self.gen("int", d - 1), self.gen("int", d - 1))
        if isinstance(ty, tuple):
            if r.random() < 0.7:
                return ("choice", self.gen("bool", d - 1), self.gen(ty, d - 1), self.gen(ty, d - 1))
            return self.leaf(ty)
        raise ValueError(ty)

    def int_with_value(self, v, d):
        """Closed integer expression that evaluates to v (for sizes, enum values, integer
        attributes), built from every integer operator."""
        r = self.r
        if d <= 0 or r.random() < 0.2:
            return ("num", v)
        c = r.choice(["+", "-", "*", "max", "choice", "neg"] + (["ub", "lb"] if self.const_bounds else []))
        if c == "+":
            a = r.randint(0, max(v, 0)) if v >= 0 else r.randint(v, 0)
            return ("bin", "+", self.int_with_value(a, d - 1), self.int_with_value(v - a, d - 1))
        if c == "-":
            b = r.randint(0, 5)
            return ("bin", "-", self.int_with_value(v + b, d - 1), self.int_with_value(b, d - 1))
        if c == "*":
            fs = [f for f in (1, 2, 3, 4, 8) if v % f == 0] or [1]
            f = r.choice(fs)
            return ("bin", "*", self.int_with_value(v // f, d - 1), self.int_with_value(f, d - 1))
        if c == "max":
            lo = [self.int_with_value(v - r.randint(0, 3), d - 1) for _ in range(r.randint(0, 2))]
            args = lo + [self.int_with_value(v, d - 1)]
            r.shuffle(args)
            return ("fn", "$max", args)
        if c == "choice":
            g = ExprGen(r, self.env, closed=True, const_bounds=self.const_bounds)
            return ("choice", g.gen("bool", min(d - 1, 2)), self.int_with_value(v, d - 1), self.int_with_value(v, d - 1))
        if c == "neg":
            return ("neg", self.int_with_value(-v, d - 1))
        if c == "ub":
            return ("fn", "$upper_bound", [self.int_with_value(v, d - 1)])
        return ("fn", "$lower_bound", [self.int_with_value(v, d - 1)])


class Module:
    """Lines + sites.  A site = (line index, position kind, expression, demanded type, env)."""

    def __init__(self):
        self.lines = []
        self.sites = []
        self.meta = {}

    def add(self, text, sites=()):
        """text contains {0}, {1}... placeholders for the sites' expressions."""
        idx = len(self.lines)
        self.lines.append([text, [s[1] for s in sites]])
        for j, (pos, e, ty, env) in enumerate(sites):
            self.sites.append({"line": idx, "slot": j, "pos": pos, "expr": e, "ty": ty, "env": env})
        return idx

    def text(self):
        return "".join(t.format(*[render(e) for e in es]) + "\n" for t, es in self.lines)

    def set_expr(self, site, e):
        self.lines[site["line"]][1][site["slot"]] = e


def gen_valid(r, maxdepth=6, n_items=10, steer_array_bool=True, const_bounds=False, signed_literal=True):
    """A well-typed module.  Returns Module."""
    m = Module()
    env0 = Env()
    enums = {"Ea": ["AA", "BB", "CC"], "Eb": ["XX", "YY"]}
    env0.enums = enums
    gclosed = ExprGen(r, env0, closed=True)
    env_noenum = Env()
    gvalue = ExprGen(r, env_noenum, closed=True)
    d = r.randint(1, maxdepth)
    m.add('[$default byte_order: "LittleEndian"]')
    if r.random() < 0.3:
        m.add('[expected_back_ends: "cpp"]')
    # enums: values are closed integer expressions
    for en, vals in enums.items():
        m.add("enum %s:" % en)
        if r.random() < 0.5:
            m.add("  [maximum_bits: {0}]", [("attr-int", gvalue.int_with_value(r.choice([16, 32, 64]), r.randint(0, d)), "int", env0)])
        if r.random() < 0.4:
            if signed_literal:
                m.add("  [is_signed: %s]" % r.choice(["true", "false"]))
            else:
                m.add("  [is_signed: {0}]", [("attr-boolconst", gvalue.gen("bool", 2), "bool", env0)])
        for i, v in enumerate(vals):
            m.add("  %s = {0}" % v, [("enum-value", gvalue.int_with_value(r.randint(0, 200), r.randint(0, d)), "int", env0)])
    # an external, for the builtins and the boolean-constant / integer-constant attributes
    if r.random() < 0.5:
        m.add("external Ext:")
        m.add("  [addressable_unit_size: {0}]", [("attr-int", gclosed.int_with_value(8, r.randint(0, 2)), "int", env0)])
        m.add("  [is_integer: %s]" % r.choice(["true", "false"]))
        cmpop = r.choice(ORD + EQ)
        m.add("  [static_requirements: $is_statically_sized && ($static_size_in_bits %s ({0}))]" % cmpop,
              [("attr-bool", gclosed.int_with_value(r.choice([8, 16, 32]), r.randint(0, 2)), "int", env0)])
    # a fixed-size struct with [fixed_size_in_bits]
    m.add("struct Fx:")
    m.add("  [fixed_size_in_bits: {0}]", [("attr-int", gclosed.int_with_value(16, r.randint(0, d)), "int", env0)])
    m.add("  0 [+2]  UInt  z")
    # parameterised struct
    penv = Env()
    penv.enums = enums
    penv.add("pa", "int", field=False)
    penv.add("pe", ("enum", "Ea"), field=False)
    m.add("struct Par(pa: UInt:8, pe: Ea):")
    m.add("  0 [+1]  UInt  q")
    penv.add("q", "int")
    g = ExprGen(r, penv)
    m.add("  let k = {0}", [("let", g.gen("int", d), "int", penv)])
    m.add("  if {0}:", [("if", g.gen("bool", d), "bool", penv)])
    m.add("    1 [+1]  UInt  rr")
    # main struct
    env = Env()
    env.enums = enums
    has_param = r.random() < 0.6
    m.add("struct Main(mp: UInt:8, me: Eb):" if has_param else "struct Main:")
    if has_param:
        env.add("mp", "int", field=False)
        env.add("me", ("enum", "Eb"), field=False)
    m.add("  0 [+1]  bits:")
    m.add("    0 [+1]  Flag  fa")
    m.add("    1 [+1]  Flag  fb")
    m.add("    2 [+3]  UInt  sm")
    m.add("  1 [+1]  UInt  x")
    m.add("  2 [+1]  Int   y")
    m.add("  3 [+1]  Ea    ea")
    m.add("  4 [+1]  Eb    eb")
    m.add("  5 [+2]  UInt:8[2]  arr")
    m.add("  6 [+2]  Par(1, Ea.AA)  sub")
    for nm, ty in [("fa", "bool"), ("fb", "bool"), ("sm", "int"), ("x", "int"), ("y", "int"),
                   ("ea", ("enum", "Ea")), ("eb", ("enum", "Eb")), ("sub.q", "int"), ("sub.k", "int")]:
        env.add(nm, ty)
    env.fields.append(("arr", "opaque"))
    env.fields.append(("sub", "opaque"))
    m.meta["opaque"] = ["arr", "sub"]
    struct_requires_at = None
    off = 8
    counter = [0]

    def fresh(p):
        counter[0] += 1
        return "%s%d" % (p, counter[0])

    for _ in range(n_items):
        g = ExprGen(r, env)
        kind = r.choice(["let-int", "let-int", "let-bool", "let-enum", "dyn-start", "size", "dyn-size", "array",
                         "if", "requires", "passed", "let-int", "if"])
        if kind.startswith("let-"):
            ty = {"let-int": "int", "let-bool": "bool", "let-enum": ("enum", r.choice(list(enums)))}[kind]
            nm = fresh("v")
            m.add("  let %s = {0}" % nm, [("let", ExprGen(r, env, const_bounds=const_bounds).gen(ty, d), ty, env.copy())])
            env.add(nm, ty)
        elif kind == "dyn-start":
            nm = fresh("f")
            m.add("  {0} [+1]  UInt  %s" % nm, [("field-start", g.gen("int", d), "int", env.copy())])
            env.add(nm, "int")
        elif kind == "size":
            nm = fresh("f")
            v = r.choice([1, 2, 4, 8])
            m.add("  %d [+{0}]  UInt  %s" % (off, nm), [("field-size", gclosed.int_with_value(v, d), "int", env0)])
            off += v
            env.add(nm, "int")
        elif kind == "dyn-size":
            nm = fresh("a")
            m.add("  %d [+{0}]  UInt:8[]  %s" % (off, nm), [("field-size", g.gen("int", d), "int", env.copy())])
            env.fields.append((nm, "opaque"))
            m.meta["opaque"].append(nm)
        elif kind == "array":
            nm = fresh("a")
            # array lengths: integer-only sub-expressions unless told otherwise (open finding)
            for _try in range(50):
                e = g.gen("int", d)
                if not steer_array_bool or not has_nonint_sub(e, "int"):
                    break
            else:
                e = ("num", 3)
            m.add("  %d [+{0}]  UInt:8[{1}]  %s" % (off, nm),
                  [("field-size", e, "int", env.copy()), ("array-length", e, "int", env.copy())])
            env.fields.append((nm, "opaque"))
            m.meta["opaque"].append(nm)
        elif kind == "if":
            nm = fresh("f")
            m.add("  if {0}:", [("if", g.gen("bool", d), "bool", env.copy())])
            m.add("    %d [+1]  UInt  %s" % (off, nm))
            off += 1
            env.add(nm, "int")
        elif kind == "requires":
            nm = fresh("f")
            m.add("  %d [+1]  UInt  %s" % (off, nm))
            off += 1
            env.add(nm, "int")
            renv = Env()
            renv.enums = enums
            renv.add("this", "int", field=False)
            m.add("    [requires: {0}]", [("requires", ExprGen(r, renv).gen("bool", d), "bool", renv)])
        elif kind == "passed":
            nm = fresh("s")
            m.add("  %d [+2]  Par({0}, {1})  %s" % (off, nm),
                  [("passed-int", g.gen("int", d), "int", env.copy()),
                   ("passed-enum", g.gen(("enum", "Ea"), d), ("enum", "Ea"), env.copy())])
            off += 2
            env.fields.append((nm, "opaque"))
            env.add(nm + ".q", "int")
    # a struct-level [requires] must come right after the header: insert it there
    if r.random() < 0.6:
        hdr = next(i for i, (t, _) in enumerate(m.lines) if t.startswith("struct Main"))
        # only names defined by the fixed prologue are safe to mention before the item loop
        renv = Env()
        renv.enums = enums
        for nm, ty in [("fa", "bool"), ("fb", "bool"), ("sm", "int"), ("x", "int"), ("y", "int"),
                       ("ea", ("enum", "Ea")), ("eb", ("enum", "Eb"))]:
            renv.add(nm, ty)
        e = ExprGen(r, renv).gen("bool", d)
        m.lines.insert(hdr + 1, ["  [requires: {0}]", [e]])
        for s in m.sites:
            if s["line"] > hdr:
                s["line"] += 1
        m.sites.append({"line": hdr + 1, "slot": 0, "pos": "requires", "expr": e, "ty": "bool", "env": renv})
    # a second structure that refers statically to a constant virtual field
    m.add("struct Cst:")
    m.add("  let c0 = {0}", [("let", gclosed.int_with_value(r.randint(0, 9), min(d, 3)), "int", env0)])
    m.add("  let c1 = {0}", [("let", ("bin", r.choice(ARITH), ("ref", "Cst.c0", "int"), ("num", 1)), "int", env0)])
    m.add("  0 [+Cst.c1 * 0 + 1]  UInt  w")
    m.meta["depth"] = d
    return m


# ---------------------------------------------------------------------------------------
# mutation catalogue: each entry breaks exactly one documented rule on one line.

def subterms(e, path=()):
    """(path, node, demanded type is unknown here) for every compound node."""
    yield path, e
    k = e[0]
    if k == "bin":
        yield from subterms(e[2], path + (2,))
        yield from subterms(e[3], path + (3,))
    elif k == "neg":
        yield from subterms(e[1], path + (1,))
    elif k == "choice":
        for i in (1, 2, 3):
            yield from subterms(e[i], path + (i,))
    elif k == "fn":
        for i, a in enumerate(e[2]):
            yield from subterms(a, path + (2, i))


def replace(e, path, new):
    if not path:
        return new
    i = path[0]
    if e[0] == "fn" and i == 2:
        args = list(e[2])
        args[path[1]] = replace(args[path[1]], path[2:], new)
        return (e[0], e[1], args)
    l = list(e)
    l[i] = replace(l[i], path[1:], new)
    return tuple(l)


def wrong_for(r, ty, env, opaque_names, allow=("int", "bool", "enum", "opaque")):
    """An expression whose type is anything but `ty` (well-typed in itself)."""
    g = ExprGen(r, env)
    cands = []
    if ty != "int" and "int" in allow:
        cands.append(lambda: g.gen("int", r.randint(0, 2)))
    if ty != "bool" and "bool" in allow:
        cands.append(lambda: g.gen("bool", r.randint(0, 2)))
    if "enum" in allow:
        for en in env.enums:
            if ty != ("enum", en):
                cands.append(lambda en=en: g.gen(("enum", en), r.randint(0, 1)))
    if "opaque" in allow and opaque_names:
        cands.append(lambda: ("ref", r.choice(opaque_names), "opaque"))
    return r.choice(cands)()


def mutate(r, m):
    """Apply one catalogue entry at a random site of Module m (in place).
    Returns dict(rule, line (1-based), detail) or None if the entry found no site."""
    entry = r.choice(CATALOGUE)
    return entry(r, m)


def _pick_sites(r, m, pred):
    ss = [s for s in m.sites if pred(s)]
    return r.choice(ss) if ss else None


def _visible_opaque(m, site):
    names = [t for t, ty in site["env"].fields if ty == "opaque"]
    return names


def _nodes(site, pred):
    return [(p, n) for p, n in subterms(m_expr(site)) if pred(n)]


def m_expr(site):
    return site["expr"]


def _apply(m, site, newexpr, rule, detail=""):
    m.set_expr(site, newexpr)
    # an array item writes the same expression in two slots (size and length): keep them in sync
    return {"rule": rule, "line": site["line"] + 1, "pos": site["pos"], "detail": detail,
            "expr": render(newexpr)}


def mut_operand_kind(r, m):
    """wrong operand kind for an arithmetic / logical operator, either side"""
    cands = []
    for s in m.sites:
        for p, n in subterms(s["expr"]):
            if n[0] == "bin" and n[1] in ARITH + LOGIC:
                cands.append((s, p, n))
            if n[0] == "neg":
                cands.append((s, p, n))
    if not cands:
        return None
    s, p, n = r.choice(cands)
    if n[0] == "neg":
        bad = wrong_for(r, "int", s["env"], _visible_opaque(m, s))
        new = ("neg", bad)
        side = "operand"
    else:
        want = "int" if n[1] in ARITH else "bool"
        side = r.choice([2, 3])
        bad = wrong_for(r, want, s["env"], _visible_opaque(m, s))
        new = replace(n, (side,), bad)
        side = "left" if side == 2 else "right"
    return _apply(m, s, replace(s["expr"], p, new), "operand-kind:%s:%s" % (n[1] if n[0] == "bin" else "neg", side))


def mut_comparison(r, m):
    """== / != on different kinds or two different enums; ordering on boolean / opaque / mixed"""
    cands = []
    for s in m.sites:
        for p, n in subterms(s["expr"]):
            if n[0] == "bin" and n[1] in ORD + EQ:
                cands.append((s, p, n))
    if not cands:
        return None
    s, p, n = r.choice(cands)
    env, opq = s["env"], _visible_opaque(m, s)
    g = ExprGen(r, env)
    side = r.choice([2, 3])
    if n[1] in EQ:
        variant = r.choice(["int-bool", "int-enum", "bool-enum", "two-enums", "opaque"])
        if variant == "int-bool":
            a, b = g.gen("int", 1), g.gen("bool", 1)
        elif variant == "int-enum":
            a, b = g.gen("int", 1), g.gen(("enum", "Ea"), 1)
        elif variant == "bool-enum":
            a, b = g.gen("bool", 1), g.gen(("enum", "Eb"), 1)
        elif variant == "two-enums":
            a, b = g.gen(("enum", "Ea"), 1), g.gen(("enum", "Eb"), 1)
        else:
            if not opq:
                return None
            a, b = ("ref", r.choice(opq), "opaque"), g.gen("int", 1)
        if side == 3:
            a, b = b, a
        new = ("bin", n[1], a, b)
    else:
        variant = r.choice(["bool", "bool-both", "int-enum", "opaque", "enum-enum"])
        if variant == "enum-enum":
            a, b = g.gen(("enum", "Ea"), 1), g.gen(("enum", "Ea"), 1)
        elif variant == "bool":
            a, b = g.gen("bool", 1), g.gen("int", 1)
        elif variant == "bool-both":
            a, b = g.gen("bool", 1), g.gen("bool", 1)
        elif variant == "int-enum":
            a, b = g.gen("int", 1), g.gen(("enum", "Ea"), 1)
        else:
            if not opq:
                return None
            a, b = ("ref", r.choice(opq), "opaque"), g.gen("int", 1)
        if side == 3:
            a, b = b, a
        new = ("bin", n[1], a, b)
    return _apply(m, s, replace(s["expr"], p, new), "comparison:%s:%s" % (n[1], variant))


def mut_choice(r, m):
    """non-boolean ?: condition, branches of different kinds / different enums"""
    cands = []
    for s in m.sites:
        for p, n in subterms(s["expr"]):
            if n[0] == "choice":
                cands.append((s, p, n))
    if not cands:
        return None
    s, p, n = r.choice(cands)
    env, opq = s["env"], _visible_opaque(m, s)
    g = ExprGen(r, env)
    variant = r.choice(["cond-int", "cond-enum", "branches-int-bool", "branches-two-enums", "branches-int-enum",
                        "branch-opaque"])
    if variant == "cond-int":
        new = ("choice", g.gen("int", 1), n[2], n[3])
    elif variant == "cond-enum":
        new = ("choice", g.gen(("enum", "Ea"), 1), n[2], n[3])
    elif variant == "branches-int-bool":
        a, b = g.gen("int", 1), g.gen("bool", 1)
        if r.random() < 0.5:
            a, b = b, a
        new = ("choice", n[1], a, b)
    elif variant == "branches-two-enums":
        a, b = g.gen(("enum", "Ea"), 1), g.gen(("enum", "Eb"), 1)
        if r.random() < 0.5:
            a, b = b, a
        new = ("choice", n[1], a, b)
    elif variant == "branches-int-enum":
        a, b = g.gen("int", 1), g.gen(("enum", "Eb"), 1)
        if r.random() < 0.5:
            a, b = b, a
        new = ("choice", n[1], a, b)
    else:
        if not opq:
            return None
        new = ("choice", n[1], ("ref", r.choice(opq), "opaque"), ("ref", r.choice(opq), "opaque"))
    return _apply(m, s, replace(s["expr"], p, new), "choice:" + variant)


def mut_function(r, m):
    """wrong arity / argument kind of $max, $present, $upper_bound, $lower_bound"""
    s = _pick_sites(r, m, lambda s: s["pos"] in ("let", "if", "requires", "field-start", "passed-int", "field-size"))
    if s is None:
        return None
    env, opq = s["env"], _visible_opaque(m, s)
    g = ExprGen(r, env)
    # find an integer or boolean sub-expression to replace by the broken call
    ints = [(p, n) for p, n in subterms(s["expr"]) if n[0] in ("num",) or (n[0] == "ref" and n[2] == "int")
            or (n[0] == "bin" and n[1] in ARITH) or (n[0] == "fn" and n[1] != "$present")]
    bools = [(p, n) for p, n in subterms(s["expr"]) if n[0] == "bool" or (n[0] == "ref" and n[2] == "bool")
             or (n[0] == "bin" and n[1] in ORD + EQ + LOGIC) or (n[0] == "fn" and n[1] == "$present")]
    variant = r.choice(["max-0", "max-bool", "max-enum", "present-0", "present-2", "present-expr", "present-const",
                        "upper-0", "upper-2", "upper-bool", "lower-0", "lower-2", "lower-enum"])
    if variant.startswith("present"):
        if not bools:
            return None
        p, _ = r.choice(bools)
        fs = [t for t, _ in env.fields] or ["x"]
        if variant == "present-0":
            new = ("fn", "$present", [])
        elif variant == "present-2":
            new = ("fn", "$present", [("ref", r.choice(fs), "any"), ("ref", r.choice(fs), "any")])
        elif variant == "present-expr":
            new = ("fn", "$present", [("bin", "+", g.gen("int", 1), ("num", 1))])
        else:
            new = ("fn", "$present", [r.choice([("num", 1), ("bool", True), ("enum", "Ea", "AA")])])
    else:
        if not ints:
            return None
        p, _ = r.choice(ints)
        fn = {"max": "$max", "upper": "$upper_bound", "lower": "$lower_bound"}[variant.split("-")[0]]
        what = variant.split("-")[1]
        if what == "0":
            new = ("fn", fn, [])
        elif what == "2":
            new = ("fn", fn, [g.gen("int", 1), g.gen("int", 1)])
        elif what == "bool":
            args = [g.gen("bool", 1)]
            if fn == "$max" and r.random() < 0.5:
                args = [g.gen("int", 1)] + args
            new = ("fn", fn, args)
        else:
            new = ("fn", fn, [g.gen(("enum", "Ea"), 1)])
    return _apply(m, s, replace(s["expr"], p, new), "function:" + variant)


def mut_position(r, m):
    """an expression of the wrong kind for its position"""
    s = _pick_sites(r, m, lambda s: s["pos"] in ("field-start", "field-size", "array-length", "if", "requires",
                                                 "attr-int", "enum-value"))
    if s is None:
        return None
    env, opq = s["env"], _visible_opaque(m, s)
    if s["pos"] in ("attr-int", "enum-value"):
        g = ExprGen(r, env, closed=True)
        bad = r.choice([g.gen("bool", 1), g.gen(("enum", "Ea"), 0)])
        if s["pos"] == "enum-value" and bad[0] == "enum":
            bad = ("enum", "Eb", "XX") if "Eb" in env.enums else bad
    else:
        bad = wrong_for(r, s["ty"], env, opq)
    rule = "position:" + s["pos"]
    if s["pos"] == "enum-value":
        rule += ":enum" if bad[0] == "enum" else ":bool"
    info = _apply(m, s, bad, rule)
    # arrays: size and length slots of the same line both hold the expression; mutate only this slot
    return info


def mut_parameter(r, m):
    """parameter misuse: array / boolean / struct parameter type; wrong number or kind of passed parameters"""
    variant = r.choice(["decl-array", "decl-flag", "decl-struct", "pass-missing", "pass-extra", "pass-int-for-enum",
                        "pass-enum-for-int", "pass-bool", "pass-other-enum", "pass-none"])
    if variant.startswith("decl"):
        idx = next(i for i, (t, _) in enumerate(m.lines) if t.startswith("struct Par("))
        new = {"decl-array": "struct Par(pa: UInt:8, pe: Ea, px: UInt:8[2]):",
               "decl-flag": "struct Par(pa: UInt:8, pe: Ea, px: Flag):",
               "decl-struct": "struct Par(pa: UInt:8, pe: Ea, px: Fx):"}[variant]
        m.lines[idx][0] = new
        # the fixed prologue instantiates Par(1, Ea.AA): give it the third argument so that the
        # only broken rule is the declaration
        for ln in m.lines:
            if "Par(1, Ea.AA)" in ln[0]:
                ln[0] = ln[0].replace("Par(1, Ea.AA)", "Par(1, Ea.AA, 0)")
            elif "Par({0}, {1})" in ln[0]:
                ln[0] = ln[0].replace("Par({{0}}, {{1}})".format(), "Par({0}, {1}, 0)")
        return {"rule": "parameter:" + variant, "line": idx + 1, "pos": "param-decl", "detail": new, "expr": ""}
    idx = next(i for i, (t, _) in enumerate(m.lines) if "Par(1, Ea.AA)" in t)
    rep = {"pass-missing": "Par(1)", "pass-extra": "Par(1, Ea.AA, 2)", "pass-int-for-enum": "Par(1, 2)",
           "pass-enum-for-int": "Par(Ea.BB, Ea.AA)", "pass-bool": "Par(fa, Ea.AA)",
           "pass-other-enum": "Par(1, Eb.XX)", "pass-none": "Par"}[variant]
    m.lines[idx][0] = m.lines[idx][0].replace("Par(1, Ea.AA)", rep)
    return {"rule": "parameter:" + variant, "line": idx + 1, "pos": "passed", "detail": rep, "expr": rep}


ATTR_MUTS = [
    # (anchor line prefix, indentation, attribute text, rule)
    ("struct Fx:", "  ", '[requires: 3]', "attr:requires-int"),
    ("struct Fx:", "  ", '[requires: "yes"]', "attr:requires-string"),
    ("struct Fx:", "  ", '[requires: Ea.AA]', "attr:requires-enum"),
    ("  0 [+2]  UInt  z", "    ", '[requires: this + 1]', "attr:requires-int"),
    ("  0 [+2]  UInt  z", "    ", '[byte_order: 5]', "attr:byte_order-int"),
    ("  0 [+2]  UInt  z", "    ", '[byte_order: true]', "attr:byte_order-bool"),
    ("  0 [+2]  UInt  z", "    ", '[text_output: 3]', "attr:text_output-int"),
    ("  0 [+2]  UInt  z", "    ", '[text_output: false]', "attr:text_output-bool"),
    ("enum Ea:", "  ", '[is_signed: "yes"]', "attr:is_signed-string"),
    ("enum Ea:", "  ", '[is_signed: 1]', "attr:is_signed-int"),
    ("enum Ea:", "  ", '[is_signed: Eb.XX]', "attr:is_signed-enum"),
    ("enum Ea:", "  ", '[maximum_bits: true]', "attr:maximum_bits-bool"),
    ("enum Ea:", "  ", '[maximum_bits: "8"]', "attr:maximum_bits-string"),
    ("enum Ea:", "  ", '[maximum_bits: Eb.XX]', "attr:maximum_bits-enum"),
    ("struct Fx:", "  ", '[fixed_size_in_bits: "8"]', "attr:fixed_size-string"),
    ("struct Fx:", "  ", '[fixed_size_in_bits: true]', "attr:fixed_size-bool"),
    (None, "", '[expected_back_ends: 5]', "attr:expected_back_ends-int"),
    (None, "", '[$default byte_order: 5]', "attr:default-byte_order-int"),
    ("external Ext:", "  ", '[is_integer: 1]', "attr:is_integer-int"),
    ("external Ext:", "  ", '[is_integer: "no"]', "attr:is_integer-string"),
    ("external Ext:", "  ", '[static_requirements: 3]', "attr:static_requirements-int"),
    ("external Ext:", "  ", '[static_requirements: "x"]', "attr:static_requirements-string"),
    ("external Ext:", "  ", '[addressable_unit_size: true]', "attr:addressable_unit_size-bool"),
    ("external Ext:", "  ", '[addressable_unit_size: "8"]', "attr:addressable_unit_size-string"),
]


def mut_attribute(r, m):
    """attribute value of the wrong kind"""
    anchor, ind, text, rule = r.choice(ATTR_MUTS)
    name = text.strip("[]").split(":")[0].replace("$default ", "")
    if anchor is None:
        # module level: replace an existing attribute of that name, else insert at the top
        for i, ln in enumerate(m.lines):
            if ln[0].startswith("[") and name in ln[0]:
                m.lines[i] = [text, []]
                return {"rule": rule, "line": i + 1, "pos": "attribute", "detail": text, "expr": text}
        _insert(m, 0, text)
        return {"rule": rule, "line": 1, "pos": "attribute", "detail": text, "expr": text}
    idx = next((i for i, (t, _) in enumerate(m.lines) if t == anchor), None)
    if idx is None:
        return None
    # remove an existing attribute of the same name directly below the anchor (no duplicates)
    j = idx + 1
    while j < len(m.lines) and m.lines[j][0].startswith(ind + "["):
        if m.lines[j][0].startswith(ind + "[" + name + ":"):
            m.lines[j] = [ind + text, []]
            m.sites = [s for s in m.sites if s["line"] != j]
            return {"rule": rule, "line": j + 1, "pos": "attribute", "detail": text, "expr": text}
        j += 1
    _insert(m, idx + 1, ind + text)
    return {"rule": rule, "line": idx + 2, "pos": "attribute", "detail": text, "expr": text}


def _insert(m, at, text):
    m.lines.insert(at, [text, []])
    for s in m.sites:
        if s["line"] >= at:
            s["line"] += 1


def mut_static_ref(r, m):
    """static reference to a physical field / to a parameter"""
    s = _pick_sites(r, m, lambda s: s["pos"] in ("let", "if", "field-start") and "x" in s["env"].by_ty.get("int", []))
    if s is None:
        return None
    ints = [(p, n) for p, n in subterms(s["expr"]) if n[0] == "num" or (n[0] == "ref" and n[2] == "int")]
    if not ints:
        return None
    p, _ = r.choice(ints)
    new = ("ref", "Main.x", "int")
    return _apply(m, s, replace(s["expr"], p, new), "static-ref:physical")


def mut_next(r, m):
    """`$next` where it is not allowed: [requires] value, passed parameter, `let` value"""
    s = _pick_sites(r, m, lambda s: s["pos"] in ("requires", "passed-int"))
    if s is None:
        return None
    ints = [(p, n) for p, n in subterms(s["expr"]) if n[0] == "num" or (n[0] == "ref" and n[2] == "int")]
    if not ints:
        return None
    p, _ = r.choice(ints)
    return _apply(m, s, replace(s["expr"], p, ("raw", "$next")), "builtin:next-in-" + s["pos"])


CATALOGUE = [mut_next, mut_operand_kind, mut_operand_kind, mut_comparison, mut_comparison, mut_choice, mut_function,
             mut_function, mut_position, mut_position, mut_parameter, mut_attribute, mut_attribute, mut_static_ref]
