"""C14 — physical layout and attribute rules are enforced exactly as documented.

Ties
  T  harness/translate/c14.py regenerates Generated/{Prelude,Reserved,AttrTable}.lean from
     $VERIF_REPO on every run; the Lean obligations over them are re-elaborated.
  C  every case (a .emb text) is compiled by the real front end; the IR just before
     `attribute_checker.normalize_and_verify` is abstracted (harness/lib/c14abs.py) and fed to
     the Lean model (`CHECK`); the error kinds must be equal IN ORDER (the 64-bit gate
     included, through C05's `Emboss.Bounds.gate`); for accepted modules the byte order
     the front end attached to every physical field (IR after normalisation) must equal
     the model's `effByteOrder` (`BYTEORDER`).
Spec oracle (Python, written from doc/language-reference.md): the generator knows whether a
case obeys every documented rule or which single rule it breaks; accepted-but-should-reject,
rejected-but-should-accept and any Python exception are failing inputs on the real code; for
every accepted module the byte order of every physical field must be the documented one (own
attribute, else nearest enclosing `$default`, else "Null": c14abs.spec_byte_orders).
"""
import json
import os

from harness.lib import common, emb
from harness.lib import c14abs
from harness.translate import c14 as tr

PROP = "C14"
MODEL = "model_c14"
# crash sites (open findings) the model reproduces as `crash`
MODELLED_CRASHES = set()      # none left: the model has no `crash` that the real code reaches


# ======================================================================== observation
def compile_files(files, main, stop=None):
    return emb.compile_text(files, main=main, stop_before_step=stop)


def crash_key(exc):
    import traceback
    tb = traceback.extract_tb(exc.__traceback__)
    fr = tb[-1] if tb else None
    where = "%s:%s" % (os.path.basename(fr.filename), fr.name) if fr else "?"
    return "crash:%s:%s" % (where, type(exc).__name__)


def observe(files, main="m.emb"):
    """Real front end on one case.  Returns dict(kinds|exc, program json or None, scope)."""
    ir, errors, exc = compile_files(files, main)
    ob = {"exc": None, "kinds": None, "program": None, "scope": "in"}
    if exc is not None:
        ob["exc"] = "%s: %s" % (crash_key(exc), str(exc)[:200])
        ob["exc_key"] = crash_key(exc)
    else:
        ob["kinds"] = c14abs.real_kinds(errors)
        ob["messages"] = [g[0].message.split("\n")[0] for g in errors]
        ob["locations"] = [str(g[0].location) for g in errors]
        ob["notes"] = [[str(n.location) for n in g[1:]] for g in errors]
        if not errors and ir is not None:
            ob["bo_real"] = c14abs.real_byte_orders(ir)
    # abstraction for the model
    try:
        ir1, errors1, exc1 = compile_files(files, main, "normalize_and_verify")
        if exc1 is not None:
            ob["scope"] = "earlier-crash"
            return ob
        if not errors1 and ir1 is not None and "bo_real" in ob:
            ob["bo_spec"] = c14abs.spec_byte_orders(ir1)
        if errors1:
            k1 = c14abs.real_kinds(errors1)
            if all(k in c14abs.EARLY_KINDS for k in k1):
                ir0, errors0, exc0 = compile_files(files, main, "check_early_constraints")
                if exc0 is None and not errors0:
                    ob["program"] = c14abs.abstract(ir0, bounds=False)
                    return ob
            ob["scope"] = "earlier-pass"
            return ob
        ob["program"] = c14abs.abstract(ir1)
    except c14abs.OutOfScope as e:
        ob["scope"] = "out-of-model:%s" % e
    return ob


def model_line(program):
    return "CHECK " + json.dumps(program, separators=(",", ":"))


def bo_line(program):
    return "BYTEORDER " + json.dumps(program, separators=(",", ":"))


def attrs_lines(program):
    """One `ATTRS` op per non-empty attribute list, in the order of `check_attributes_in_ir`."""
    out = []
    for scope, attrs in c14abs.attr_lists(program):
        if attrs:
            out.append(("ATTRS %s %s" % (scope, json.dumps(attrs, separators=(",", ":"))), attrs))
    return out


def located_from_model(answers, lists):
    """model answers of the ATTRS ops of one case -> [(kind, location, [note locations])]."""
    out = []
    for ans, attrs in zip(answers, lists):
        if not ans.startswith("located"):
            raise common.InfraError("model answered %r to ATTRS" % ans[:100])
        for item in [x for x in ans[len("located"):].strip().split(";") if x]:
            kind, where = item.rsplit("@", 1)
            where, _, note = where.partition("+")
            idx, part = where.split(".")
            a = attrs[int(idx)]
            if a["loc"]["syn"]:
                continue            # errors in synthetic copies are hidden by error.split_errors
            out.append((kind, a["loc"][part], [attrs[int(note)]["loc"]["whole"]] if note else []))
    return out


def field_located_from_model(ans, program):
    """FIELDLOC answer -> [(kind, location or None (= some `$default byte_order` value))], defaults"""
    if not ans.startswith("fieldloc"):
        raise common.InfraError("model answered %r to FIELDLOC" % ans[:100])
    fields, defaults = c14abs.fields_by_id(program)
    out = []
    for item in [x for x in ans[len("fieldloc"):].strip().split(";") if x]:
        who, _, rest = item.partition(":")
        kind, _, at = rest.rpartition("@")
        tid, _, fname = who.partition(".")
        f = fields[(int(tid), fname)]
        if at == "field":
            loc = f["loc"]
        elif at == "inherited":
            loc = None
        else:
            loc = f["attrs"][int(at[4:])]["loc"]["value"]
        out.append((kind, loc))
    return out, defaults


def located_real(ob):
    return [(k, l, n) for k, l, n in zip(ob["kinds"], ob["locations"], ob["notes"])]


def expected_model_answer(ob):
    """What the model must print if it agrees with the real front end: the error kinds in the
    order of the real error list."""
    if ob["exc"] is not None:
        return None     # compared loosely: model must contain `crash`
    ks = ob["kinds"]
    return "errors" + (" " + ";".join(ks) if ks else "")


def expected_bo_answer(ob, program):
    """`bo <typeid>.<field>=<value|->;…` in the model's enumeration order (modules in order,
    type definitions in preorder, physical fields in order), from the real IR after
    normalisation."""
    real = ob["bo_real"]
    out = []

    def go(mf, td):
        for f in td["fields"]:
            if not f["virtual"]:
                out.append("%d.%s=%s" % (td["id"], f["name"], real.get((mf, td["path"], f["name"])) or "-"))
        for sub in td["sub"]:
            go(mf, sub)
    for m in program:
        for td in m["types"]:
            go(m["file"], td)
    return "bo" + (" " + ";".join(out) if out else "")


# ======================================================================== generator
SCALARS = ["UInt", "Int", "Bcd"]
BO = ['"LittleEndian"', '"BigEndian"']


class Case:
    def __init__(self, text, accept, rule, kinds=None, tag="", files=None, main="m.emb"):
        self.text = text
        self.accept = accept          # spec verdict: True = every documented rule obeyed
        self.rule = rule              # documented rule exercised / broken
        self.kinds = kinds            # for violations: acceptable real error kinds (set) or None
        self.tag = tag
        self.files = files or {"m.emb": text}
        self.main = main


def mod(body, default='[$default byte_order: "LittleEndian"]\n'):
    return default + body


def valid_boundary_cases():
    """All scalar types at boundary widths, in struct and bits, with every byte-order style."""
    out = []
    for ty in SCALARS:
        for w in (1, 2, 7, 8, 9, 31, 32, 33, 63, 64):
            out.append(Case(mod("bits Foo:\n  0 [+%d]  %s  x\n" % (w, ty)), True,
                            "scalar-width", tag="%s:%d in bits" % (ty, w)))
            out.append(Case(mod("bits Foo:\n  0 [+%d]  %s:%d  x\n" % (w, ty, w)), True,
                            "explicit-size", tag="%s:%d explicit in bits" % (ty, w)))
        for b in (1, 2, 3, 4, 7, 8):
            out.append(Case(mod("struct Foo:\n  0 [+%d]  %s  x\n" % (b, ty)), True,
                            "scalar-width", tag="%s %d bytes" % (ty, b)))
            out.append(Case("struct Foo:\n  0 [+%d]  %s:%d  x\n    [byte_order: %s]\n" % (
                b, ty, 8 * b, BO[b % 2]), True, "byte-order", tag="%s own byte order" % ty))
            out.append(Case("struct Foo:\n  [$default byte_order: %s]\n  0 [+%d]  %s  x\n" % (
                BO[b % 2], b, ty), True, "byte-order", tag="struct default"))
    out.append(Case("struct Foo:\n  0 [+1]  UInt  x\n  1 [+1]  Int:8  y\n  2 [+1]  Bcd  z\n", True,
                    "byte-order", tag="one-byte fields need none"))
    out.append(Case('struct Foo:\n  0 [+1]  UInt  x\n    [byte_order: "Null"]\n', True, "byte-order"))
    out.append(Case('struct Foo:\n  0 [+4]  UInt:8[4]  x\n    [byte_order: "Null"]\n', True, "byte-order"))
    out.append(Case("struct Foo:\n  0 [+4]  UInt:8[4]  x\n  4 [+4]  UInt:8[]  y\n", True, "byte-order"))
    out.append(Case(mod("bits Foo:\n  0 [+1]  Flag  x\n  1 [+1]  Flag:1  y\n"), True, "scalar-width"))
    for w in (32, 64):
        out.append(Case(mod("struct Foo:\n  0 [+%d]  Float  x\n" % (w // 8)), True, "scalar-width"))
        out.append(Case(mod("bits Foo:\n  0 [+%d]  Float:%d  x\n" % (w, w)), True, "scalar-width"))
    # enums
    for mb in (1, 2, 8, 31, 32, 63, 64):
        hi = 2 ** mb - 1
        out.append(Case(mod("enum Ee:\n  [maximum_bits: %d]\n  AA = 0\n  BB = %d\nbits Foo:\n"
                            "  0 [+%d]  Ee  x\n  %d [+1]  Ee  y\n" % (mb, hi, mb, mb if mb < 64 else 0)),
                        mb < 64 or True, "enum", tag="unsigned enum max %d" % mb))
        lo = -(2 ** (mb - 1))
        out.append(Case(mod("enum Ee:\n  [maximum_bits: %d]\n  [is_signed: true]\n  AA = %d\n  BB = %d\n"
                            "bits Foo:\n  0 [+%d]  Ee  x\n" % (mb, lo, -lo - 1, mb)), True, "enum",
                        tag="signed enum max %d" % mb))
    out.append(Case(mod("enum Ee:\n  AA = -1\n  BB = 9223372036854775807\nstruct Foo:\n  0 [+8]  Ee  x\n"),
                    True, "enum", tag="inferred signed"))
    out.append(Case(mod("enum Ee:\n  AA = 0\n  BB = 18446744073709551615\nstruct Foo:\n  0 [+8]  Ee  x\n"),
                    True, "enum", tag="inferred unsigned"))
    out.append(Case(mod("enum Ee:\n  [is_signed: false]\n  AA = 5\nstruct Foo:\n  0 [+1]  Ee  x\n  1 [+2]  Ee  y\n"),
                    True, "enum"))
    # bits / nesting / anonymous bits
    out.append(Case(mod("bits Bb:\n  0 [+3]  UInt  a\n  3 [+5]  Int  b\nbits Cc:\n  0 [+8]  Bb  b\n"
                        "  8 [+56]  UInt  rest\nstruct Foo:\n  0 [+8]  Cc  c\n  8 [+1]  Bb  b\n"), True,
                    "bits", tag="bits in bits in struct; 64-bit bits"))
    out.append(Case(mod("struct Foo:\n  0 [+2]  bits:\n    0 [+4]  UInt  lo\n    4 [+12]  UInt  hi\n"
                        "  2 [+1]  bits:\n    0 [+1]  Flag  ff\n    1 [+7]  Int  gg\n"), True, "bits",
                    tag="anonymous bits"))
    out.append(Case("struct Foo:\n  0 [+2]  bits:\n    [byte_order: \"BigEndian\"]\n    0 [+16]  UInt  x\n",
                    True, "byte-order", tag="byte order on anonymous bits"))
    out.append(Case(mod("struct Foo:\n  0 [+4]  bits:\n    0 [+4]  UInt  lo\n"), True, "bits",
                    tag="anonymous bits smaller than its field"))
    out.append(Case(mod("struct Inner:\n  0 [+2]  UInt  a\nstruct Foo:\n  0 [+2]  Inner  i\n"
                        "  2 [+8]  Inner[4]  arr\n  10 [+4]  Inner[2][1]  arr2\n"), True, "arrays"))
    out.append(Case("struct Foo:\n  [$default byte_order: \"BigEndian\"]\n  struct Inner:\n"
                    "    0 [+2]  UInt  a\n  0 [+2]  Inner  i\n", True, "byte-order",
                    tag="struct default reaches nested type"))
    out.append(Case(mod("struct Foo:\n  [$default byte_order: \"BigEndian\"]\n  0 [+2]  UInt  a\n"
                        "  2 [+2]  UInt  b\n    [byte_order: \"LittleEndian\"]\n"), True, "byte-order",
                    tag="override chain"))
    # arrays
    out.append(Case(mod("struct Foo:\n  0 [+1]  UInt  n\n  1 [+n]  UInt:8[]  a\n"), True, "arrays"))
    out.append(Case(mod("struct Foo:\n  0 [+1]  UInt  n\n  1 [+n*4]  UInt:16[2][]  a\n"), True, "arrays"))
    out.append(Case(mod("struct Foo:\n  0 [+24]  UInt:16[2][3][2]  a\n"), True, "arrays"))
    out.append(Case(mod("struct Foo:\n  0 [+1]  UInt  n\n  1 [+n*2]  UInt:16[n]  a\n"), True, "arrays",
                    tag="dynamic outer length"))
    out.append(Case(mod("bits Foo:\n  0 [+12]  UInt:3[4]  a\n  12 [+5]  Flag[5]  f\n"), True, "arrays",
                    tag="sub-byte elements in bits"))
    out.append(Case(mod("enum Ee:\n  AA = 1\nstruct Foo:\n  0 [+4]  Ee:8[4]  a\n"), True, "arrays"))
    # attributes
    out.append(Case('[$default byte_order: "BigEndian"]\n[expected_back_ends: "cpp, xyz"]\n'
                    '[(cpp) namespace: "a::b"]\n[(xyz) anything: 3]\nstruct Foo:\n  0 [+2]  UInt  a\n',
                    True, "attributes", tag="expected back ends"))
    out.append(Case(mod("struct Foo:\n  [fixed_size_in_bits: 24]\n  0 [+2]  UInt  a\n  2 [+1]  UInt  b\n"
                        "bits Bar:\n  [fixed_size_in_bits: 9]\n  0 [+9]  UInt  a\n"), True, "attributes"))
    out.append(Case(mod("struct Foo:\n  [requires: a > 1]\n  0 [+2]  UInt  a\n    [requires: this < 100]\n"
                        "    [text_output: \"Skip\"]\n  let b = a + 1\n    [requires: this > 0]\n"
                        "    [text_output: \"Emit\"]\n"), True, "attributes"))
    out.append(Case(mod("enum Ee:\n  AA = 1\n    [(cpp) anything: 1]\nstruct Foo:\n  0 [+1]  Ee  e\n"
                        "    [requires: this == Ee.AA]\n"), True, "attributes",
                    tag="(cpp) attr on enum value is the back end's business"))
    out.append(Case("external Ext:\n  [addressable_unit_size: 8]\n  [fixed_size_in_bits: 16]\n"
                    "  [static_requirements: $is_statically_sized && $static_size_in_bits == 16]\n"
                    "  [is_integer: false]\nstruct Foo:\n  0 [+2]  Ext  e\n  2 [+4]  Ext[2]  es\n",
                    True, "externals"))
    out.append(Case("external Ext:\n  [addressable_unit_size: 1]\n"
                    "  [static_requirements: $static_size_in_bits % 2 == 0]\nbits Foo:\n  0 [+2]  Ext  e\n",
                    None, "externals", tag="unsupported operator in requirement"))
    # parameters
    out.append(Case(mod("enum Ee:\n  AA = 1\nstruct Foo(n: UInt:8, m: Int:64, e: Ee):\n  0 [+n]  UInt:8[]  a\n"),
                    True, "parameters"))
    return out


W_BAD = [0, 65, 72, 128]


def violation_cases(words):
    """Single-rule violations at boundary values.  `kinds` = error kinds the documentation
    leads one to expect (None = any rejection)."""
    out = []
    V = lambda text, rule, kinds=None, tag="": out.append(Case(text, False, rule, kinds, tag))  # noqa: E731
    for ty in SCALARS:
        V(mod("bits Foo:\n  0 [+0]  %s  x\n" % ty), "scalar-width", {"req-not-met:" + ty}, "0 bits")
        V(mod("struct Foo:\n  0 [+0]  %s  x\n" % ty), "scalar-width", {"req-not-met:" + ty}, "0 bytes")
        V(mod("struct Foo:\n  0 [+9]  %s  x\n" % ty), "scalar-width", {"req-not-met:" + ty}, "72 bits")
        V(mod("struct Foo:\n  0 [+16]  %s  x\n" % ty), "scalar-width", {"req-not-met:" + ty}, "128 bits")
        V(mod("struct Foo:\n  0 [+9]  %s:72  x\n" % ty), "scalar-width", {"req-not-met:" + ty}, "explicit 72")
        V(mod("struct Foo:\n  0 [+8]  bits:\n    0 [+64]  UInt  a\n  8 [+9]  bits:\n    0 [+65]  %s  x\n" % ty),
          "scalar-width", {"req-not-met:" + ty, "bits-too-big"}, "65 bits")
        V(mod("struct Foo:\n  0 [+1]  UInt  n\n  1 [+n]  %s  x\n" % ty), "scalar-width",
          {"req-not-met:" + ty}, "dynamic size scalar")
        V(mod("struct Foo:\n  0 [+4]  %s[4]  x\n" % ty), "arrays", {"elem-not-fixed", "req-not-met:" + ty},
          "array of unsized scalar")
    V(mod("bits Foo:\n  0 [+2]  Flag  x\n"), "scalar-width", {"fixed-wrong-field"}, "Flag 2")
    V(mod("bits Foo:\n  0 [+2]  Flag:2  x\n"), "explicit-size", {"explicit-mismatch"}, "Flag:2")
    V(mod("bits Foo:\n  0 [+0]  Flag  x\n"), "scalar-width", {"fixed-wrong-field"}, "Flag 0")
    for w in (16, 33, 8, 24, 128):
        if w % 8 == 0:
            V(mod("struct Foo:\n  0 [+%d]  Float  x\n" % (w // 8)), "scalar-width", {"req-not-met:Float"},
              "Float %d" % w)
        if w <= 64:
            V(mod("bits Foo:\n  0 [+%d]  Float:%d  x\n" % (w, w)), "scalar-width", {"req-not-met:Float"},
              "Float:%d" % w)
    # bits
    V(mod("bits Foo:\n  0 [+64]  UInt  x\n  64 [+1]  Flag  y\n"), "bits", {"bits-too-big"}, "65-bit bits")
    V(mod("bits Foo:\n  0 [+32]  UInt  x\n  40 [+32]  UInt  y\n"), "bits", {"bits-too-big"}, "72-bit bits")
    V(mod("bits Foo:\n  0 [+4]  UInt  n\n  4 [+n]  UInt:1[]  y\n"), "bits", {"bits-not-fixed"}, "dynamic bits")
    V(mod("struct Ss:\n  0 [+1]  UInt  x\nbits Foo:\n  0 [+8]  Ss  s\n"), "bits", {"byte-in-bits"},
      "struct in bits")
    V("struct Ss:\n  0 [+1]  UInt  x\nbits Foo:\n  0 [+8]  Ss  s\n", "bits", {"byte-in-bits", "bo-required"},
      "struct in bits, no default byte order")
    V(mod("struct Ss:\n  0 [+1]  UInt  x\nbits Foo:\n  0 [+16]  Ss[2]  s\n"), "bits", {"byte-in-bits"},
      "struct array in bits")
    V(mod("external Ext:\n  [addressable_unit_size: 8]\nbits Foo:\n  0 [+8]  Ext  s\n"), "bits",
      {"byte-in-bits"}, "byte external in bits")
    # enums
    for mb in (1, 8, 32, 63, 64):
        V(mod("enum Ee:\n  [maximum_bits: %d]\n  AA = %d\nstruct Foo:\n  0 [+1]  UInt  x\n" % (mb, 2 ** mb)),
          "enum", {"enum-value-range"}, "value 2^%d in %d-bit enum" % (mb, mb))
        V(mod("enum Ee:\n  [maximum_bits: %d]\n  [is_signed: true]\n  AA = %d\nstruct Foo:\n  0 [+1]  UInt  x\n" % (
            mb, 2 ** (mb - 1))), "enum", {"enum-value-range"}, "signed high")
        V(mod("enum Ee:\n  [maximum_bits: %d]\n  [is_signed: true]\n  AA = %d\nstruct Foo:\n  0 [+1]  UInt  x\n" % (
            mb, -(2 ** (mb - 1)) - 1)), "enum", {"enum-value-range"}, "signed low")
        if mb < 64:
            V(mod("enum Ee:\n  [maximum_bits: %d]\n  AA = 0\nbits Foo:\n  0 [+%d]  Ee  x\n" % (mb, mb + 1)),
              "enum", {"enum-width"}, "enum field wider than maximum_bits")
    V(mod("enum Ee:\n  AA = 0\nbits Foo:\n  0 [+0]  Ee  x\n"), "enum", {"enum-width"}, "enum in 0 bits")
    V(mod("enum Ee:\n  AA = 0\nstruct Foo:\n  0 [+9]  Ee  x\n"), "enum", {"enum-width"}, "enum in 72 bits")
    V(mod("enum Ee:\n  AA = 0\nstruct Foo:\n  0 [+1]  UInt  n\n  1 [+n]  Ee  x\n"), "enum", {"enum-dynamic"},
      "enum in dynamic field")
    V(mod("enum Ee:\n  [is_signed: false]\n  AA = -1\nstruct Foo:\n  0 [+1]  UInt  x\n"), "enum",
      {"enum-value-range"}, "negative in unsigned")
    V(mod("enum Ee:\n  AA = -1\n  BB = 9223372036854775808\nstruct Foo:\n  0 [+1]  UInt  x\n"), "enum",
      {"enum-value-range"}, "negative and 2^63")
    V(mod("enum Ee:\n  AA = -9223372036854775809\nstruct Foo:\n  0 [+1]  UInt  x\n"), "enum",
      {"enum-value-range"}, "-2^63-1")
    V(mod("enum Ee:\n  AA = 18446744073709551616\nstruct Foo:\n  0 [+1]  UInt  x\n"), "enum",
      {"enum-value-range"}, "2^64")
    for mb in (0, 65, -1, 100):
        V(mod("enum Ee:\n  [maximum_bits: %d]\n  AA = 0\nstruct Foo:\n  0 [+1]  UInt  x\n" % mb), "enum",
          {"max-bits-range"}, "maximum_bits %d" % mb)
    # arrays
    V(mod("struct Foo:\n  0 [+8]  UInt:8[][2]  x\n"), "arrays", {"inner-auto"}, "inner automatic")
    V(mod("struct Foo:\n  0 [+1]  UInt  n\n  1 [+8]  UInt:8[n][2]  x\n"), "arrays", {"inner-dyn"}, "inner dynamic")
    V(mod("struct Foo:\n  0 [+8]  UInt:8[][2][2]  x\n"), "arrays", {"inner-auto"}, "innermost automatic of 3")
    V(mod("struct Foo:\n  0 [+3]  UInt:12[2]  x\n"), "arrays", {"elem-not-bytes"}, "12-bit element in struct")
    V(mod("struct Foo:\n  0 [+1]  UInt:1[8]  x\n"), "arrays", {"elem-not-bytes"}, "1-bit element in struct")
    V(mod("bits Bb:\n  0 [+4]  UInt  x\nstruct Foo:\n  0 [+2]  Bb[4]  x\n"), "arrays", {"elem-not-bytes"},
      "4-bit bits element in struct")
    V(mod("struct Dyn:\n  0 [+1]  UInt  n\n  1 [+n]  UInt:8[]  d\nstruct Foo:\n  0 [+8]  Dyn[2]  x\n"), "arrays",
      {"elem-not-fixed"}, "dynamic-size element")
    # explicit sizes
    V(mod("struct Foo:\n  0 [+2]  UInt:8  x\n"), "explicit-size", {"fixed-wrong-field"}, "UInt:8 in 2 bytes")
    V(mod("struct Foo:\n  0 [+1]  UInt:16  x\n"), "explicit-size", {"fixed-wrong-field"}, "UInt:16 in 1 byte")
    V(mod("struct Ss:\n  0 [+2]  UInt  x\nstruct Foo:\n  0 [+2]  Ss:8  s\n"), "explicit-size",
      {"explicit-mismatch"}, "Ss:8 for a 16-bit struct")
    V(mod("struct Ss:\n  0 [+2]  UInt  x\nstruct Foo:\n  0 [+3]  Ss  s\n"), "explicit-size",
      {"fixed-wrong-field"}, "16-bit struct in 3 bytes")
    V(mod("struct Ss:\n  0 [+2]  UInt  x\nstruct Foo:\n  0 [+1]  Ss  s\n"), "explicit-size",
      {"fixed-wrong-field"}, "16-bit struct in 1 byte")
    V(mod("struct Foo:\n  0 [+1]  UInt  n\n  1 [+n]  UInt:512  x\n"), "explicit-size",
      {"field-too-small", "req-not-met:UInt"}, "explicit size beyond maximum field size")
    V(mod("struct Foo:\n  0 [+1]  bits:\n    0 [+16]  UInt  x\n"), "explicit-size", {"fixed-wrong-field"},
      "anonymous bits bigger than its field")
    V(mod("struct Foo:\n  0 [+1]  bits:\n    0 [+1]  UInt  b\n  1 [+b]  UInt:16  x\n"), "explicit-size",
      {"field-too-small"}, "explicit size beyond the maximum size of a variable field")
    out.append(Case(mod("struct Foo:\n  0 [+1]  bits:\n    0 [+1]  UInt  b\n  1 [+b]  UInt:8  x\n"), True,
                    "explicit-size", tag="explicit size within the maximum size of a variable field"))
    # byte order
    for ty in SCALARS:
        V("struct Foo:\n  0 [+2]  %s  x\n" % ty, "byte-order", {"bo-required"}, "missing")
        V('struct Foo:\n  0 [+2]  %s  x\n    [byte_order: "Null"]\n' % ty, "byte-order", {"bo-null"}, "Null on 2 bytes")
        V('[$default byte_order: "Null"]\nstruct Foo:\n  0 [+4]  %s  x\n' % ty, "byte-order", {"bo-null"},
          "default Null")
    V("struct Foo:\n  0 [+4]  Float  x\n", "byte-order", {"bo-required"}, "missing on Float")
    V("struct Foo:\n  0 [+4]  UInt:16[2]  x\n", "byte-order", {"bo-required"}, "missing on array")
    V("enum Ee:\n  AA = 1\nstruct Foo:\n  0 [+2]  Ee  x\n", "byte-order", {"bo-required"}, "missing on enum")
    V("struct Foo:\n  0 [+2]  bits:\n    0 [+16]  UInt  x\n", "byte-order", {"bo-required"}, "missing on bits")
    V('struct Ss:\n  0 [+1]  UInt  x\nstruct Foo:\n  0 [+1]  Ss  s\n    [byte_order: "BigEndian"]\n',
      "byte-order", {"bo-not-allowed"}, "byte order on a struct-typed field")
    V('bits Foo:\n  0 [+8]  UInt  x\n    [byte_order: "BigEndian"]\n', "byte-order", {"bo-not-allowed"},
      "byte order inside bits")
    V('struct Foo:\n  0 [+2]  UInt  x\n    [byte_order: "MiddleEndian"]\n', "attributes",
      {"attr-choice:byte_order"}, "bad byte order value")
    V('struct Foo:\n  0 [+2]  UInt  x\n    [byte_order: 1]\n', "attributes", {"attr-choice:byte_order"},
      "byte order not a string")
    # attributes: duplicate / misplaced / unknown / wrongly defaulted / wrong value
    V('struct Foo:\n  0 [+2]  UInt  x\n    [byte_order: "BigEndian"]\n    [byte_order: "BigEndian"]\n',
      "attributes", {"dup-attr:byte_order"}, "duplicate on field")
    V('[$default byte_order: "BigEndian"]\n[$default byte_order: "BigEndian"]\nstruct Foo:\n  0 [+2]  UInt  x\n',
      "attributes", {"dup-attr:byte_order"}, "duplicate default on module")
    V(mod("enum Ee:\n  [maximum_bits: 8]\n  [maximum_bits: 8]\n  AA = 0\n"), "attributes",
      {"dup-attr:maximum_bits"}, "duplicate on enum")
    V('[byte_order: "BigEndian"]\nstruct Foo:\n  0 [+1]  UInt  x\n', "attributes", {"unknown-attr:byte_order"},
      "non-default byte_order on module")
    V('struct Foo:\n  [byte_order: "BigEndian"]\n  0 [+1]  UInt  x\n', "attributes", {"unknown-attr:byte_order"},
      "non-default byte_order on struct")
    V('bits Foo:\n  [$default byte_order: "BigEndian"]\n  0 [+1]  UInt  x\n', "attributes",
      {"no-default:byte_order"}, "default byte_order on bits")
    V('struct Foo:\n  0 [+2]  UInt  x\n    [$default byte_order: "BigEndian"]\n', "attributes",
      {"no-default:byte_order"}, "default on field")
    V(mod("struct Foo:\n  [$default fixed_size_in_bits: 8]\n  0 [+1]  UInt  x\n"), "attributes",
      {"no-default:fixed_size_in_bits"}, "default fixed size")
    V(mod("enum Ee:\n  [$default maximum_bits: 8]\n  AA = 0\n"), "attributes", {"no-default:maximum_bits"},
      "default maximum_bits")
    V(mod("struct Foo:\n  [maximum_bits: 8]\n  0 [+1]  UInt  x\n"), "attributes", {"unknown-attr:maximum_bits"},
      "maximum_bits on struct")
    V(mod("enum Ee:\n  [fixed_size_in_bits: 8]\n  AA = 0\n"), "attributes", {"unknown-attr:fixed_size_in_bits"},
      "fixed size on enum")
    V(mod("enum Ee:\n  AA = 0\n    [text_output: \"Skip\"]\n"), "attributes", {"unknown-attr:text_output"},
      "attribute on enum value")
    V(mod("struct Foo:\n  0 [+1]  UInt  x\n    [frobnicate: 3]\n"), "attributes", {"unknown-attr:frobnicate"},
      "unknown attribute")
    V(mod("[frobnicate: 3]\nstruct Foo:\n  0 [+1]  UInt  x\n", ""), "attributes", {"unknown-attr:frobnicate"},
      "unknown module attribute")
    V(mod("struct Foo:\n  0 [+1]  UInt  x\n  let y = x\n    [byte_order: \"BigEndian\"]\n"), "attributes",
      {"unknown-attr:byte_order"}, "byte order on virtual field")
    V(mod("struct Foo:\n  [expected_back_ends: \"cpp\"]\n  0 [+1]  UInt  x\n"), "attributes",
      {"unknown-attr:expected_back_ends"}, "expected_back_ends on struct")
    V(mod("struct Foo:\n  [is_integer: true]\n  0 [+1]  UInt  x\n"), "attributes", {"unknown-attr:is_integer"},
      "external-only attribute on struct")
    V(mod("struct Foo:\n  0 [+1]  UInt  x\n    [text_output: \"Maybe\"]\n"), "attributes",
      {"attr-choice:text_output"}, "bad text_output")
    V(mod("struct Foo:\n  0 [+1]  UInt  x\n    [text_output: true]\n"), "attributes",
      {"attr-choice:text_output"}, "text_output not a string")
    V(mod("enum Ee:\n  [maximum_bits: \"8\"]\n  AA = 0\n"), "attributes", {"attr-type:maximum_bits"},
      "maximum_bits string")
    V(mod("enum Ee:\n  [maximum_bits: true]\n  AA = 0\n"), "attributes", {"attr-type:maximum_bits"},
      "maximum_bits boolean")
    V(mod("struct Foo:\n  [fixed_size_in_bits: x]\n  0 [+1]  UInt  x\n"), "attributes",
      {"attr-const:fixed_size_in_bits"}, "non-constant fixed size")
    V(mod("struct Foo:\n  [fixed_size_in_bits: 16]\n  0 [+1]  UInt  x\n"), "attributes", {"fixed-size-mismatch"},
      "wrong fixed size")
    V(mod("bits Foo:\n  [fixed_size_in_bits: 7]\n  0 [+8]  UInt  x\n"), "attributes", {"fixed-size-mismatch"},
      "wrong fixed size on bits")
    V(mod("struct Foo:\n  [fixed_size_in_bits: 16]\n  0 [+1]  UInt  n\n  1 [+n]  UInt:8[]  x\n"), "attributes",
      {"fixed-size-variable"}, "fixed size on variable struct")
    V(mod("struct Foo:\n  0 [+1]  UInt  x\n    [requires: 7]\n"), "attributes", {"attr-type:requires"},
      "requires integer")
    V(mod("struct Foo:\n  0 [+4]  UInt:8[4]  x\n    [requires: true]\n"), "attributes", {"requires-array"},
      "requires on array")
    V(mod("struct Ss:\n  0 [+1]  UInt  x\nstruct Foo:\n  0 [+1]  Ss  s\n    [requires: true]\n"), "attributes",
      {"requires-type"}, "requires on struct field")
    V(mod("struct Foo:\n  0 [+4]  Float  x\n    [requires: true]\n"), "attributes", {"requires-type"},
      "requires on Float")
    for bad in ("Cpp", "cpp,,x", ",cpp", "c pp", "9a", "cpp;x"):
        V('[expected_back_ends: "%s"]\nstruct Foo:\n  0 [+1]  UInt  x\n' % bad, "attributes",
          {"attr-back-ends"}, "bad expected_back_ends %r" % bad)
    V('[(xyz) foo: 3]\nstruct Foo:\n  0 [+1]  UInt  x\n', "attributes", {"back-end-mismatch:xyz"},
      "unexpected back end")
    V('[expected_back_ends: "xyz"]\nstruct Foo:\n  0 [+1]  UInt  x\n    [(cpp) foo: 3]\n', "attributes",
      {"back-end-mismatch:cpp"}, "cpp not expected")
    V("external Ext:\n  [is_integer: true]\nstruct Foo:\n  0 [+1]  UInt  x\n", "externals", {"unit-missing"},
      "external without unit")
    for u in (0, 2, 4, 16, 7):
        V("external Ext:\n  [addressable_unit_size: %d]\nstruct Foo:\n  0 [+1]  UInt  x\n" % u, "externals",
          {"unit-bad"}, "unit %d" % u)
    V("external Ext:\n  [addressable_unit_size: 8]\n  [fixed_size_in_bits: 16]\nstruct Foo:\n  0 [+2]  Ext:8  e\n",
      "explicit-size", {"explicit-mismatch"}, "external explicit mismatch")
    V("external Ext:\n  [addressable_unit_size: 8]\n  [static_requirements: $static_size_in_bits == 16]\n"
      "struct Foo:\n  0 [+1]  Ext  e\n", "externals", {"req-not-met:Ext"}, "user requirement")
    # parameters
    V(mod("struct Foo(n: UInt):\n  0 [+1]  UInt  x\n"), "parameters", {"param-needs-size"}, "unsized int param")
    V(mod("enum Ee:\n  AA = 1\nstruct Foo(e: Ee:8):\n  0 [+1]  UInt  x\n"), "parameters", {"param-enum-sized"},
      "sized enum param")
    V(mod("struct Foo(n: UInt:65):\n  0 [+1]  UInt  x\n"), "parameters", {"param-bounds"}, "65-bit param")
    V(mod("struct Foo(n: Int:65):\n  0 [+1]  UInt  x\n"), "parameters", {"param-bounds"}, "65-bit Int param")
    V(mod("struct Foo(n: UInt:0):\n  0 [+1]  UInt  x\n"), "parameters", {"param-bounds", "req-not-met:UInt"},
      "0-bit param")
    # static references
    V(mod("struct Foo:\n  0 [+1]  UInt  x\n  let z = x + 1\n  let y = Foo.z\n"), "static-ref", {"static-ref"},
      "non-constant static ref")
    out.append(Case(mod("struct Foo:\n  0 [+1]  UInt  x\n  let z = 10\n  let y = Foo.z + 1\n"
                        "struct Bar:\n  0 [+Foo.z]  UInt:8[]  x\n"), True, "static-ref", tag="constant static ref"))
    # reserved words
    import re as _re
    for w in words:
        if _re.fullmatch(r"[a-z][a-z_0-9]*", w):
            V(mod("struct Foo:\n  0 [+1]  UInt  %s\n" % w), "reserved", {"reserved-field", "other:Syntax error"}, "field " + w)
            V(mod("struct Foo:\n  0 [+1]  UInt  x\n  let %s = x\n" % w), "reserved", {"reserved-field", "other:Syntax error"},
              "virtual field " + w)
        if _re.fullmatch(r"[A-Z][A-Z_0-9]*[A-Z_][A-Z_0-9]*", w):
            V(mod("enum Ee:\n  %s = 1\n" % w), "reserved", {"reserved-enum", "other:Syntax error"}, "enum value " + w)
        if _re.fullmatch(r"[A-Z][a-zA-Z0-9]*[a-z][a-zA-Z0-9]*", w):
            V(mod("struct %s:\n  0 [+1]  UInt  x\n" % w), "reserved", {"reserved-type", "other:Syntax error"}, "type " + w)
    return out


def _array_shapes_struct(elem, w):
    """Field lines (struct body) declaring arrays of `elem` (w bits per element, w % 8 == 0) in
    every array form: 1-D, 2-D, 3-D, automatic and dynamic outermost length."""
    b = w // 8
    out = [("1-D", "  0 [+%d]  %s[2]  x\n" % (2 * b, elem)),
           ("2-D", "  0 [+%d]  %s[2][2]  x\n" % (4 * b, elem)),
           ("3-D", "  0 [+%d]  %s[1][2][3]  x\n" % (6 * b, elem)),
           ("automatic", "  0 [+1]  UInt  n\n  1 [+n]  %s[]  x\n" % elem),
           ("2-D automatic", "  0 [+1]  UInt  n\n  1 [+n]  %s[2][]  x\n" % elem)]
    if b:
        out.append(("dynamic", "  0 [+1]  UInt  n\n  1 [+n*%d]  %s[n]  x\n" % (b, elem)))
    return out


def array_element_cases():
    """The width / explicit-size rules hold for the ELEMENT type of an array exactly as for a
    scalar field ("scalar widths in their documented ranges", "explicit sizes matching"): every
    prelude type, enums, struct/bits/external elements; every array form."""
    out = []
    V = lambda text, rule, kinds, tag: out.append(Case(text, False, rule, kinds, tag))      # noqa: E731
    A = lambda text, rule, tag: out.append(Case(text, True, rule, tag=tag))                 # noqa: E731
    for ty in SCALARS:
        for w in (0, 72, 128, 136):
            for form, body in _array_shapes_struct("%s:%d" % (ty, w), w):
                V(mod("struct Foo:\n" + body), "array-element-width", {"req-not-met:" + ty},
                  "%s:%d element, %s" % (ty, w, form))
        for w in (8, 16, 64):
            for form, body in _array_shapes_struct("%s:%d" % (ty, w), w):
                A(mod("struct Foo:\n" + body), "array-element-width", "%s:%d element, %s" % (ty, w, form))
        V(mod("bits Foo:\n  0 [+0]  %s:0[2]  x\n" % ty), "array-element-width", {"req-not-met:" + ty},
          "%s:0 element in bits" % ty)
        V(mod("bits Foo:\n  0 [+0]  %s:0[2][2]  x\n" % ty), "array-element-width", {"req-not-met:" + ty},
          "%s:0 element in bits, 2-D" % ty)
        V(mod("bits Foo:\n  0 [+130]  %s:65[2]  x\n" % ty), "array-element-width",
          {"req-not-met:" + ty, "bits-too-big"}, "%s:65 element in bits" % ty)
        A(mod("bits Foo:\n  0 [+64]  %s:32[2]  x\n" % ty), "array-element-width", "%s:32[2] in bits" % ty)
        A(mod("bits Foo:\n  0 [+63]  %s:7[3][3]  x\n" % ty), "array-element-width", "%s:7[3][3] in bits" % ty)
    for w in (8, 16, 24, 128):
        for form, body in _array_shapes_struct("Float:%d" % w, w):
            V(mod("struct Foo:\n" + body), "array-element-width", {"req-not-met:Float"},
              "Float:%d element, %s" % (w, form))
    V(mod("bits Foo:\n  0 [+32]  Float:16[2]  x\n"), "array-element-width", {"req-not-met:Float"},
      "Float:16 element in bits")
    for w in (32, 64):
        for form, body in _array_shapes_struct("Float:%d" % w, w):
            A(mod("struct Foo:\n" + body), "array-element-width", "Float:%d element, %s" % (w, form))
    for form, body in _array_shapes_struct("Flag:8", 8):
        V(mod("struct Foo:\n" + body), "array-element-size", {"explicit-mismatch"}, "Flag:8 element, " + form)
    V(mod("bits Foo:\n  0 [+4]  Flag:2[2]  x\n"), "array-element-size", {"explicit-mismatch"}, "Flag:2 element in bits")
    V(mod("bits Foo:\n  0 [+0]  Flag:0[2]  x\n"), "array-element-size", {"explicit-mismatch"}, "Flag:0 element in bits")
    A(mod("bits Foo:\n  0 [+6]  Flag:1[2][3]  x\n"), "array-element-size", "Flag:1[2][3] in bits")
    # enums
    for form, body in _array_shapes_struct("Ee:72", 72):
        V(mod("enum Ee:\n  AA = 1\nstruct Foo:\n" + body), "array-element-width", {"enum-width"},
          "72-bit enum element, " + form)
    for form, body in _array_shapes_struct("Ee:16", 16):
        V(mod("enum Ee:\n  [maximum_bits: 8]\n  AA = 1\nstruct Foo:\n" + body), "array-element-width",
          {"enum-width"}, "16-bit element of an 8-bit enum, " + form)
        A(mod("enum Ee:\n  [maximum_bits: 16]\n  AA = 1\nstruct Foo:\n" + body), "array-element-width",
          "16-bit element of a 16-bit enum, " + form)
    for form, body in _array_shapes_struct("Ee:0", 0):
        V(mod("enum Ee:\n  AA = 1\nstruct Foo:\n" + body), "array-element-width", {"enum-width"},
          "0-bit enum element, " + form)
    V(mod("enum Ee:\n  [maximum_bits: 3]\n  AA = 1\nbits Foo:\n  0 [+8]  Ee:4[2]  x\n"), "array-element-width",
      {"enum-width"}, "4-bit element of a 3-bit enum in bits")
    # explicit size of struct / bits / external elements
    for form, body in _array_shapes_struct("Ss:8", 8) + _array_shapes_struct("Ss:32", 32):
        V(mod("struct Ss:\n  0 [+2]  UInt  a\nstruct Foo:\n" + body), "array-element-size",
          {"explicit-mismatch"}, "explicit element size of a 16-bit struct, " + form)
    for form, body in _array_shapes_struct("Ss:16", 16):
        A(mod("struct Ss:\n  0 [+2]  UInt  a\nstruct Foo:\n" + body), "array-element-size",
          "Ss:16 element of a 16-bit struct, " + form)
    for form, body in _array_shapes_struct("Bb:16", 16):
        V(mod("bits Bb:\n  0 [+8]  UInt  a\nstruct Foo:\n" + body), "array-element-size",
          {"explicit-mismatch"}, "Bb:16 element of an 8-bit bits, " + form)
    ext = ("external Ext:\n  [addressable_unit_size: 8]\n"
           "  [static_requirements: $is_statically_sized && $static_size_in_bits == 16]\n")
    for form, body in _array_shapes_struct("Ext:8", 8) + _array_shapes_struct("Ext:24", 24):
        V(ext + "struct Foo:\n" + body, "array-element-width", {"req-not-met:Ext"},
          "external element violating its static_requirements, " + form)
    for form, body in _array_shapes_struct("Ext:16", 16):
        A(ext + "struct Foo:\n" + body, "array-element-width", "external element meeting its requirements, " + form)
    return out


def default_scope_cases():
    """`$default byte_order` reaches exactly the sub-entities of the scope that declares it
    (nearest one wins): a later SIBLING of a structure with its own `$default` is governed by
    the module's (or by none).  The verdict on the attached byte orders comes from
    c14abs.spec_byte_orders; these are the shapes."""
    out = []
    A = lambda text, tag: out.append(Case(text, True, "default-scope", tag=tag))               # noqa: E731
    V = lambda text, kinds, tag: out.append(Case(text, False, "default-scope", kinds, tag))    # noqa: E731
    for x, y in (("LittleEndian", "BigEndian"), ("BigEndian", "LittleEndian")):
        m = '[$default byte_order: "%s"]\n' % x
        dy = '  [$default byte_order: "%s"]\n' % y
        A(m + "struct Aa:\n" + dy + "  0 [+2]  UInt  a\nstruct Bb:\n  0 [+2]  UInt  b\n  2 [+4]  Int:16[2]  c\n",
          "override in the first struct, sibling after it")
        A(m + "struct Aa:\n  0 [+2]  UInt  a\nstruct Bb:\n" + dy + "  0 [+2]  UInt  b\nstruct Cc:\n  0 [+4]  Float  c\n"
          "struct Dd:\n" + dy + "  0 [+8]  Bcd  d\nstruct Ee:\n  0 [+2]  bits:\n    0 [+16]  UInt  e\n",
          "override in the 2nd and 4th struct")
        A(m + "struct Outer:\n" + dy + "  struct In1:\n    0 [+2]  UInt  a\n  struct In2:\n"
          '    [$default byte_order: "%s"]\n    struct Deep:\n      0 [+2]  UInt  d\n    0 [+2]  UInt  b\n'
          "  struct In3:\n    0 [+2]  UInt  c\n  0 [+2]  In1  i1\n  2 [+2]  In2  i2\n  4 [+2]  In3  i3\n"
          "  6 [+2]  UInt  own\nstruct Later:\n  0 [+2]  UInt  z\n  2 [+2]  Outer.In1  q\n" % x,
          "nested definitions: inner override, later inner sibling, later outer sibling")
        A(m + "enum Kk:\n  AA = 1\nstruct Aa:\n" + dy + "  0 [+2]  Kk  a\nbits Flags:\n  0 [+16]  UInt  f\n"
          "struct Bb:\n  0 [+2]  Kk  b\n  2 [+2]  Flags  g\n  4 [+1]  UInt  one\n",
          "enum and bits typed fields in the later sibling")
        A("struct Aa:\n" + dy + "  0 [+2]  UInt  a\nstruct Bb:\n  0 [+1]  UInt  b\n  1 [+3]  UInt:8[3]  c\n",
          "no module default: later sibling has only one-byte fields (Null)")
        A("struct Aa:\n" + dy + '  0 [+2]  UInt  a\nstruct Bb:\n  0 [+2]  UInt  b\n    [byte_order: "%s"]\n' % x,
          "no module default: later sibling states its own")
        V("struct Aa:\n" + dy + "  0 [+2]  UInt  a\nstruct Bb:\n  0 [+2]  UInt  b\n", {"bo-required"},
          "no module default: a struct-level $default does not reach a later sibling")
        V("struct Outer:\n  struct In1:\n" + '    [$default byte_order: "%s"]\n' % y
          + "    0 [+2]  UInt  a\n  0 [+2]  In1  i\n  2 [+2]  UInt  own\n", {"bo-required"},
          "a nested definition's $default does not reach the enclosing struct's fields")
    return out


def gate_cases():
    """The 64-bit range gate (`_check_bounds_on_runtime_integer_expressions`; C05's
    `Emboss.Bounds.gate` inside the C14 model): shapes that reach each of its error kinds, alone
    and next to errors of the other traversals of `check_constraints` (order)."""
    out = []
    V = lambda text, kinds, tag: out.append(Case(text, False, "gate64", kinds, tag))      # noqa: E731
    A = lambda text, tag: out.append(Case(text, True, "gate64", tag=tag))                 # noqa: E731
    h = "struct Foo:\n  0 [+8]  UInt  x\n  8 [+8]  Int  y\n  16 [+4]  UInt  z\n"
    V(mod(h + "  let a = x + 1\n"), {"gate:range"}, "2^64 reachable")
    V(mod(h + "  let a = x - 1\n"), {"gate:range"}, "-1 .. 2^64-2")
    V(mod(h + "  let a = x * x\n"), {"gate:range"}, "2^128")
    V(mod(h + "  let a = 18446744073709551616\n"), {"gate:const"}, "constant 2^64")
    V(mod(h + "  let a = 0 - 9223372036854775809\n"), {"gate:const"}, "constant -2^63-1")
    V(mod(h + "  let a = x == y\n"), {"gate:mixed"}, "uint64-only compared with int64-only")
    V(mod(h + "  let a = (x > y) || (z == 3)\n"), {"gate:mixed"}, "mixed inside a boolean expression")
    V(mod(h + "  let a = z + 1\n  let b = x + 1\n  let c = y - 1\n"), {"gate:range"}, "two of three")
    V(mod(h + "  if x + 1 > 5:\n    20 [+1]  UInt  w\n"), {"gate:range"}, "in an existence condition")
    V(mod(h + "  20 [+8]  UInt  w\n    [requires: this + 1 > 5]\n"), {"gate:range"}, "in [requires]")
    V(mod("struct Foo:\n  0 [+1]  UInt  n\n  1 [+n]  UInt  v\n  let a = v + 1\n"),
      {"req-not-met:UInt", "gate:unbounded"}, "dynamically sized integer: unbounded value")
    V(mod(h + "  let int = x + 1\n"), {"reserved-field", "gate:range"}, "reserved name and range")
    V(mod("enum Ee:\n  AA = -1\n  BB = 9223372036854775808\n" + h + "  let a = x + 1\n"),
      {"enum-value-range", "gate:range"}, "enum range and gate")
    V(mod(h + "  let a = x + 1\n  24 [+9]  UInt  big\nbits Bb:\n  0 [+65]  UInt  q\n"),
      {"req-not-met:UInt", "bits-too-big", "gate:range"}, "three traversals")
    A(mod(h + "  let a = z + 1\n  let b = z - 4294967296\n  let c = z * 4294967296\n"
          "  let d = $max(z, 7) * 2\n"), "all fit")
    A(mod(h + "  let a = 18446744073709551615\n  let b = -9223372036854775808\n"), "extreme constants fit")
    A(mod("external Ext:\n  [addressable_unit_size: 8]\n"
          "  [static_requirements: $static_size_in_bits * 18446744073709551616 > 0]\n" + h),
      "[static_requirements] is not gated")
    return out


_RENAME = ["Foo", "Ee", "Ss", "Bb", "Ext", "Dyn", "Cc", "Inner"]


def multi_violation_cases(r, pool, n):
    """Modules breaking two or three rules at once (in different type definitions): the errors of
    the first failing pass must all be reported, in the front end's traversal order (compared
    with the model).  Built from the single-rule catalogue by renaming the type definitions."""
    import re as _re
    head = '[$default byte_order: "LittleEndian"]\n'
    pool = [c for c in pool if c.accept is False and c.text.startswith(head)
            and c.text.count("[$default") == 1]
    out = []
    for i in range(n):
        parts, tags = [], []
        for j, c in enumerate(r.sample(pool, r.choice([2, 2, 3]))):
            body = c.text[len(head):]
            for nm in _RENAME:
                body = _re.sub(r"\b%s\b" % nm, "%s%s" % (nm, "XYZ"[j]), body)
            parts.append(body)
            tags.append(c.tag or c.rule)
        out.append(Case(head + "".join(parts), False, "multi-violation", None, tag=" + ".join(tags)))
    return out


def order_cases(r, words, n):
    """One type definition per traversal of a pass, each breaking the rule that traversal
    checks; random subsets in random definition order (plus the full sets in reverse order).
    The front end reports traversal by traversal, so the order of the errors is NOT the order
    of the definitions; the model must give the same order."""
    import re as _re
    camel = sorted(w for w in words if _re.fullmatch(r"[A-Z][a-zA-Z0-9]*[a-z][a-zA-Z0-9]*", w))
    shouty = sorted(w for w in words if _re.fullmatch(r"[A-Z][A-Z_0-9]*[A-Z_][A-Z_0-9]*", w))
    snake = sorted(w for w in words if _re.fullmatch(r"[a-z][a-z_0-9]*", w))
    constraints = [
        "struct Sb:\n  0 [+1]  UInt  x\nbits Bi:\n  0 [+8]  Sb  s\n",                    # [Structure, Type]
        "struct Ef:\n  0 [+4]  UInt[4]  x\n",                                            # [ArrayType]
        "struct Eb:\n  0 [+3]  UInt:12[2]  x\n",                                         # [Structure, ArrayType]
        "struct Ia:\n  0 [+8]  UInt:8[][2]  x\n  0 [+1]  UInt  n\n  1 [+8]  UInt:8[n][2]  y\n",  # [ArrayType, ArrayType]
        "bits Bt:\n  0 [+64]  UInt  a\n  64 [+1]  Flag  b\n",                            # [Structure]
        "struct Rq:\n  0 [+9]  UInt  x\n  9 [+2]  UInt:8  y\n",                          # [Structure, Type]
        "struct Rf:\n  0 [+1]  UInt  %s\n" % (snake[0] if snake else "int"),             # [Field]
        "enum Ev:\n  %s = 1\n" % (shouty[0] if shouty else "NULL"),                      # [EnumValue]
        "struct %s:\n  0 [+1]  UInt  x\n" % (camel[0] if camel else "Class"),            # [TypeDefinition]
        "struct Sr:\n  0 [+1]  UInt  x\n  let z = x + 1\n  let y = Sr.z\n",              # [Expression] static refs
        "enum Er:\n  [maximum_bits: 8]\n  AA = 256\n  BB = 1\n  CC = 300\n",             # [Enum]
        "struct Gg:\n  0 [+8]  UInt  x\n  let a = x + 1\n  let b = x * x\n",             # [Expression] gate
        "struct Pp(n: UInt:65):\n  0 [+1]  UInt  x\n",                                   # [RuntimeParameter]
    ]
    verify = [
        "struct Be:\n  0 [+1]  UInt  x\n    [(zzz) foo: 1]\nenum Bv:\n  AA = 1\n    [(yyy) foo: 1]\n",     # [Attribute]
        "struct Fs:\n  [fixed_size_in_bits: 16]\n  0 [+1]  UInt  x\n",                   # [Structure]
        "enum Mb:\n  [maximum_bits: 65]\n  AA = 1\n",                                    # [Enum]
        "external Xu:\n  [addressable_unit_size: 4]\n",                                  # [External]
        "struct Bo:\n  0 [+2]  UInt  x\n    [byte_order: \"Null\"]\n  let v = x\n  2 [+4]  Float  f\n    [requires: true]\n",  # [Field]
    ]
    attrs = [
        "struct Ta:\n  [maximum_bits: 8]\n  0 [+1]  UInt  x\n",                          # [TypeDefinition]
        "struct Fa:\n  0 [+1]  UInt  x\n    [fixed_size_in_bits: 8]\n    [text_output: \"Maybe\"]\n",  # [Field]
        "enum Va:\n  AA = 1\n    [text_output: \"Skip\"]\n",                             # [EnumValue]
        "struct Tb:\n  struct Inner:\n    [is_signed: true]\n    0 [+1]  UInt  y\n      [frob: 1]\n  0 [+1]  UInt  x\n",
    ]
    early = ["struct Pa(n: UInt):\n  struct Inner(e: UInt):\n    0 [+1]  UInt  y\n  0 [+1]  UInt  x\n",
             "enum Pe:\n  AA = 1\nstruct Pb(e: Pe:8, m: Int):\n  0 [+1]  UInt  x\n"]
    head = '[$default byte_order: "LittleEndian"]\n'
    out = []
    for fam, blocks in (("constraints", constraints), ("verify", verify), ("attributes", attrs), ("early", early)):
        out.append(Case(head + "".join(reversed(blocks)), False, "order:" + fam, None, tag="all, reversed"))
        out.append(Case(head + "".join(blocks), False, "order:" + fam, None, tag="all, in traversal order"))
        for _ in range(n if fam == "constraints" else max(2, n // 4)):
            k = r.randint(2, min(5, len(blocks)))
            sub = r.sample(blocks, k)
            out.append(Case(head + "".join(sub), False, "order:" + fam, None, tag="%d random definitions" % k))
    return out


def finding_cases():
    """Pinned inputs of the findings of this property (findings.d/C14.json) and of the fixed
    ones that touch its code (findings.d/_fixed.json), plus their close variants."""
    out = []
    try:
        with open(os.path.join(common.VERIF, "findings.d", "C14.json")) as f:
            for k in json.load(f):
                if k.get("status") == "open":       # fixed ones: corpus/C14/fixed-*.json
                    out.append(Case(k["input"], False, "finding", None, tag="finding " + k["key"][:60]))
    except OSError:
        pass
    V = lambda text, kinds, tag: out.append(Case(text, False, "finding-variant", kinds, tag))  # noqa: E731
    V('enum Foo:\n  [is_signed: "yes"]\n  AA = 1\n', {"attr-type:is_signed"}, "fixed F4")
    V('struct Foo:\n  [requires: "yes"]\n  0 [+1] UInt x\n', {"attr-type:requires"}, "fixed F4")
    # back-end-qualified namesakes of front-end attributes (fixed: corpus/C14/fixed-lookup-*.json)
    V('[expected_back_ends: "cpp, xx"]\nenum Foo:\n  [(xx) maximum_bits: 8]\n  [maximum_bits: 4]\n  AA = 16\n',
      {"enum-value-range"}, "the unqualified maximum_bits counts, wherever it stands")
    V('[expected_back_ends: "cpp, xx"]\nenum Foo:\n  [maximum_bits: 4]\n  [(xx) maximum_bits: 8]\n  AA = 16\n',
      {"enum-value-range"}, "the unqualified maximum_bits counts, wherever it stands")
    V('[expected_back_ends: "cpp, xx"]\nstruct Foo:\n  [(xx) fixed_size_in_bits: 16]\n  [fixed_size_in_bits: 24]\n'
      '  0 [+2]  UInt  x\n    [byte_order: "BigEndian"]\n', {"fixed-size-mismatch"},
      "the unqualified fixed_size_in_bits counts")
    V('external Ext:\n  [addressable_unit_size: 8]\n  [is_integer: 3]\nstruct Foo:\n  0 [+1]  UInt  x\n',
      {"attr-type:is_integer"}, "is_integer integer")
    V('[expected_back_ends: true]\nstruct Foo:\n  0 [+1]  UInt  x\n', {"attr-type:expected_back_ends"},
      "expected_back_ends boolean")
    return out


# ---------------------------------------------------------------- random valid modules
def rand_enum(r, name):
    mb = r.choice([None, 1, 3, 8, 16, 32, 64])
    signed = r.choice([None, True, False])
    eff_mb = mb or 64
    lines = ["enum %s:" % name]
    if mb is not None:
        lines.append("  [maximum_bits: %d]" % mb)
    if signed is not None:
        lines.append("  [is_signed: %s]" % ("true" if signed else "false"))
    n = r.randint(1, 4)
    vals = set()
    is_signed = bool(signed) if signed is not None else (r.random() < 0.3 and eff_mb > 1)
    lo, hi = (-(2 ** (eff_mb - 1)), 2 ** (eff_mb - 1) - 1) if is_signed else (0, 2 ** eff_mb - 1)
    if signed is None and is_signed:
        vals.add(lo)          # forces inference to "signed"
    for _ in range(n):
        vals.add(r.choice([lo, hi, 0, r.randint(lo, hi)]))
    if signed is None and not is_signed:
        vals = {v for v in vals if v >= 0} or {0}
    for i, v in enumerate(sorted(vals)):
        lines.append("  V%s%d = %d" % (name.upper(), i, v))
    return "\n".join(lines) + "\n", eff_mb


def rand_bits_fields(r, enums, total, indent):
    """Fields covering `total` bits of a bits type."""
    lines, pos, i = [], 0, 0
    while pos < total:
        w = min(total - pos, r.choice([1, 1, 2, 3, 4, 7, 8, 9, 12, 16, 31, 32, 33, 63, 64]))
        choices = ["UInt", "Int", "Bcd"]
        if w == 1:
            choices.append("Flag")
        if w in (32, 64):
            choices.append("Float")
        es = [e for e, mb in enums if w <= mb]
        if es:
            choices.append("enum")
        ty = r.choice(choices)
        if ty == "enum":
            ty = r.choice(es)
        if r.random() < 0.3 and ty != "enum":
            ty = "%s:%d" % (ty, w)
        if r.random() < 0.1 and w >= 4 and w % 2 == 0:
            ty = "UInt:%d[%d]" % (w // 2, 2)
        lines.append("%s%d [+%d]  %s  b%d" % (indent, pos, w, ty, i))
        pos += w
        i += 1
        if r.random() < 0.1:
            pos += r.randint(0, max(0, total - pos))      # gap
    return lines


def rand_module(r):
    """A module obeying every documented rule (the generator's intent: accepted)."""
    feats = []
    mod_default = r.choice([None, "LittleEndian", "BigEndian"])
    lines = []
    if mod_default:
        lines.append('[$default byte_order: "%s"]' % mod_default)
    if r.random() < 0.2:
        lines.append('[expected_back_ends: "cpp, rust_x"]')
        lines.append('[(rust_x) whatever: "q"]')
        feats.append("back-ends")
    if r.random() < 0.3:
        lines.append('[(cpp) namespace: "a::b"]')
    enums = []
    for i in range(r.randint(0, 2)):
        nm = "En%s" % "abc"[i]
        text, mb = rand_enum(r, nm)
        lines.append(text.rstrip("\n"))
        enums.append((nm, mb))
        feats.append("enum")
    bits_types = []
    for i in range(r.randint(0, 2)):
        nm = "Bt%s" % "abc"[i]
        total = r.choice([1, 7, 8, 16, 24, 32, 33, 63, 64])
        bl = ["bits %s:" % nm]
        if r.random() < 0.3:
            bl.append("  [fixed_size_in_bits: %d]" % total)
            feats.append("fixed-size-attr")
        fl = rand_bits_fields(r, enums, total, "  ")
        # make sure the last bit is covered so that the size is `total`
        bl += fl
        bl.append("  %d [+1]  UInt  last" % (total - 1))
        lines += bl
        bits_types.append((nm, total))
        feats.append("bits")
    structs = []
    for i in range(r.randint(1, 3)):
        nm = "St%s" % "abc"[i]
        st_default = r.choice([None, None, "LittleEndian", "BigEndian"])
        have_default = mod_default or st_default
        sl = []
        params = ""
        if r.random() < 0.2:
            params = "(pn: UInt:8)"
            feats.append("param")
        sl.append("struct %s%s:" % (nm, params))
        if st_default:
            sl.append('  [$default byte_order: "%s"]' % st_default)
            feats.append("struct-default")
        # nested type definitions (sub-entities of this struct): each may override the default
        # again; what it declares must not reach its later siblings nor this struct's fields
        nested = []
        for k in range(r.choice([0, 0, 1, 2])):
            in_default = r.choice([None, "LittleEndian", "BigEndian"])
            inm = "In%s%d" % ("abc"[i], k)
            sl.append("  struct %s:" % inm)
            if in_default:
                sl.append('    [$default byte_order: "%s"]' % in_default)
            nb = r.choice([2, 4, 8])
            sl.append("    0 [+%d]  %s  g0" % (nb, r.choice(SCALARS)))
            if not (in_default or have_default):
                sl.append('      [byte_order: "%s"]' % r.choice(["LittleEndian", "BigEndian"]))
            sl.append("    %d [+1]  UInt  g1" % nb)
            nested.append((inm, nb + 1))
            feats.append("nested-struct" + ("-default" if in_default else ""))
        pos = 0
        nf = r.randint(1, 6)
        dynamic = False
        for j in range(nf):
            kind = r.choice(["scalar", "scalar", "scalar", "enum", "array", "array2", "bits", "anon",
                             "struct", "float", "auto", "onebyte"])
            attr = []
            if kind == "scalar":
                nb = r.choice([1, 2, 3, 4, 5, 6, 7, 8])
                ty = r.choice(SCALARS)
                if r.random() < 0.3:
                    ty = "%s:%d" % (ty, nb * 8)
                size = nb
                need = nb > 1
            elif kind == "onebyte":
                ty, size, need = r.choice(["UInt", "Int:8", "Bcd"]), 1, False
            elif kind == "float":
                size = r.choice([4, 8])
                ty, need = "Float", True
            elif kind == "enum" and enums:
                e, mb = r.choice(enums)
                okb = [b for b in (1, 2, 4, 8) if b * 8 <= mb]
                if not okb:
                    continue
                size = r.choice(okb)
                ty, need = e, size > 1
            elif kind == "array":
                eb = r.choice([1, 2, 4])
                n = r.randint(1, 4)
                ty, size, need = "%s:%d[%d]" % (r.choice(SCALARS), eb * 8, n), eb * n, eb > 1
            elif kind == "array2":
                eb = r.choice([1, 2])
                n, m2 = r.randint(1, 3), r.randint(1, 3)
                ty, size, need = "UInt:%d[%d][%d]" % (eb * 8, n, m2), eb * n * m2, eb > 1
            elif kind == "bits" and bits_types:
                b, total = r.choice(bits_types)
                if total % 8 != 0:
                    continue
                ty, size, need = b, total // 8, total > 8
            elif kind == "anon":
                size = r.choice([1, 2, 4, 8])
                sl.append("  %d [+%d]  bits:" % (pos, size))
                if not have_default and size > 1:
                    sl.append('    [byte_order: "%s"]' % r.choice(["LittleEndian", "BigEndian"]))
                sl += rand_bits_fields(r, enums, size * 8, "    ")
                # unique names inside anonymous bits: prefix by field index
                k = len(sl) - 1
                while k >= 0 and sl[k].startswith("    ") and "[+" in sl[k]:
                    parts = sl[k].rsplit("  ", 1)
                    sl[k] = parts[0] + "  f%d%s" % (j, parts[1])
                    k -= 1
                pos += size
                feats.append("anon-bits")
                continue
            elif kind == "struct" and (structs or nested):
                s, ssize = r.choice(structs + nested)
                if ssize is None:
                    continue
                if r.random() < 0.3:
                    n = r.randint(1, 3)
                    ty, size, need = "%s[%d]" % (s, n), ssize * n, False
                else:
                    ty, size, need = s, ssize, False
            elif kind == "auto" and not dynamic and j == nf - 1:
                sl.append("  %d [+1]  UInt  cnt" % pos)
                pos += 1
                eb = r.choice([1, 2])
                ty = "UInt:%d[]" % (eb * 8)
                need = eb > 1
                if need and not have_default:
                    attr.append('    [byte_order: "%s"]' % r.choice(["LittleEndian", "BigEndian"]))
                sl.append("  %d [+cnt*%d]  %s  tail" % (pos, eb, ty))
                sl += attr
                dynamic = True
                feats.append("auto-array")
                continue
            else:
                continue
            sl.append("  %d [+%d]  %s  f%d" % (pos, size, ty, j))
            if need and (not have_default or r.random() < 0.2):
                sl.append('    [byte_order: "%s"]' % r.choice(["LittleEndian", "BigEndian"]))
                feats.append("own-byte-order")
            elif not need and kind in ("onebyte",) and r.random() < 0.2:
                sl.append('    [byte_order: "Null"]')
                feats.append("null-byte-order")
            if r.random() < 0.1:
                sl.append('    [text_output: "%s"]' % r.choice(["Skip", "Emit"]))
            pos += size
            feats.append(kind)
        if pos == 0:
            sl.append("  0 [+1]  UInt  only")
            pos = 1
        if not dynamic and r.random() < 0.2:
            sl.insert(1, "  [fixed_size_in_bits: %d]" % (pos * 8))
            feats.append("fixed-size-attr")
        if r.random() < 0.2:
            sl.append("  let virt%d = %d" % (i, r.randint(0, 9)))
        lines += sl
        structs.append((nm, None if (dynamic or params) else pos))
    return "\n".join(lines) + "\n", feats


def mutate_valid(r, text):
    """One random single-rule violation applied to a valid module: returns (text, rule) or None."""
    import re as _re
    lines = text.split("\n")
    choice = r.choice(["drop-bo", "null-bo", "big-elem", "big-scalar", "dup", "misplace", "reserved",
                       "bad-fixed", "plain-default"])
    if choice == "drop-bo":
        # remove every byte_order: multi-byte fields (if any) lose theirs
        new = [ln for ln in lines if "byte_order" not in ln]
        if new == lines:
            return None
        return "\n".join(new), "byte-order?", None      # may stay valid (only one-byte fields)
    if choice == "null-bo":
        new = [_re.sub(r'"(Little|Big)Endian"', '"Null"', ln) for ln in lines]
        if new == lines:
            return None
        return "\n".join(new), "byte-order?", None
    if choice == "dup":
        idx = [i for i, ln in enumerate(lines) if ln.strip().startswith("[") and "(" not in ln]
        if not idx:
            return None
        i = r.choice(idx)
        return "\n".join(lines[:i + 1] + [lines[i]] + lines[i + 1:]), "attributes", {"dup"}
    if choice == "misplace":
        idx = [i for i, ln in enumerate(lines) if ln.startswith("struct ")]
        i = r.choice(idx)
        return "\n".join(lines[:i + 1] + ["  [maximum_bits: 8]"] + lines[i + 1:]), "attributes", {"unknown"}
    if choice == "reserved":
        idx = [i for i, ln in enumerate(lines) if _re.search(r"  f\d+$", ln)]
        if not idx:
            return None
        i = r.choice(idx)
        w = r.choice(["int", "class", "while", "register", "begin"])
        return "\n".join(lines[:i] + [_re.sub(r"  f\d+$", "  " + w, lines[i])] + lines[i + 1:]), "reserved", {"reserved"}
    if choice == "bad-fixed":
        idx = [i for i, ln in enumerate(lines) if "fixed_size_in_bits" in ln]
        if not idx:
            return None
        i = r.choice(idx)
        return "\n".join(lines[:i] + [_re.sub(r"\d+", lambda m: str(int(m.group(0)) + 8), lines[i])]
                         + lines[i + 1:]), "attributes", {"fixed-size"}
    if choice == "big-elem":
        # an array whose ELEMENT type gets an out-of-range width (the field is resized with it)
        rx = _re.compile(r"^(\s+\d+ \[\+)\d+(\]  (?:UInt|Int|Bcd)):\d+((?:\[\d+\])+)(  \w+)$")
        idx = [i for i, ln in enumerate(lines) if rx.match(ln)]
        if not idx:
            return None
        i = r.choice(idx)
        m = rx.match(lines[i])
        n = 1
        for d in _re.findall(r"\[(\d+)\]", m.group(3)):
            n *= int(d)
        w = r.choice([0, 72, 128])
        new = "%s%d%s:%d%s%s" % (m.group(1), n * w // 8, m.group(2), w, m.group(3), m.group(4))
        return "\n".join(lines[:i] + [new] + lines[i + 1:]), "array-element-width", {"req"}
    if choice == "plain-default":
        # `$default byte_order` written as a plain attribute where only the $default form exists
        idx = [i for i, ln in enumerate(lines) if ln.lstrip().startswith("[$default byte_order")
               and (ln.startswith("[") or ln.startswith("  ["))]
        if not idx:
            return None
        i = r.choice(idx)
        # keep the original too with probability 1/2 (plain + $default in the same scope)
        new = lines[i].replace("$default ", "")
        keep = [lines[i]] if r.random() < 0.5 else []
        return "\n".join(lines[:i] + keep + [new] + lines[i + 1:]), "attributes", {"unknown"}
    if choice == "big-scalar":
        idx = [i for i, ln in enumerate(lines) if _re.match(r"  \d+ \[\+\d+\]  (UInt|Int|Bcd)  f\d+$", ln)]
        if not idx:
            return None
        i = r.choice(idx)
        return "\n".join(lines[:i] + [_re.sub(r"\[\+\d+\]", "[+9]", lines[i])] + lines[i + 1:]), "scalar-width", {"req"}
    return None


# ======================================================================== running
def testdata_cases():
    out = []
    d = os.path.join(common.REPO, "testdata")
    files = {}
    for root, _dirs, names in os.walk(d):
        for n in names:
            if n.endswith(".emb"):
                p = os.path.join(root, n)
                rel = os.path.relpath(p, common.REPO)
                with open(p, encoding="utf-8") as f:
                    files[rel] = f.read()
    # "identical to imported.emb except for the path" (generated by the build)
    if "testdata/imported.emb" in files:
        files.setdefault("testdata/imported_genfiles.emb", files["testdata/imported.emb"])
    for rel in sorted(files):
        if "/" in rel[len("testdata/"):]:
            continue        # formatter inputs, import_dir layouts: not compilable on their own
        out.append(Case(files[rel], True, "testdata", tag=rel, files=files, main=rel))
    return out


def corpus_cases():
    out = []
    d = os.path.join(common.VERIF, "corpus", PROP)
    if os.path.isdir(d):
        for n in sorted(os.listdir(d)):
            if n.endswith(".json"):
                with open(os.path.join(d, n)) as f:
                    rec = json.load(f)
                out.append(Case(rec["input"], rec.get("accept"), rec.get("rule", "corpus"),
                                set(rec["kinds"]) if rec.get("kinds") else None, tag="corpus/" + n))
    return out


def byte_order_verdict(ob):
    """Documented byte order of every physical field vs the attribute the front end attached
    (accepted modules only).  None if they agree."""
    if "bo_real" not in ob or "bo_spec" not in ob:
        return None
    real, spec = ob["bo_real"], ob["bo_spec"]
    bad = [(k, spec.get(k), real.get(k)) for k in sorted(set(real) | set(spec), key=str)
           if spec.get(k) != real.get(k)]
    if not bad:
        return None
    return "field byte orders differ from the documented ones (own attribute, else nearest enclosing " \
           "$default, else Null): " + "; ".join(
               "%s.%s documented %s, front end attached %s" % (k[1], k[2], sp, re_) for k, sp, re_ in bad[:4])


def spec_verdict(case, ob):
    """Independent oracle on the real output.  Returns None if fine, else a description."""
    if ob["exc"] is not None:
        return "Python exception instead of IR or located errors: %s" % ob["exc"]
    kinds = ob["kinds"]
    if case.accept is True and kinds:
        return "obeys every documented rule (%s) but was rejected: %s" % (case.rule, ob["messages"][:3])
    if case.accept is False:
        if not kinds:
            return "breaks the documented rule '%s' (%s) but was accepted" % (case.rule, case.tag)
        if case.kinds is not None and not (set(kinds) & set(case.kinds)):
            return "breaks the documented rule '%s' (%s) but the errors are about something else: %s" % (
                case.rule, case.tag, ob["messages"][:3])
    return byte_order_verdict(ob)


def run_cases(chk, cases, model_ok, stats):
    obs, lines, idx = [], [], []
    for c in cases:
        ob = observe(c.files, c.main)
        obs.append(ob)
        chk.count()
        stats["rules"][c.rule] = stats["rules"].get(c.rule, 0) + 1
        stats["scope"][ob["scope"].split(":")[0]] = stats["scope"].get(ob["scope"].split(":")[0], 0) + 1
        for k in (ob["kinds"] or []):
            kk = k.split(":")[0]
            stats["kinds"][kk] = stats["kinds"].get(kk, 0) + 1
        if len(ob["kinds"] or []) > 1:
            stats["multi_error_cases"] = stats.get("multi_error_cases", 0) + 1
        if "bo_spec" in ob:
            stats["byte_order_fields_checked"] = stats.get("byte_order_fields_checked", 0) + len(ob["bo_spec"])
        if ob["kinds"] or ob["exc"]:
            chk.nontrivial("reject:" + c.text)
        elif c.rule not in ("testdata",):
            chk.nontrivial("accept:" + c.text)
        why = spec_verdict(c, ob)
        if ob["exc"] is not None and chk.known_finding(ob["exc_key"]):
            chk.report_known(chk.known_finding(ob["exc_key"]))
            stats["known_crashes"] = stats.get("known_crashes", 0) + 1
            if ob["exc_key"] in MODELLED_CRASHES and ob["program"] is not None and \
                    "(" not in c.text.replace("(cpp) namespace", ""):
                lines.append(model_line(ob["program"]))
                idx.append(len(obs) - 1)
            continue
        if chk.known_finding("input:" + c.text):
            if why:
                chk.report_known(chk.known_finding("input:" + c.text))
            continue
        if why:
            key = ob.get("exc_key") if ob["exc"] is not None else None
            chk.violation("input", {"input": c.text, "files": c.files if len(c.files) > 1 else None,
                                    "main": c.main, "rule": c.rule, "tag": c.tag,
                                    "expected": "accepted" if c.accept else
                                    ("rejected (rule: %s)" % c.rule if c.accept is False else "documented byte orders"),
                                    "observed": ob["exc"] or ob["messages"], "why": why},
                          key=key or ("input:" + c.text))
        if ob["program"] is not None:
            lines.append(model_line(ob["program"]))
            idx.append(len(obs) - 1)
            if ob["exc"] is None:
                try:
                    al = attrs_lines(ob["program"])
                except c14abs.OutOfScope:
                    al = None
                if al is not None:
                    ob["attr_lists"] = [a for _, a in al]
                    ob["attr_answers"] = []
                    for ln, _ in al:
                        lines.append(ln)
                        idx.append(len(obs) - 1)
            if ob["exc"] is None and (not ob["kinds"] or all(
                    k.split(":")[0] in c14abs.VERIFY_KINDS for k in ob["kinds"])):
                # the verify pass ran (and reported, or the module went on): where do the errors of
                # its Field traversal point?
                lines.append("FIELDLOC " + json.dumps(ob["program"], separators=(",", ":")))
                idx.append(len(obs) - 1)
            if "bo_real" in ob:
                lines.append(bo_line(ob["program"]))
                idx.append(len(obs) - 1)
    if not model_ok or not lines:
        return
    answers = common.Model(MODEL).ask(lines)
    for i, line, ans in zip(idx, lines, answers):
        c, ob = cases[i], obs[i]
        if ans == "bad-op":
            raise common.InfraError("model rejected op for case %r" % c.text[:200])
        if line.startswith("ATTRS "):
            ob["attr_answers"].append(ans)
            if len(ob["attr_answers"]) < len(ob["attr_lists"]):
                continue
            # all lists of this case answered: the located errors of the attribute-table rules
            stats["model_attr_locations_checked"] = stats.get("model_attr_locations_checked", 0) + 1
            model_loc = located_from_model(ob["attr_answers"], ob["attr_lists"])
            kinds = ob["kinds"] or []
            fam = [k.split(":")[0] in c14abs.ATTR_TABLE_KINDS for k in kinds]
            if kinds and all(k in c14abs.EARLY_KINDS for k in kinds):
                continue                    # stopped before the attribute pass
            if kinds and all(fam):
                real_loc = located_real(ob)  # the attribute pass reported: kinds, spans and notes, in order
                stats["attr_errors_located"] = stats.get("attr_errors_located", 0) + len(real_loc)
            elif not any(fam):
                real_loc = []               # accepted, or rejected by a later pass: no attribute-table error
            else:
                real_loc = None             # cannot happen (a pass with errors ends the pipeline)
            if real_loc == model_loc:
                continue
            stats["disagreements"] += 1
            chk.violation("correspondence",
                          {"input": c.text, "main": c.main, "rule": c.rule, "tag": c.tag,
                           "model": [list(x) for x in model_loc], "observed": [list(x) for x in real_loc or []],
                           "messages": ob.get("messages"),
                           "expected": "every error of the attribute-table rules is located where the model says: "
                                       "duplicate at the whole attribute (note at the first occurrence), unknown / "
                                       "not defaultable at the name, wrong value at the value",
                           "theorem_or_correspondence": "model_c14 ATTRS (checkAttrListL / C14_attr_errors_located) vs "
                                                        "locations of the errors of attribute_util._check_attributes"},
                          key="input:" + c.text, found_input=False)
            continue
        if line.startswith("FIELDLOC "):
            stats["model_field_locations_checked"] = stats.get("model_field_locations_checked", 0) + 1
            model_loc, defaults = field_located_from_model(ans, ob["program"])
            real_loc = [(k, l) for k, l in zip(ob["kinds"] or [], ob["locations"] or [])
                        if k in c14abs.FIELD_VERIFY_KINDS]
            stats["field_errors_located"] = stats.get("field_errors_located", 0) + len(real_loc)
            same = len(model_loc) == len(real_loc) and all(
                mk == rk and (ml == rl if ml is not None else rl in defaults)
                for (mk, ml), (rk, rl) in zip(model_loc, real_loc))
            if same:
                continue
            stats["disagreements"] += 1
            chk.violation("correspondence",
                          {"input": c.text, "main": c.main, "rule": c.rule, "tag": c.tag,
                           "model": [list(x) for x in model_loc], "observed": [list(x) for x in real_loc],
                           "messages": ob.get("messages"),
                           "expected": "'byte_order required' at the field; 'not allowed' / 'Null' at the value of "
                                       "the field's own byte_order attribute or of the $default in effect; "
                                       "[requires] placement errors at the value of the field's own [requires]",
                           "theorem_or_correspondence": "model_c14 FIELDLOC (verifyFieldsL / C14_field_errors_located) "
                                                        "vs locations of the errors of _verify_field_attributes"},
                          key="input:" + c.text, found_input=False)
            continue
        if line.startswith("BYTEORDER "):
            stats["model_bo_checked"] = stats.get("model_bo_checked", 0) + 1
            want = expected_bo_answer(ob, ob["program"])
            if ans == want:
                continue
            stats["disagreements"] += 1
            why = byte_order_verdict(ob)
            chk.violation("correspondence" if not why else "input",
                          {"input": c.text, "main": c.main, "rule": c.rule, "tag": c.tag, "model": ans,
                           "observed": want, "op": line[:4000],
                           "expected": why or "the attached byte orders are the documented ones; model "
                                              "and code differ",
                           "theorem_or_correspondence": "model_c14 BYTEORDER (effByteOrder / "
                                                        "C14_defaults_propagate) vs byte_order attributes "
                                                        "of the IR after normalize_and_verify"},
                          key="input:" + c.text, found_input=bool(why))
            continue
        stats["model_checked"] += 1
        want = expected_model_answer(ob)
        agree = (ans == want) if want is not None else ("crash" in ans.split(" ", 1)[-1].split(";"))
        if agree:
            continue
        stats["disagreements"] += 1
        why = spec_verdict(c, ob)
        same_set = want is not None and sorted(ans.split(" ", 1)[-1].split(";")) == sorted(want.split(" ", 1)[-1].split(";"))
        chk.violation("correspondence" if not why else "input",
                      {"input": c.text, "main": c.main, "rule": c.rule, "tag": c.tag, "model": ans,
                       "observed": ob["exc"] or want, "op": line[:4000],
                       "locations": ob.get("locations"),
                       "expected": why or ("real code satisfies the documented rule for this case; "
                                           "model and code differ"
                                           + (" only in the ORDER of the errors" if same_set else "")),
                       "theorem_or_correspondence": "model_c14 CHECK vs glue.parse_emboss_file errors"},
                      key="input:" + c.text, found_input=bool(why))


def known_findings_replay(chk):
    for k in chk.known:
        if k.get("property") != PROP or k.get("status") != "open":
            continue
        text = k["input"]
        ob = observe({"m.emb": text})
        chk.count()
        still = False
        exp = k.get("expect", "")
        if exp.startswith("crash"):
            still = ob["exc"] is not None
        elif exp == "accepted":
            still = ob["exc"] is None and not ob["kinds"]
        if still:
            chk.report_known(k)


def table_checks(chk, model_ok, stats):
    """Tie T cross-checks that need no generated module: the model's reserved-word test and
    back-end-list matcher against the real functions; the requirement evaluator against the
    documented ranges for every width 0..130 and `none`."""
    import re
    from compiler.front_end import constraints as real_constraints
    from compiler.front_end import attribute_checker as ac
    words = tr.reserved_words()
    real_words = real_constraints.get_reserved_word_list()
    probes = [w for w, _ in words] + ["foo", "x", "Int", "UInt", "int_", "INT", "", "classs", "clas"]
    doc = {"UInt": lambda n: n is not None and 1 <= n <= 64,
           "Int": lambda n: n is not None and 1 <= n <= 64,
           "Bcd": lambda n: n is not None and 1 <= n <= 64,
           "Flag": lambda n: n == 1, "Float": lambda n: n in (32, 64)}
    # spec oracle on the real data, model-free
    for w, lang in words:
        chk.count()
        if real_words.get(w) != lang:
            chk.violation("input", {"input": w, "expected": "reserved (%s)" % lang,
                                    "observed": real_words.get(w)})
    if set(real_words) != set(w for w, _ in words):
        chk.violation("input", {"input": sorted(set(real_words) ^ set(w for w, _ in words))[:20],
                                "expected": "same reserved word set", "observed": "differs"})
    ext = dict(tr.prelude_externals())
    from compiler.util import ir_util
    lines = []
    meta = []
    for p in probes:
        if p and " " not in p:
            lines.append("RESERVED " + p)
            meta.append(("reserved", p, p in real_words))
    rx = re.compile(r"(?:\s*[a-z][a-z0-9_]*\s*(?:,\s*[a-z][a-z0-9_]*\s*)*,?)?\s*")
    r = common.rng("C14-backends")
    alphabet = ["c", "p", "x", "_", "9", ",", " ", "A", ";", "\t"]
    strs = ["", " ", "cpp", "cpp,", "cpp, ", ",", ",cpp", "cpp,,x", "a,b,c", " a , b ,", "a b", "_a", "9a", "a9_"]
    for _ in range(300):
        strs.append("".join(r.choice(alphabet) for _ in range(r.randint(0, 7))))
    for s in strs:
        lines.append("BACKENDS " + json.dumps(s))
        meta.append(("backends", s, bool(rx.fullmatch(s))))
    for name, req in ext.items():
        if req is None:
            continue
        for n in [None] + list(range(-2, 131)):
            lines.append("REQ %s %s" % ("none" if n is None else n, json.dumps(tr.sexpr_json(req))))
            meta.append(("req", (name, n), bool(doc[name](n)) if name in doc else None))
    stats["table_probes"] = len(lines)
    if not model_ok:
        return
    answers = common.Model(MODEL).ask(lines)
    for (kind, what, want), ans in zip(meta, answers):
        chk.count()
        if want is None:
            continue
        if ans != ("true" if want else "false"):
            chk.violation("correspondence", {"input": repr(what), "op": kind, "model": ans,
                                             "observed": want,
                                             "theorem_or_correspondence": "model_c14 %s" % kind},
                          found_input=False)


def prelude_oracle(chk):
    """Model-free: the real front end on every prelude scalar at every width 0..66 (+ the
    multiples of 8 up to 136) against the documented ranges."""
    doc = {"UInt": lambda n: 1 <= n <= 64, "Int": lambda n: 1 <= n <= 64, "Bcd": lambda n: 1 <= n <= 64,
           "Flag": lambda n: n == 1, "Float": lambda n: n in (32, 64)}
    n_bad = 0
    for ty, ok in doc.items():
        for w in list(range(0, 67)):
            # inside an anonymous-free `bits` of at most 64 bits the width can be checked up to 64;
            # wider ones are checked byte-wise in a struct below
            if w > 64:
                continue
            text = mod("bits Foo:\n  0 [+%d]  %s  x\n" % (w, ty))
            ir, errors, exc = emb.compile_text({"m.emb": text})
            chk.count()
            accepted = exc is None and not errors
            if exc is not None or accepted != ok(w):
                n_bad += 1
                chk.violation("input", {"input": text, "expected": "accepted" if ok(w) else "rejected",
                                        "observed": repr(exc) if exc else emb.error_summary(errors)},
                              key="input:" + text)
        for b in (9, 10, 16, 17):
            text = mod("struct Foo:\n  0 [+%d]  %s  x\n" % (b, ty))
            ir, errors, exc = emb.compile_text({"m.emb": text})
            chk.count()
            if exc is not None or not errors:
                n_bad += 1
                chk.violation("input", {"input": text, "expected": "rejected",
                                        "observed": repr(exc) if exc else "accepted"},
                              key="input:" + text)
    return n_bad


def search(chk):
    """Model-free search (Lean obligations broken): documented ranges of the prelude types on
    the real front end, the reserved-word catalogue, and the violation catalogue against the
    spec oracle."""
    before = len(chk.violations)
    prelude_oracle(chk)
    stats = new_stats()
    words = [w for w, _ in tr.reserved_words()]
    r = common.rng("C14-search")
    sample = r.sample(words, min(60, len(words)))
    sample += [w for w in pinned_reserved() if w not in set(words)]
    cases = (corpus_cases() + valid_boundary_cases() + array_element_cases() + default_scope_cases()
             + violation_cases(sample))
    run_cases(chk, cases, False, stats)
    return len(chk.violations) - before


def pinned_reserved():
    """Snapshot of the documented reserved-word list (corpus/C14/reserved_words.pinned): a word
    that disappears from compiler/front_end/reserved_words must still be rejected."""
    out = []
    try:
        with open(os.path.join(common.VERIF, "corpus", PROP, "reserved_words.pinned"), encoding="utf-8") as f:
            for line in f:
                if line.strip():
                    out.append(line.rstrip("\n").split("\t")[0])
    except OSError:
        pass
    return out


def new_stats():
    return {"rules": {}, "kinds": {}, "scope": {}, "model_checked": 0, "disagreements": 0, "features": {}}


def run(tier):
    chk = common.Check(PROP, tier, exes=[MODEL])
    chk.cov["rule"] = ("a case = one .emb module; non-trivial = rejected by the real front end, or a "
                       "generated (non-testdata) module that is accepted; distinct by text")
    changed = tr.regenerate()
    chk.extra["regenerated_tables_changed"] = changed
    model_ok = common.proof_gate(chk, search)
    stats = new_stats()
    known_findings_replay(chk)
    table_checks(chk, model_ok, stats)
    words = [w for w, _ in tr.reserved_words()]
    r = common.rng("C14")
    if tier == "quick":
        import re as _re
        camel = [w for w in words if _re.fullmatch(r"[A-Z][a-zA-Z0-9]*[a-z][a-zA-Z0-9]*", w)]
        shouty = [w for w in words if _re.fullmatch(r"[A-Z][A-Z_0-9]*[A-Z_][A-Z_0-9]*", w)]
        snake = [w for w in words if _re.fullmatch(r"[a-z][a-z_0-9]*", w)]
        wsample = (r.sample(snake, min(30, len(snake))) + r.sample(shouty, min(8, len(shouty)))
                   + r.sample(camel, min(8, len(camel))))
        n_rand = 150
    else:
        wsample = words
        n_rand = 3000
        prelude_oracle(chk)
    dropped = [w for w in pinned_reserved() if w not in set(words)]
    chk.extra["reserved_words_dropped_since_pinned"] = dropped[:20]
    single = array_element_cases() + violation_cases(wsample + dropped)
    cases = (testdata_cases() + corpus_cases() + finding_cases() + valid_boundary_cases()
             + default_scope_cases() + gate_cases() + single
             + multi_violation_cases(r, single, 120 if tier == "quick" else 1500)
             + order_cases(r, words, 40 if tier == "quick" else 400))
    # random valid modules and single mutations of them
    for i in range(n_rand):
        text, feats = rand_module(r)
        for f in set(feats):
            stats["features"][f] = stats["features"].get(f, 0) + 1
        cases.append(Case(text, True, "random-valid", tag="random %d" % i))
        if r.random() < 0.6:
            m = mutate_valid(r, text)
            if m:
                mt, rule, _k = m
                cases.append(Case(mt, None if rule.endswith("?") else False, "random-mutant:" + rule,
                                  None, tag="mutant of random %d" % i))
    # sample a few
    for c in cases[33:36]:
        chk.sample({"emb": c.text[:400], "rule": c.rule}, limit=3)
    run_cases(chk, cases, model_ok, stats)
    chk.extra["distribution"] = stats
    chk.extra["traces_validated_against_impl"] = stats["model_checked"]
    chk.extra["disagreements"] = stats["disagreements"]
    # with broken Lean obligations nothing is "discharged": report the run as exploration so
    # that the evidence stays valid and the exit code reflects the violations found
    return chk.finish(level="proof" if model_ok else "exploration")


def replay(path):
    rec = json.load(open(path))
    files = rec.get("files") or {rec.get("main") or "m.emb": rec["input"]}
    main = rec.get("main") or "m.emb"
    ob = observe(files, main)
    print("input:\n" + (rec["input"] if isinstance(rec["input"], str) else repr(rec["input"])))
    print("exception:", ob["exc"])
    print("error kinds:", ob["kinds"])
    print("messages:", ob.get("messages"))
    print("expected:", rec.get("expected"))
    if ob["program"] is not None:
        try:
            print("model:", common.Model(MODEL).ask([model_line(ob["program"])])[0])
        except Exception as e:  # noqa: BLE001
            print("model unavailable:", e)
    return 0
