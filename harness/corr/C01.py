"""C01 — generated C++ views report structure state and values exactly as the .emb defines;
prefix monotonicity.

Tie: correspondence.  Repo testdata files, corpus files and random embgen modules are compiled
by the real front end + real header generator; a sanitized C++ driver (cppdrv) observes every
view/accessor (`OBS`) over every prefix length 0..max+2 of random / zero / 0xFF / small-biased
buffers.  The same command lines go to the Lean model `model_c01` fed with the *real* IR
(irpack) and the two output streams are compared line by line.

Spec oracles run directly on the real outputs of every case:
  * prefix monotonicity of everything reported as known (cppdrv.monotone_violations);
  * the Python reference semantics R (embref, written from the docs) on the generator's
    intended layout for the random modules.
"""
import collections
import time
import json

from harness.lib import common, cppdrv, embref, viewcorr

PROP = "C01"
KEY_DYN = "monotone:fixed-size-type-in-dynamically-sized-field"
KEY_ARG = "constants:size-above-max-size:argument-outside-parameter-range"


def dyn_sized_fixed_fields(prepared):
    """(struct, field) pairs where a fixed-size scalar/enum/bits type sits in a field whose size is
    not a compile-time constant — independent IR walk (the Lean side calls the negation moduleWF)."""
    out = set()
    for si in prepared.structs.values():
        for f in si.type_ir["structure"].get("field", []):
            ty = f.get("type", {})
            if "atomic_type" not in ty or "location" not in f:
                continue
            ref = ty["atomic_type"]["reference"]["canonical_name"]
            target = ".".join(ref["object_path"])
            is_struct = target in prepared.structs and prepared.structs[target].unit == 8
            if is_struct:
                continue
            size_t = f["location"]["size"].get("type", {}).get("integer", {})
            if size_t.get("modulus") != "infinity":
                out.add((si.name, f["name"]["name"]["text"]))
    return out


def constants_violations(t, key, seen, path=""):
    """`C01_constants`: the min/max size constants of a structure are the same on every buffer
    (the empty one included) and bracket every size the view reports:
    MinSizeIn… ≤ SizeIn… ≤ MaxSizeIn…  (doc/cpp-reference.md: "the maximum/minimum size of the
    structure in any valid configuration").  Recurses into nested structure observations."""
    out = []
    if t["k"] == "array":
        for i, e in enumerate(t["elems"]):
            out += constants_violations(e, key + ("[]",), seen, "%s[%d]" % (path, i))
        return out
    if t["k"] != "struct":
        return out
    consts = {}
    for n, h, o in t["fields"]:
        if n.startswith("$max_size_in_") or n.startswith("$min_size_in_"):
            if h != "T" or not o.get("ok") or o.get("value") is None:
                out.append("%s.%s is not a readable constant (has=%s %r)" % (path, n, h, o))
            else:
                consts[n[:4]] = int(o["value"])
                old = seen.setdefault(key + (n,), o["value"])
                if old != o["value"]:
                    out.append("%s.%s changes with the buffer: %s vs %s" % (path, n, old, o["value"]))
        elif o.get("k") in ("struct", "array"):
            out += constants_violations(o, key + (n,), seen, path + "." + n)
    if t["size_known"]:
        if "$min" in consts and t["size"] < consts["$min"]:
            out.append("%s: size %d < MinSize %d" % (path, t["size"], consts["$min"]))
        if "$max" in consts and t["size"] > consts["$max"]:
            out.append("%s: size %d > MaxSize %d" % (path, t["size"], consts["$max"]))
    return out


def _check_case_outputs(chk, case, sweep, answers, stats):
    """Spec oracles on the real outputs.  Returns list of parsed trees (None where crashed)."""
    trees = []
    prev = None
    seen_consts = {}
    for (cmd, si, pv, data, g), ans in zip(sweep, answers):
        if ans is None:
            trees.append(None)
            prev = None
            continue
        chk.count()
        try:
            t = cppdrv.parse_obs(ans)
        except Exception as e:  # noqa: BLE001
            raise common.InfraError("unparsable driver answer %r: %s" % (ans[:200], e))
        trees.append(t)
        # (1) prefix monotonicity against the previous prefix of the same sweep
        if prev is not None and prev[0] == g:
            bad = cppdrv.monotone_violations(prev[1], t)
            if bad:
                stats["monotone_violations"] += 1
                fld = bad[0].split(" ")[0].lstrip(".").split(".")[0].split("[")[0]
                key = KEY_DYN if (si.name, fld) in dyn_sized_fixed_fields(case.prepared) \
                    else "monotone:%s" % bad[0].split(" ")[0]
                chk.violation("input", {
                    "module": case.text, "case": case.name, "command_short": prev[2], "command": cmd,
                    "observed_short": prev[3], "observed": ans, "expected": "everything known on the shorter "
                    "prefix keeps its value on the longer one", "differences": bad[:8]},
                    key=key)
        prev = (g, t, cmd, ans)
        # (1b) size constants
        cbad = constants_violations(t, (si.name, tuple(pv)), seen_consts)
        stats["constants_checked"] += 1
        if cbad:
            stats["constants_violations"] += 1
            only_above_max = all("> MaxSize" in b for b in cbad)
            chk.violation("input", {"module": case.text, "case": case.name, "command": cmd, "observed": ans,
                                    "expected": "Min/MaxSizeIn… are constants and bracket the reported size",
                                    "differences": cbad[:8]},
                          key=KEY_ARG if only_above_max and viewcorr.param_range_escapes(case.prepared) else None)
        # (2) reference semantics
        ref = viewcorr.reference_obs(case, si, pv, data)
        if ref is not None:
            stats["reference_checked"] += 1
            d = embref.diff(t, ref)
            if d:
                stats["reference_diffs"] += 1
            if d and stats["reference_diffs"] <= 10:
                chk.violation("input", {"module": case.text, "case": case.name, "command": cmd,
                                        "observed": ans, "expected": "reference semantics (embref)",
                                        "differences": d[:8]})
        # coverage
        has = "".join(h for _n, h, _o in t["fields"] if not _n.startswith("$"))
        chk.nontrivial((case.name, si.name, t["ok"], t["complete"], t["size"], has))
        stats["ok_views"] += 1 if t["ok"] else 0
        stats["complete_views"] += 1 if t["complete"] else 0
        stats["size_unknown"] += 0 if t["size_known"] else 1
    return trees


def _run(chk, tier, model_ok):
    r = common.rng("C01")
    quick = tier == "quick"
    tm = {}
    t0 = time.time()
    n_random = 16 if quick else 120
    n_base = 5 if quick else 12
    cases, dist = viewcorr.make_cases(chk, r, n_random, corpus_prop=PROP, logic_probes=True)
    pinned = []
    for k in chk.known:
        if k.get("property") == PROP and k.get("status") == "open":
            inp = json.loads(k["input"])
            c = viewcorr.Case("pinned/" + k["key"], inp["module"])
            c.prepared = cppdrv.prepare(c.text)
            if c.prepared.ok:
                c.sexpr, c.unsupported = viewcorr.irpack.pack(c.prepared)
                pinned.append((k, c, inp["commands"]))
    cases_all = cases + [c for _k, c, _cmds in pinned]
    tm["prepare_s"] = round(time.time() - t0, 1)
    t0 = time.time()
    failed = viewcorr.build_cases(cases_all, features=("obs",), workers=8,
                                  std="c++14" if quick else "c++17")
    for c in failed:
        raise common.InfraError("driver of %s does not compile: %s" % (c.name, c.build_log[-1500:]))
    tm["build_s"] = round(time.time() - t0, 1)
    t0 = time.time()
    stats = collections.Counter()
    crash_list = []
    per_case = []
    for k, c, cmds in pinned:
        rr, out = cppdrv.ask(c.binary, cmds)
        if rr.kind == "ok" and len(out) == 2 and \
                cppdrv.monotone_violations(cppdrv.parse_obs(out[0]), cppdrv.parse_obs(out[1])):
            chk.report_known(k)
        elif rr.kind == "ok" and len(out) == 1 and json.loads(k["input"]).get("expect") == "size-above-max":
            if any("> MaxSize" in b for b in constants_violations(cppdrv.parse_obs(out[0]), ("pinned",), {})):
                chk.report_known(k)
        elif rr.kind == "ok" and len(out) == 1 and json.loads(k["input"]).get("expect_ok_field"):
            t = cppdrv.parse_obs(out[0])
            if any(n == json.loads(k["input"])["expect_ok_field"] and o.get("ok") for n, _h, o in t["fields"]):
                chk.report_known(k)
        elif rr.kind != "ok" and viewcorr.crash_key(rr, cmds[len(out)] if len(out) < len(cmds) else cmds[-1], c) == k["key"]:
            chk.report_known(k)
    for case in cases:
        if len(chk.violations) >= 12:
            chk.extra["stopped_early"] = "12 violations reported; remaining cases not run"
            break
        sweep = viewcorr.obs_sweeps(r, case, n_base)
        cmds = [s[0] for s in sweep]

        def on_crash(cmd, rr, case=case):
            key = viewcorr.crash_key(rr, cmd, case)
            crash_list.append((case.name, cmd, key))
            # a view that aborts instead of reporting does not report what the reference defines
            chk.violation("input", {"module": case.text, "case": case.name, "command": cmd,
                                    "observed": "%s: %s" % (rr.kind, (rr.err or "")[:1200]),
                                    "expected": "an observation (the driver aborted: sanitizer report or "
                                                "EMBOSS_CHECK; see also C04)"}, key=key)
        answers = viewcorr.run_surviving(case, cmds, on_crash, max_crashes=6)
        _check_case_outputs(chk, case, sweep, answers, stats)
        per_case.append((case, cmds, answers))
        if len(chk.cov["samples"]) < 4 and answers and answers[-1]:
            chk.sample({"case": case.name, "command": cmds[-1], "real": answers[-1][:300]})
    chk.extra["sanitizer_or_check_aborts"] = [list(x) for x in crash_list[:10]]
    stats["crashed_commands"] = len(crash_list)
    tm["run_and_oracles_s"] = round(time.time() - t0, 1)
    t0 = time.time()
    chk.extra["timing"] = tm
    # ---- correspondence with the Lean model fed with the real IR
    if model_ok:
        todo = [(case, cmds) for case, cmds, _a in per_case if case.sexpr]
        results = viewcorr.model_answers(todo)
        disagreements = 0
        validated = 0
        for (case, cmds, answers), (head, mans) in zip([pc for pc in per_case if pc[0].sexpr], results):
            parts = dict(p.split("=") for p in head.split()[2:]) if head.startswith("ok ") else {}
            nstructs = int(head.split()[1]) if head.startswith("ok ") else -1
            # C01_moduleWF_iff: wf = csm ∧ dyn.  csm (constant-size field of a fixed-size type has the
            # type's size) is enforced by the front end: required of every accepted module.  dyn = 0 is
            # accepted only where the independent IR walk finds the open finding's construct.
            wf_explained = (parts.get("wf") == "0" and parts.get("csm") == "1" and parts.get("dyn") == "0"
                            and bool(dyn_sized_fixed_fields(case.prepared)))
            if wf_explained:
                # outside the theorem's hypothesis for the reason the counterexample theorem names
                stats["modules_outside_moduleWF (dynamic-size fixed type)"] += 1
            if head.startswith("ok "):
                stats["ir_moduleConstMatch_checked"] += 1
                # structures for which SizeCovers is a theorem (C01_sizeCovers_of_closed_folds), not a hypothesis
                stats["structs_total"] += max(nstructs, 0)
                stats["structs_sizeCovers_discharged (structClosedFolds)"] += int(parts.get("cov", 0))
                # structures satisfying every decidable hypothesis of the refinement theorems (Model/ViewFrag.lean)
                stats["structs_in_refinement_fragment (structInFragment)"] += int(parts.get("ref", 0))
                stats["modules_in_refinement_fragment (moduleInFragment)"] += int(parts.get("refm", 0))
            if not head.startswith("ok ") or (parts.get("wf") != "1" and not wf_explained) \
                    or parts.get("csm") != "1" \
                    or int(parts.get("synth", -1)) != nstructs or int(parts.get("fuel", -1)) != nstructs:
                stats["ir_precondition_failures"] += 1
                chk.violation("correspondence", {
                    "module": case.text, "case": case.name, "model": head,
                    "theorem_or_correspondence": "real IR does not satisfy the model's preconditions "
                    "(moduleWF = moduleConstMatch ∧ moduleNoDynFixed / sizeIsSynth / fuelOK) — hypotheses of C01_prefix_monotone_partial, "
                    "C01_size_is_max_end"}, found_input=False)
                continue
            for cmd, real, mod in zip(cmds, answers, mans):
                if real is None:
                    continue
                validated += 1
                if real != mod:
                    disagreements += 1
                    if disagreements > 5:
                        continue
                    si = case.prepared.structs[cmd.split()[1]]
                    toks = cmd.split()
                    pv = [int(x) for x in toks[2:-1]]
                    data = bytes.fromhex(toks[-1]) if toks[-1] != "-" else b""
                    ref = viewcorr.reference_obs(case, si, pv, data)
                    d = embref.diff(cppdrv.parse_obs(real), ref) if ref is not None else []
                    chk.violation("input" if d else "correspondence",
                                  {"module": case.text, "case": case.name, "command": cmd, "observed": real,
                                   "model": mod, "expected": d[:8] or "real code agrees with the reference "
                                   "(or no reference for this file); the model differs",
                                   "theorem_or_correspondence": "model_c01 OBS vs generated C++"},
                                  found_input=bool(d))
        tm["model_s"] = round(time.time() - t0, 1)
        chk.extra["traces_validated_against_impl"] = validated
        chk.extra["disagreements"] = disagreements
    chk.extra["generator"] = dist.as_dict()
    chk.extra["stats"] = dict(stats)
    chk.extra["cases"] = [c.name for c in cases]
    chk.assumptions.append("a driver abort (sanitizer report / CHECK) is reported as a violation here too "
                           "(no observation where the reference defines one) and is C04's main subject")


def search(chk):
    """Model-free search: spec oracles on the real code only."""
    before = len(chk.violations)
    _run(chk, "quick", model_ok=False)
    return len(chk.violations) - before


def run(tier):
    chk = common.Check(PROP, tier, exes=["model_c01"])
    chk.cov["rule"] = ("one evaluation = one OBS of one structure over one buffer prefix on the real generated "
                       "C++; non-trivial = distinct (case, structure, Ok, IsComplete, size, presence pattern)")
    chk.trusted += ["g++/libstdc++/ASan/UBSan as oracle of what the generated C++ does",
                    "harness/lib/irpack.py transcribes the IR faithfully (exercised by the correspondence)",
                    "harness/lib/embref.py (reference semantics written from doc/*.md)"]
    t0 = time.time()
    model_ok = common.proof_gate(chk, search)
    gate = round(time.time() - t0, 1)
    if model_ok:
        _run(chk, tier, True)
    chk.extra.setdefault("timing", {})["proof_gate_s"] = gate
    return chk.finish()


def replay(path):
    rec = json.load(open(path))
    text = rec.get("module")
    if not text:
        print("replay file has no module")
        return 2
    p = cppdrv.prepare(text)
    if not p.ok:
        print("module rejected:", p.errors, p.exception)
        return 1
    (b, log), = cppdrv.build([p], features=("obs",))
    if not b:
        print(log[-2000:])
        return 2
    cmds = [c for c in (rec.get("command_short"), rec.get("command")) if c]
    rr, out = cppdrv.ask(b, cmds)
    print("driver:", rr.kind, rr.err[-800:])
    for c, o in zip(cmds, out):
        print(c, "->", o)
    if len(out) == 2:
        bad = cppdrv.monotone_violations(cppdrv.parse_obs(out[0]), cppdrv.parse_obs(out[1]))
        print("monotonicity differences:", bad)
    print("recorded expectation:", rec.get("expected"), rec.get("differences"))
    return 0
