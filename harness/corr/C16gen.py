"""Input generators for C16 (totality of the compiler).

Every generator takes a `random.Random` and returns a case
    {"kind": str, "main": file name, "files": {name: text}, "nesting": int}
with at most MAX_LINES lines per file and expression nesting at most MAX_NEST (the
property's quantifier).  Streams:

  bytes     random code points / latin-1 decoded random bytes
  soup      token soup from tokenizer.LITERAL_TOKEN_PATTERNS + regex examples
  grammar   random derivations of module_ir.PRODUCTIONS rendered with layout
            (syntactically valid, semantically arbitrary)
  sem       typed skeleton with (mostly well-typed, sometimes confused) random
            expressions in every expression position (reaches the late passes)
  mutate    line / token / attribute / number mutations of testdata/*.emb
  imports   import sets: missing, cyclic, duplicated, self, prelude-by-name
"""
import glob
import os
import re

from harness.lib import common

MAX_LINES = 300
MAX_NEST = 40

ATTR_NAMES = ["byte_order", "requires", "static_requirements", "is_integer",
              "addressable_unit_size", "fixed_size_in_bits", "maximum_bits", "is_signed",
              "text_output", "namespace", "enum_case", "range", "expected_back_ends", "bogus"]
SNAKE = ["a", "b", "c", "x", "y", "n", "foo", "bar", "size", "len", "flag", "inner"]
CAMEL = ["Foo", "Bar", "Baz", "Inner", "UInt", "Int", "Flag", "Bcd", "Float", "UInt", "Int", "Ee"]
SHOUTY = ["AA", "BB", "CC", "ZERO_VALUE"]
NUMBERS = ["0", "1", "2", "3", "4", "7", "8", "9", "16", "31", "32", "33", "63", "64", "65", "100",
           "255", "256", "1_000", "0xff", "0xffff_ffff", "0b1010", "4294967296",
           "9223372036854775807", "9223372036854775808", "18446744073709551615",
           "18446744073709551616", "340282366920938463463374607431768211456",
           "99999999999999999999999999999999999999999999"]
STRINGS = ['"LittleEndian"', '"BigEndian"', '"Null"', '"Emit"', '"Skip"', '"x"', '""', '"yes"',
           '"a::b"', '"m.emb"', '"other.emb"', '"cpp"', '"kCamel"', '"SHOUTY_CASE"',
           '"kCamel, SHOUTY_CASE"', '"\\n"', '"\\\\"', '"\\""']


def count_nesting(text):
    """Maximum bracket depth per line: an upper bound on expression nesting through
    parentheses (the only way to nest deeper than the grammar's fixed operator tower)."""
    best = 0
    for line in text.splitlines():
        d = 0
        for ch in line:
            if ch in "([":
                d += 1
                best = max(best, d)
            elif ch in ")]":
                d = max(0, d - 1)
    return best


def _case(kind, files, main="m.emb"):
    files = {k: clip(v) for k, v in files.items()}
    return {"kind": kind, "main": main, "files": files,
            "nesting": max([count_nesting(t) for t in files.values()] or [0])}


def clip(text):
    lines = text.split("\n")
    if len(lines) > MAX_LINES:
        text = "\n".join(lines[:MAX_LINES]) + "\n"
    return text


# ------------------------------------------------------------------ bytes
def gen_bytes(r):
    n = r.choice([0, 1, 2, 5, 20, 80, 300])
    mode = r.choice(["latin1", "ascii", "unicode", "ws", "linebreaks"])
    if mode == "latin1":
        t = bytes(r.randrange(256) for _ in range(n)).decode("latin-1")
    elif mode == "ascii":
        t = "".join(chr(r.randrange(128)) for _ in range(n))
    elif mode == "unicode":
        t = "".join(chr(r.choice([r.randrange(0x20, 0x7f), r.randrange(0x80, 0x3000),
                                  r.randrange(0x10000, 0x10ffff), 0x2028, 0x85, 0x0b, 0x0c, 0x1c]))
                    for _ in range(n))
    elif mode == "ws":
        t = "".join(r.choice(" \t\n\r\x0b\x0c#-") for _ in range(n))
    else:
        t = "".join(r.choice(["struct Foo:", "\r", "\n", "\r\n", "\x0b", "\x0c", "\x1c", "\x85",
                              "\u2028", "  0 [+1] UInt x", "  ", "\t", "if true:", "#c", "-- d"])
                    for _ in range(n // 4 + 1))
    return _case("bytes/" + mode, {"m.emb": t})


# ------------------------------------------------------------------ soup
_tok = None


def _tokens():
    global _tok
    if _tok is None:
        from compiler.front_end import tokenizer
        lits = list(tokenizer.LITERAL_TOKEN_PATTERNS)
        ex = [p.example for p in tokenizer.REGEX_TOKEN_PATTERNS]
        _tok = (lits, ex)
    return _tok


def gen_soup(r):
    lits, ex = _tokens()
    pool = lits + ex + SNAKE + CAMEL + SHOUTY + NUMBERS[:12] + STRINGS[:6]
    lines = []
    indent = 0
    for _ in range(r.randint(1, 25)):
        indent = max(0, indent + r.choice([-1, 0, 0, 0, 1]))
        k = r.choice([1, 2, 3, 5, 8, 13])
        toks = [r.choice(pool) for _ in range(k)]
        sep = r.choice([" ", " ", " ", ""])
        lines.append("  " * indent + sep.join(toks))
    return _case("soup", {"m.emb": "\n".join(lines) + r.choice(["\n", "", "\n\n"])})


# ------------------------------------------------------------------ grammar
_gram = None


def _grammar():
    """productions by lhs + minimal derivation height of every symbol."""
    global _gram
    if _gram is None:
        from compiler.front_end import module_ir
        by = {}
        for p in module_ir.PRODUCTIONS:
            by.setdefault(p.lhs, []).append(tuple(p.rhs))
        height = {}
        changed = True
        while changed:
            changed = False
            for lhs, alts in by.items():
                for rhs in alts:
                    hs = [0 if s not in by else height.get(s) for s in rhs]
                    if any(h is None for h in hs):
                        continue
                    h = 1 + max(hs or [0])
                    if height.get(lhs, 1 << 30) > h:
                        height[lhs] = h
                        changed = True
        _gram = (by, height, module_ir.START_SYMBOL)
    return _gram


def derive(r, symbol, budget, out, depth=0):
    by, height, _ = _grammar()
    if symbol not in by:
        out.append(symbol)
        return
    alts = by[symbol]

    def h(rhs):
        return 1 + max([height.get(s, 0) if s in by else 0 for s in rhs] or [0])
    if budget[0] <= 0 or depth > 60:
        m = min(h(a) for a in alts)
        alts = [a for a in alts if h(a) == m]
    rhs = r.choice(alts)
    budget[0] -= 1
    for s in rhs:
        derive(r, s, budget, out, depth + 1)


def lexeme(r, sym, prev):
    if sym == "SnakeWord":
        if prev and prev[-1] in ("[", "$default") or (len(prev) >= 3 and prev[-1] == ")" and prev[-3] == "("
                                                      and len(prev) >= 4 and prev[-4] == "["):
            return r.choice(ATTR_NAMES) if r.random() < 0.9 else r.choice(SNAKE)
        if len(prev) >= 2 and prev[-1] == "(" and prev[-2] == "[":
            return r.choice(["cpp", "cpp", "java"])
        return r.choice(SNAKE)
    if sym == "CamelWord":
        return r.choice(CAMEL)
    if sym == "ShoutyWord":
        return r.choice(SHOUTY)
    if sym == "Number":
        return r.choice(NUMBERS)
    if sym == "String":
        return r.choice(STRINGS)
    if sym == "BooleanConstant":
        return r.choice(["true", "false"])
    if sym == "Documentation":
        return r.choice(["-- doc", "--", "-- more [doc]"])
    if sym == "Comment":
        return r.choice(["# c", "#"])
    if sym.startswith('"') and sym.endswith('"'):
        return sym[1:-1]
    return sym


def render(r, symbols):
    lines, cur, level, prev = [], [], 0, []
    for s in symbols:
        if s == '"\\n"':
            lines.append(("  " * level if cur else "") + " ".join(cur))
            cur = []
        elif s == "Indent":
            level += 1
        elif s == "Dedent":
            level = max(0, level - 1)
        else:
            t = lexeme(r, s, prev)
            cur.append(t)
            prev.append(t)
    if cur:
        lines.append("  " * level + " ".join(cur))
    return "\n".join(lines) + "\n"


def gen_grammar(r, start=None):
    _, _, s0 = _grammar()
    out = []
    derive(r, start or s0, [r.choice([30, 80, 200, 500])], out)
    text = render(r, out)
    return _case("grammar", {"m.emb": text})


# ------------------------------------------------------------------ sem (typed skeleton)
class Sem:
    """Typed-skeleton generator: structures whose every expression position holds a
    random expression of (mostly) the expected type.  `wild` is the probability of each
    deliberately wrong choice (unknown name, wrong type, misplaced builtin, odd size)."""

    def __init__(self, r):
        self.r = r
        self.wild = r.choice([0.0, 0.0, 0.0, 0.02, 0.05, 0.15, 0.4])
        self.big = r.choice([0.0, 0.02, 0.02, 0.15])
        self.ints = []      # names usable as integers in the current struct
        self.bools = []
        self.enums = []
        self.structs = []   # (field name, [int subfields])
        self.all_names = []
        self.in_bits = False
        self.allow_size = False     # $size_in_bytes & co. only where they cannot create a cycle
        self.used_size = False
        self.depth_cap = r.choice([1, 2, 2, 3, 4, 6])

    def w(self, scale=1.0):
        return self.r.random() < self.wild * scale

    def num(self):
        r = self.r
        if r.random() < self.big:
            return r.choice(NUMBERS)
        return str(r.choice([0, 0, 1, 1, 2, 3, 4, 7, 8, 15, 16, 32, 64, 100, 255, 256, 65535]))

    def ref(self, pool, fallback):
        r = self.r
        if self.w():
            return r.choice(self.all_names + SNAKE)
        if pool:
            return r.choice(pool)
        return fallback

    def size_builtin(self):
        r = self.r
        unit = "bits" if self.in_bits else "bytes"
        if self.w():
            unit = "bytes" if self.in_bits else "bits"
        return r.choice(["$size_in_", "$max_size_in_", "$min_size_in_"]) + unit

    def expr(self, ty, d=0):
        r = self.r
        if self.w():
            ty = r.choice(["int", "bool", "enum"])
        leaf = d >= self.depth_cap or r.random() < 0.3
        if ty == "int":
            if leaf:
                k = r.random()
                if k < 0.35:
                    return self.num()
                if k < 0.8:
                    return self.ref(self.ints, self.num())
                if k < 0.9 and self.structs:
                    s, subs = r.choice(self.structs)
                    if self.w():
                        return s + "." + r.choice(["nope", "$next", "a.b"])
                    return s + "." + r.choice(subs + ["$size_in_bytes", "$max_size_in_bytes", "$min_size_in_bytes"])
                if self.w():
                    return r.choice(["$next", "$static_size_in_bits"])
                if self.allow_size or self.w():
                    self.used_size = True
                    return self.size_builtin()
                return self.num()
            k = r.random()
            if k < 0.30:
                return "%s %s %s" % (self.sub("int", d), r.choice(["+", "-", "*", "+", "-"]), self.sub("int", d))
            if k < 0.38:
                return "%s(%s)" % (r.choice(["-", "+"]), self.expr("int", d + 1))
            if k < 0.55:
                return "%s(%s)" % (r.choice(["$upper_bound", "$lower_bound"]), self.expr("int", d + 1))
            if k < 0.70:
                n = r.choice([1, 1, 2, 2, 3, 5])
                if self.w():
                    n = 0
                return "$max(%s)" % ", ".join(self.expr("int", d + 1) for _ in range(n))
            if k < 0.90:
                return "(%s ? %s : %s)" % (self.expr("bool", d + 1), self.expr("int", d + 1), self.expr("int", d + 1))
            return "(%s)" % self.expr("int", d + 1)
        if ty == "bool":
            if leaf:
                k = r.random()
                if k < 0.35:
                    return r.choice(["true", "false"])
                if k < 0.7:
                    return self.ref(self.bools, r.choice(["true", "false"]))
                if k < 0.75 and self.w():
                    return "$is_statically_sized"
                if self.all_names:
                    if self.w():
                        return r.choice(["$present()", "$present(1)", "$present(%s, %s)" % (self.all_names[0], self.all_names[0])])
                    return "$present(%s)" % r.choice(self.all_names)
                return "true"
            k = r.random()
            if k < 0.35:
                op = r.choice(["==", "!=", "<", "<=", ">", ">="])
                e = "%s %s %s" % (self.sub("int", d), op, self.sub("int", d))
                if op != "!=" and r.random() < 0.25:
                    nxt = {"==": ["=="], "<": ["<", "<=", "=="], "<=": ["<", "<=", "=="],
                           ">": [">", ">=", "=="], ">=": [">", ">=", "=="]}[op]
                    e += " %s %s" % (r.choice(nxt), self.sub("int", d))
                    if self.w():
                        e += " %s %s" % (r.choice(["!=", "<", ">"]), self.sub("int", d))
                return e
            if k < 0.5:
                return "%s %s %s" % (self.sub("enum", d), r.choice(["==", "!="]), self.sub("enum", d))
            if k < 0.6:
                return "%s %s %s" % (self.sub("bool", d), r.choice(["==", "!="]), self.sub("bool", d))
            if k < 0.85:
                op = r.choice(["&&", "||"])
                return (" %s " % op).join("(%s)" % self.expr("bool", d + 1) for _ in range(r.choice([2, 2, 3])))
            return "(%s ? %s : %s)" % (self.expr("bool", d + 1), self.expr("bool", d + 1), self.expr("bool", d + 1))
        # enum
        if leaf or r.random() < 0.5:
            if self.w():
                return r.choice(["Ee.NOPE", "Ff.AA", "AA", "Ee"])
            if r.random() < 0.5 or not self.enums:
                return "Ee." + r.choice(SHOUTY[:3])
            return r.choice(self.enums)
        return "(%s ? %s : %s)" % (self.expr("bool", d + 1), self.expr("enum", d + 1), self.expr("enum", d + 1))

    def sub(self, ty, d):
        e = self.expr(ty, d + 1)
        return "(%s)" % e if " " in e else e

    def attrs_for_field(self, cat):
        r = self.r
        out = []
        if r.random() < 0.2 and cat in ("int", "bool", "enum"):
            save = (self.ints, self.bools, self.enums, self.structs, self.all_names, self.allow_size)
            if not self.w():
                self.ints, self.bools, self.enums, self.structs, self.all_names = [], [], [], [], []
                self.allow_size = False
            if cat == "int":
                self.ints = self.ints + ["this", "this"]
            elif cat == "bool":
                self.bools = self.bools + ["this", "this"]
            else:
                self.enums = self.enums + ["this", "this"]
            out.append("[requires: %s]" % self.expr("bool"))
            self.ints, self.bools, self.enums, self.structs, self.all_names, self.allow_size = save
        if r.random() < 0.06:
            out.append("[byte_order: %s]" % (r.choice(STRINGS[:4] + ["true", "1"]) if self.w(3) else
                                             r.choice(['"LittleEndian"', '"BigEndian"'])))
        if r.random() < 0.06:
            out.append("[text_output: %s]" % (r.choice(['"x"', "1", "true"]) if self.w(3) else r.choice(['"Emit"', '"Skip"'])))
        if self.w(0.5):
            out.append("[%s: %s]" % (r.choice(ATTR_NAMES), r.choice([self.expr("int"), self.expr("bool"), r.choice(STRINGS)])))
        return out

    def type_use(self):
        """returns (type text, category, size text)"""
        r = self.r
        k = r.random()
        bits = self.in_bits
        if self.w():
            t = r.choice(CAMEL + ["UInt:0", "UInt:65", "Int:128", "UInt:%s" % self.num(), "Flag", "Float", "Pp", "Inner(1)"])
            return t, "other", r.choice(["0", "1", "3", "9", "65", self.num()])
        if k < 0.5:
            t = r.choice(["UInt", "UInt", "Int", "Bcd"])
            size = r.choice(["1", "4", "8", "16", "32", "64", "3", "7"]) if bits else r.choice(["1", "2", "4", "8", "1", "3", "5"])
            if r.random() < 0.15:
                t += ":%d" % (int(size) * (1 if bits else 8))
            return t, "int", size
        if k < 0.58:
            return "Flag", "bool", "1"
        if k < 0.68:
            size = r.choice(["1", "4", "8", "16", "64"]) if bits else r.choice(["1", "2", "4", "8"])
            return "Ee", "enum", size
        if k < 0.73:
            return "Float", "other", (r.choice(["32", "64"]) if bits else r.choice(["4", "8"]))
        if bits:
            return "UInt", "int", r.choice(["2", "5", "12"])
        if k < 0.80:
            return "Inner", "struct", "2"
        if k < 0.82:
            return "Dyn", "struct", self.ref(self.ints, "4")
        if k < 0.88:
            return "Bb", "struct", "1"
        if k < 0.94:
            arg = self.expr("int", self.depth_cap - 1) if r.random() < 0.5 else r.choice(["1", "2", "3"])
            return "Pp(%s)" % arg, "struct", arg
        n = r.choice(["2", "4", "0", "1"])
        el = r.choice(["UInt:8", "UInt:16", "Int:8", "Ee:8", "Inner", "UInt:8[2]"])
        if r.random() < 0.3:
            cnt = self.expr("int", self.depth_cap - 1)
            return "%s[%s]" % (el, cnt), "array", cnt
        if r.random() < 0.3:
            return "%s[]" % el, "array", self.ref(self.ints, "4")
        mult = {"UInt:8": 1, "UInt:16": 2, "Int:8": 1, "Ee:8": 1, "Inner": 2, "UInt:8[2]": 2}[el]
        return "%s[%s]" % (el, n), "array", str(int(n) * mult)

    def field_line(self, name, off, ind, first):
        r = self.r
        t, cat, size = self.type_use()
        if r.random() < 0.12:
            size = self.expr("int", max(0, self.depth_cap - 2))
        k = r.random()
        if k < 0.2 and (not first or self.w()):
            loc = "$next"
        elif k < 0.4 and (not self.in_bits or self.w()):
            loc = self.expr("int", max(0, self.depth_cap - 2))
        else:
            loc = str(off)
        abbr = " (%s)" % r.choice(["q", name[0], "x"]) if r.random() < 0.03 else ""
        attrs = self.attrs_for_field(cat)
        inline_attrs = ""
        body = []
        for a in attrs:
            if r.random() < 0.5:
                inline_attrs += "  " + a
            else:
                body.append(ind + "  " + a)
        line = "%s%s [+%s]  %s  %s%s%s" % (ind, loc, size, t, name, abbr, inline_attrs)
        if cat == "int":
            self.ints.append(name)
        elif cat == "bool":
            self.bools.append(name)
        elif cat == "enum":
            self.enums.append(name)
        elif cat == "struct":
            self.structs.append((name, ["a", "b"]))
        self.all_names.append(name)
        return [line] + body

    def struct_body(self, ind, in_bits, nfields, params=()):
        r = self.r
        save = (self.ints, self.bools, self.enums, self.structs, self.all_names, self.in_bits)
        self.ints, self.bools, self.enums, self.structs, self.all_names = list(params), [], [], [], list(params)
        self.in_bits = in_bits
        lines = []
        attr_at = None
        if r.random() < 0.15:
            attr_at = len(lines)
        if self.w(0.5):
            lines.append(ind + "[%s%s: %s]" % (r.choice(["", "$default ", "(cpp) "]), r.choice(ATTR_NAMES),
                                             r.choice([self.expr("int"), self.expr("bool"), r.choice(STRINGS)])))
        off = 0
        names = ["f%d" % i for i in range(nfields)]
        if self.w():
            self.ints += names[:]       # forward / self references
        i = 0
        first = True
        while i < len(names):
            nm = names[i]
            k = r.random()
            if k < 0.55:
                lines += self.field_line(nm, off, ind, first)
                first = False
                off += r.choice([1, 1, 2, 4, 8])
            elif k < 0.75:
                ty = r.choice(["int", "int", "int", "bool", "enum"])
                self.allow_size, self.used_size = r.random() < 0.3, False
                lines.append("%slet %s = %s" % (ind, nm, self.expr(ty)))
                self.allow_size = False
                if self.used_size and not self.w():
                    ty = "none"
                if r.random() < 0.1 and ty == "int":
                    self.ints.append("this")
                    lines.append(ind + "  [requires: %s]" % self.expr("bool"))
                    self.ints.remove("this")
                {"int": self.ints, "bool": self.bools, "enum": self.enums, "none": []}[ty].append(nm)
                if ty != "none":
                    self.all_names.append(nm)
            elif k < 0.87:
                lines.append("%sif %s:" % (ind, self.expr("bool")))
                save_ind, self_in = ind, None
                for _ in range(r.choice([1, 1, 2])):
                    lines += self.field_line(nm, off, ind + "  ", first)
                    first = False
                    off += 1
                    i += 1
                    if i >= len(names):
                        break
                    nm = names[i]
                continue
            elif k < 0.93 and not in_bits:
                lines.append("%s%d [+%s]  bits:" % (ind, off, r.choice(["1", "2", "4", "8"]) if not self.w() else r.choice(["0", "9", "x"])))
                sub_off = 0
                for j in range(r.choice([1, 2, 3])):
                    wd = r.choice([1, 3, 4])
                    nm2 = "%s_%d" % (nm, j)
                    ty = r.choice(["UInt", "Flag", "Int", "Ee", "Bcd"])
                    if ty == "Flag":
                        wd = 1
                    lines.append("%s  %d [+%d]  %s  %s" % (ind, sub_off, wd, ty, nm2))
                    sub_off += wd
                    {"UInt": self.ints, "Int": self.ints, "Bcd": self.ints, "Flag": self.bools, "Ee": self.enums}[ty].append(nm2)
                    self.all_names.append(nm2)
                first = False
                off += 1
            else:
                kind = r.choice(["enum", "struct", "bits"]) if not in_bits else r.choice(["enum", "bits"])
                lines.append("%s%d [+%s]  %s %s:" % (ind, off, "1" if not self.w() else r.choice(["2", "4", "0"]), kind, nm))
                if kind == "enum":
                    lines.append("%s  XX = %s" % (ind, self.num()))
                    lines.append("%s  YY = %s" % (ind, r.choice(["1 + 1", "2 * 3", "XX + 1" if self.w() else "7", "$max(1, 2)"])))
                else:
                    lines.append("%s  0 [+%s]  UInt  a" % (ind, "1" if (kind == "struct" or in_bits) else "8"))
                    if r.random() < 0.5:
                        lines.append("%s  let b = a + %s" % (ind, self.num()))
                self.all_names.append(nm)
                first = False
                off += 1
            i += 1
        if attr_at is not None:
            lines.insert(attr_at, ind + "[requires: %s]" % self.expr("bool"))
        if self.w(0.5):
            lines.append("%slet %s = %s" % (ind, r.choice(["$size_in_bytes", "f0", "x", "$next"]), self.expr("int")))
        self.ints, self.bools, self.enums, self.structs, self.all_names, self.in_bits = save
        if not lines:
            lines.append(ind + "0 [+1]  UInt  a")
        return lines

    def module(self):
        r = self.r
        L = []
        if r.random() < 0.95:
            L.append('[$default byte_order: %s]' % (r.choice(['"x"', "true", '"Null"']) if self.w() else
                                                    r.choice(['"LittleEndian"', '"BigEndian"'])))
        if r.random() < 0.5:
            L.append('[(cpp) namespace: %s]' % (r.choice(['""', '"::a"', '"a::"', '"1x"', '"class"', "1", '"a b"']) if self.w(2) else
                                                r.choice(['"a::b"', '"a"', '"::a::b"'])))
        if self.w(0.5):
            L.append("[expected_back_ends: %s]" % r.choice(['"cpp"', '"java"', '""', "1", '"cpp, java"']))
        L.append("enum Ee:")
        if r.random() < 0.3:
            L.append("  [maximum_bits: %s]" % (r.choice(["65", "0", "1", '"x"', "true"]) if self.w(2) else r.choice(["8", "16", "32", "64"])))
        if r.random() < 0.3:
            L.append("  [is_signed: %s]" % (r.choice(["1", '"x"', "1 == 1"]) if self.w(2) else r.choice(["true", "false"])))
        for nm in SHOUTY[:3]:
            v = self.num() if r.random() < 0.7 else self.expr("int", max(0, self.depth_cap - 2))
            extra = ""
            if r.random() < 0.08:
                extra = "  [(cpp) enum_case: %s]" % (r.choice(STRINGS) if self.w(3) else r.choice(['"kCamel"', '"SHOUTY_CASE"', '"kCamel, SHOUTY_CASE"']))
            L.append("  %s = %s%s" % (nm, v, extra))
        L.append("struct Inner:")
        L.append("  0 [+1]  UInt  a")
        L.append("  1 [+1]  %s  b" % r.choice(["UInt", "Int"]))
        if r.random() < 0.3:
            L.append("  let c = %s" % "a + 1")
        L.append("struct Dyn:")
        L.append("  0 [+1]  UInt  a")
        L.append("  1 [+a]  UInt:8[]  b")
        ptype = r.choice(["UInt:8", "UInt:8", "Int:16", "UInt:64", "UInt:32"])
        if self.w(2):
            ptype = r.choice(["UInt", "Flag", "Inner", "UInt:0", "UInt:65", "Ee", "UInt:8[]"])
        L.append("struct Pp(p: %s):" % ptype)
        L.append("  0 [+%s]  UInt:8[]  a" % r.choice(["p", "p", "1", "p+1", "p*2"]))
        L.append("  let b = %s" % r.choice(["p", "p + 1", "$size_in_bytes", "$upper_bound(p)", "$max_size_in_bytes", "$present(a) ? p : 0"]))
        L.append("bits Bb:")
        L.append("  0 [+4]  UInt  a")
        L.append("  4 [+3]  %s  b" % r.choice(["UInt", "Int", "Bcd"]))
        L.append("  7 [+1]  Flag  c")
        L.append("bits Bx:")
        L += self.struct_body("  ", True, r.choice([1, 2, 3]))
        if r.random() < 0.15:
            L.append("external Xx:")
            if self.w(3):
                L.append("  [%s: %s]" % (r.choice(ATTR_NAMES), r.choice([self.expr("int"), r.choice(STRINGS)])))
            L.append("  [is_integer: %s]" % r.choice(["true", "false"]))
            L.append("  [addressable_unit_size: %s]" % r.choice(["1", "8"]))
            if r.random() < 0.5:
                L.append("  [static_requirements: %s]" % r.choice(["$is_statically_sized", "$static_size_in_bits == 8",
                                                                  "$is_statically_sized && $static_size_in_bits <= 64", "true"]))
            if r.random() < 0.5:
                L.append("  [fixed_size_in_bits: %s]" % r.choice(["8", "16", "1"]))
        nparams = r.choice([0, 0, 0, 1, 2])
        params = ["q%d" % i for i in range(nparams)]
        head = "struct Main"
        if params:
            head += "(%s)" % ", ".join("%s: %s" % (p, r.choice(["UInt:8", "UInt:32", "Int:8", "UInt:64"])) for p in params)
        L.append(head + ":")
        L += self.struct_body("  ", False, r.randint(1, 8), params)
        if r.random() < 0.15:
            L.append("struct User:")
            L.append("  0 [+1]  UInt  n")
            L.append("  1 [+%s]  Main%s  m" % (r.choice(["n", "8", "4"]),
                                               "(%s)" % ", ".join(r.choice(["n", "1", "n + 1"]) for _ in params) if params else ""))
            if r.random() < 0.5:
                L.append("  let z = m.f0")
        return "\n".join(L) + "\n"


def gen_sem(r):
    return _case("sem", {"m.emb": Sem(r).module()})


def nest(r, depth):
    """An expression nested `depth` deep (within the quantifier when depth <= MAX_NEST)."""
    e = r.choice(["x", "1", "x"])
    for i in range(depth):
        k = r.random()
        if k < 0.4:
            e = "(%s)" % e
        elif k < 0.6:
            e = "(%s + 1)" % e
        elif k < 0.7:
            e = "$max(%s)" % e
        elif k < 0.8:
            e = "(true ? %s : 0)" % e
        elif k < 0.9:
            e = "-(%s)" % e
        else:
            e = "$upper_bound(%s)" % e
    return e


def gen_nest(r):
    d = r.choice([5, 10, 20, 30, 38, 40])
    e = nest(r, d)
    where = r.choice(["let", "loc", "size", "cond", "requires", "array", "enum"])
    head = '[$default byte_order: "LittleEndian"]\n'
    if where == "let":
        t = head + "struct Foo:\n  0 [+1]  UInt  x\n  let y = %s\n" % e
    elif where == "loc":
        t = head + "struct Foo:\n  0 [+1]  UInt  x\n  %s [+1]  UInt  y\n" % e
    elif where == "size":
        t = head + "struct Foo:\n  0 [+1]  UInt  x\n  1 [+%s]  UInt:8[]  y\n" % e
    elif where == "cond":
        t = head + "struct Foo:\n  0 [+1]  UInt  x\n  if %s == 0:\n    1 [+1]  UInt  y\n" % e
    elif where == "requires":
        t = head + "struct Foo:\n  0 [+1]  UInt  x\n    [requires: %s == 3]\n" % e
    elif where == "array":
        t = head + "struct Foo:\n  0 [+1]  UInt  x\n  1 [+8]  UInt:8[%s]  y\n" % e
    else:
        t = "enum Foo:\n  AA = %s\n" % e.replace("x", "2")
    return _case("nest/%s" % where, {"m.emb": t})


# ------------------------------------------------------------------ mutate testdata
_testdata = None


def testdata():
    global _testdata
    if _testdata is None:
        _testdata = {}
        for p in sorted(glob.glob(os.path.join(common.REPO, "testdata", "*.emb"))):
            with open(p) as f:
                _testdata["testdata/" + os.path.basename(p)] = f.read()
        for p in sorted(glob.glob(os.path.join(common.REPO, "testdata", "*", "*.emb"))):
            with open(p) as f:
                _testdata["testdata/%s/%s" % (os.path.basename(os.path.dirname(p)), os.path.basename(p))] = f.read()
    return _testdata


_WORD = re.compile(r'"(?:[^"\n\\]|\\.)*"|\$?[A-Za-z_][A-Za-z_0-9]*|[0-9][0-9a-fA-Fx_]*|==|!=|<=|>=|&&|\|\||--|\s+|.', re.S)

TOKEN_SWAPS = ["UInt", "Int", "Flag", "Bcd", "Float", "0", "1", "8", "64", "65", "-1", "true", "false",
               "$next", "$size_in_bytes", "$max_size_in_bytes", "$upper_bound(x)", "$lower_bound(x)",
               "$present(x)", "$max()", "x", "+", "-", "*", "==", "<", "&&", "||", "?", ":", "[", "]",
               "(", ")", ".", ",", "struct", "bits", "enum", "let", "if", "import", "as", "external",
               '"x"', "$default", "18446744073709551616", "$is_statically_sized", "$static_size_in_bits"]


def mutate_text(r, text):
    ops = r.choice([1, 1, 1, 2, 3, 5])
    what = []
    for _ in range(ops):
        lines = text.split("\n")
        k = r.choice(["del_line", "dup_line", "swap_lines", "indent", "dedent", "tok_replace", "tok_delete",
                      "tok_insert", "attr_insert", "num", "truncate", "type_swap", "size_change", "join"])
        what.append(k)
        i = r.randrange(len(lines)) if lines else 0
        if k == "del_line" and lines:
            del lines[i]
        elif k == "dup_line" and lines:
            lines.insert(i, lines[i])
        elif k == "swap_lines" and len(lines) > 1:
            j = r.randrange(len(lines))
            lines[i], lines[j] = lines[j], lines[i]
        elif k == "indent" and lines:
            lines[i] = "  " + lines[i]
        elif k == "dedent" and lines:
            lines[i] = lines[i][2:] if lines[i].startswith("  ") else lines[i]
        elif k == "join" and len(lines) > 1 and i + 1 < len(lines):
            lines[i] = lines[i] + " " + lines[i + 1].strip()
            del lines[i + 1]
        elif k == "truncate":
            cut = r.randrange(len(text) + 1)
            lines = text[:cut].split("\n")
        elif k == "attr_insert" and lines:
            ind = re.match(r"\s*", lines[i]).group(0)
            attr = "%s[%s%s: %s]" % (ind, r.choice(["", "", "$default ", "(cpp) "]), r.choice(ATTR_NAMES),
                                     r.choice(STRINGS + ["true", "false", "1", "0", "x", "x + 1", "x == 1",
                                                         "$is_statically_sized", "$static_size_in_bits <= 64",
                                                         "18446744073709551616"]))
            lines.insert(i + r.choice([0, 1]), attr)
        else:
            toks = _WORD.findall(lines[i]) if lines else []
            idx = [j for j, t in enumerate(toks) if not t.isspace()]
            if idx:
                j = r.choice(idx)
                if k == "tok_replace":
                    toks[j] = r.choice(TOKEN_SWAPS)
                elif k == "tok_delete":
                    del toks[j]
                elif k == "tok_insert":
                    toks.insert(j, r.choice(TOKEN_SWAPS) + " ")
                elif k == "num":
                    nums = [q for q in idx if toks[q][0].isdigit()]
                    if nums:
                        toks[r.choice(nums)] = r.choice(NUMBERS + ["-1", "0"])
                elif k == "type_swap":
                    cam = [q for q in idx if re.match(r"[A-Z][a-zA-Z0-9]*[a-z]", toks[q])]
                    if cam:
                        toks[r.choice(cam)] = r.choice(CAMEL + ["Flag", "Float", "Bcd"])
                elif k == "size_change":
                    m = re.search(r"\[\+([^\]]*)\]", lines[i])
                    if m:
                        toks = _WORD.findall(lines[i][:m.start(1)] + r.choice(["0", "1", "3", "9", "x", "x+1", "65", "$next"]) + lines[i][m.end(1):])
                lines[i] = "".join(toks)
        text = "\n".join(lines)
    return text, "+".join(what)


def gen_mutate(r):
    td = testdata()
    name = r.choice(sorted(td))
    text, what = mutate_text(r, td[name])
    files = dict(td)
    files[name] = text
    # keep only the files possibly needed: the mutated one + everything (imports resolve by name)
    return _case("mutate/" + what.split("+")[0], files, main=name)


# ------------------------------------------------------------------ imports
def gen_imports(r):
    n = r.choice([1, 2, 3, 4, 6])
    names = ["f%d.emb" % i for i in range(n)]
    files = {}
    mode = r.choice(["random", "cycle", "self", "missing", "dup", "prelude", "bad_child", "deep", "weird_name"])
    for i, nm in enumerate(names):
        imps = []
        if mode == "random":
            imps = [r.choice(names + ["missing.emb"]) for _ in range(r.choice([0, 1, 2, 3]))]
        elif mode == "cycle":
            imps = [names[(i + 1) % n]]
        elif mode == "self":
            imps = [nm]
        elif mode == "missing":
            imps = ["nope.emb"] if i == n - 1 else [names[i + 1]]
        elif mode == "dup":
            imps = [names[(i + 1) % n]] * 2
        elif mode == "prelude":
            imps = [""] + ([names[i + 1]] if i + 1 < n else [])
        elif mode == "bad_child":
            imps = [names[i + 1]] if i + 1 < n else []
        elif mode == "deep":
            imps = [names[i + 1]] if i + 1 < n else []
        elif mode == "weird_name":
            imps = [r.choice(["a b.emb", "../x.emb", "/abs.emb", "f0.emb/", ".", "..", "é.emb", "x\\\\y.emb"])]
        lines = []
        for j, im in enumerate(imps):
            alias = "i%d" % j if mode != "dup" or r.random() < 0.5 else "i0"
            lines.append('import "%s" as %s' % (im, alias))
        lines.append('[$default byte_order: "LittleEndian"]')
        lines.append("struct S%d:" % i)
        lines.append("  0 [+1]  UInt  a")
        if imps and r.random() < 0.7:
            j = r.randrange(len(imps))
            target = imps[j]
            m = re.match(r"f(\d+)\.emb$", target)
            tname = "S%s" % m.group(1) if m else "Sx"
            lines.append("  1 [+1]  i%d.%s  b" % (j, tname))
            if r.random() < 0.3:
                lines.append("  let c = b.a + i%d.%s.%s" % (j, tname, r.choice(["a", "$size_in_bytes", "nope"])))
        text = "\n".join(lines) + "\n"
        if mode == "bad_child" and i == n - 1:
            text = r.choice(["struct Foo:\n", "struct:\n", "\x00", "struct Foo:\n  0 [+1] UInt x\n    bad\n",
                             "struct Foo:\n  0 [+q] UInt x\n", "enum Ee:\n  AA = true\n"])
        files[nm] = text
    if mode == "weird_name" and r.random() < 0.5:
        files[r.choice(["a b.emb", "é.emb", "."])] = "struct Sx:\n  0 [+1]  UInt  a\n"
    main = names[0] if r.random() < 0.9 else r.choice(["absent.emb", "", "f0.emb"])
    return _case("imports/" + mode, files, main=main)


# ------------------------------------------------------------------ fixed boundary cases
def boundary_cases():
    """Enumerated, not sampled: the hand-found crash inputs and their neighbours."""
    head = '[$default byte_order: "LittleEndian"]\n'
    texts = [
        "", "\n", " ", "#", "--", "-- doc\n", "struct", "struct Foo", "struct Foo:", "struct Foo:\n",
        "struct Foo:\n  ", "struct Foo:\n  0", "struct Foo:\n  0 [+1] UInt x", "struct Foo:\n  0 [+1] UInt x\n  if true:\n",
        "struct Foo:\n  0 [+1] UInt x\n  if true:", "enum Foo:\n", "enum Foo:\n  AA = 1", "bits Foo:\n  0 [+1] UInt x\n",
        "external Foo:\n", "external Foo:\n  [is_integer: true]\n", "import \"\" as p\n", "import \"m.emb\" as m\n",
        "\t", "\r", "\x0c", "\x1c", "\u2028", "\x00", "struct Foo:\r  0 [+1] UInt x\r", "struct Foo:\x0b  0 [+1] UInt x\x0b  bad bad\x0b",
        "struct Foo:\n  0 [+1] UInt x\n \tbad\n", "struct Foo:\n\t0 [+1] UInt x\n  1 [+1] UInt y\n",
        'struct Foo:\n  [requires: "yes"]\n  0 [+1] UInt x\n', 'enum Foo:\n  [is_signed: "yes"]\n  AA = 1\n',
        "struct Foo:\n  0 [+0] UInt x\n  let y = x + 1\n",
        head + "struct Foo:\n  0 [+0] UInt x\n  let y = x + 1\n",
        head + "struct Foo:\n  0 [+1] UInt n\n  1 [+n] UInt x\n  let y = x + 1\n",
        head + "struct Foo:\n  0 [+1] UInt n\n  1 [+n] UInt x\n  let y = x * 2\n",
        head + "struct Foo:\n  0 [+1] UInt n\n  1 [+n] UInt x\n  let y = $upper_bound(x)\n",
        head + "struct Foo:\n  0 [+1] UInt n\n  1 [+n] UInt x\n  let y = $upper_bound(x) * 2\n",
        head + "struct Foo:\n  0 [+1] UInt n\n  1 [+n] Int x\n  let y = $lower_bound(x) * 2\n",
        head + "struct Foo:\n  0 [+1] UInt n\n  1 [+n] UInt x\n  0 [+1] UInt z\n  let y = $upper_bound(x) + z\n",
        head + "struct Foo:\n  0 [+1] UInt n\n  1 [+n] UInt x\n  let y = $upper_bound(x) - $upper_bound(x)\n",
        head + "struct Foo:\n  0 [+1] UInt n\n  1 [+n] UInt x\n  0 [+1] UInt z\n  let y = z > 3 ? $upper_bound(x) : z\n",
        head + "struct Foo:\n  0 [+1] UInt z\n  let y = $upper_bound(3) == 3\n",
        head + "struct Foo:\n  0 [+1] UInt z\n  let y = $lower_bound(z) + $upper_bound(z)\n",
        head + "struct Foo(p: UInt:8):\n  let y = $present(p)\n",
        head + "struct Foo:\n  0 [+2000] UInt x\n  let y = x\n",
        head + "struct Foo:\n  0 [+1] UInt n\n  1 [+n] UInt x\n  2 [+x] UInt y\n",
        "[enum_case: foo]\n", "struct Foo:\n  [requires: $next == 1]\n  0 [+1] UInt x\n",
        "enum Ee:\n  AA = 1 >= 1\nstruct Foo:\n  0 [+1] UInt x\n  let y = Ee.AA == Ee.AA\n", "enum Ee:\n  AA = true\n",
        "[(cpp) expected_back_ends: 1]\n", '[(cpp) expected_back_ends: "cpp"]\n', "enum Foo:\n  [is_signed: 1]\n  AA = 1\n",
        "struct Foo:\n  let y = (1 < true) ? 1 : 2\n", "struct Foo(p: UInt[]):\n  0 [+p] UInt a\n",
        "enum Ee:\n  [is_signed: 1 == 1]\n  CC = 3\n", "enum Ee:\n  AA = 1\nstruct Foo:\n  0 [+y] UInt x\n  let y = -Ee.AA\n",
        head + "struct Foo(q: UInt:64):\n  q [+2] UInt f\n", 'import "nope.emb" as n\n',
        "enum Foo:\n  AA = $upper_bound(2)\n",
        "struct Foo:\n  0 [+1] UInt x\n  1 [+1] UInt y\n    [requires: $next == 1]\n",
        "struct Foo(p: UInt:8):\n  0 [+1] UInt x\nstruct Bar:\n  0 [+1] UInt a\n  1 [+1] Foo($next) y\n",
        "struct Foo:\n  0 [+1]  UInt  x\n" + "".join("  let f%d = f%d + 1\n" % (i, i + 1) for i in range(296)) + "  let f296 = x\n",
        head + "struct Foo:\n  0 [+1] UInt n\n  1 [+n] UInt x\n  let y = $upper_bound(x) + 2\n",
        head + "struct Foo:\n  0 [+1] UInt n\n  1 [+n] UInt x\n  let y = $max(x, 1)\n",
        head + "struct Foo:\n  0 [+1] UInt n\n  1 [+n] UInt x\n  let y = x == 1\n",
        head + "struct Foo:\n  0 [+1] UInt n\n  1 [+n] UInt x\n  let y = x < 1\n",
        head + "struct Foo:\n  0 [+1] UInt n\n  1 [+n] UInt x\n  let y = x > 0 ? x : 0\n",
        head + "struct Foo:\n  0 [+1] UInt n\n  1 [+n] UInt x\n  if x == 1:\n    2 [+1] UInt z\n",
        head + "struct Foo:\n  0 [+1] UInt n\n  1 [+n] UInt x\n    [requires: this < 3]\n",
        head + "struct Foo:\n  0 [+1] UInt n\n  1 [+n] UInt x\n  x [+1] UInt z\n",
        head + "struct Foo:\n  0 [+1] UInt n\n  1 [+n] UInt x\n  2 [+x] UInt:8[] z\n",
        head + "struct Foo:\n  0 [+1] UInt n\n  1 [+n] UInt x\n  2 [+8] UInt:8[x] z\n",
        head + "struct Foo:\n  0 [+9] UInt x\n  let y = x * 2\n",
        head + "struct Foo:\n  0 [+16] UInt x\n  let y = x + 1\n",
        head + "struct Foo:\n  0 [+8] UInt x\n  let y = x * x * x\n",
        head + "struct Foo:\n  0 [+8] Int x\n  let y = x * 18446744073709551616\n",
        head + "struct Foo:\n  0 [+18446744073709551616] UInt:8[] x\n",
        head + "struct Foo:\n  18446744073709551616 [+1] UInt x\n",
        head + "struct Foo:\n  0 [+1] UInt:8[18446744073709551616] x\n",
        head + "struct Foo:\n  0 [+1] UInt x\n  let y = $max()\n",
        head + "struct Foo:\n  0 [+1] UInt x\n  let y = $upper_bound()\n",
        head + "struct Foo:\n  0 [+1] UInt x\n  let y = $upper_bound(x, x)\n",
        head + "struct Foo:\n  0 [+1] UInt x\n  let y = $upper_bound(true)\n",
        head + "struct Foo:\n  0 [+1] UInt x\n  let y = $present()\n",
        head + "struct Foo:\n  0 [+1] UInt x\n  let y = $present(1)\n",
        head + "struct Foo:\n  0 [+1] UInt x\n  let y = $present(x, x)\n",
        head + "struct Foo:\n  0 [+1] UInt x\n  let y = $next\n",
        head + "struct Foo:\n  $next [+1] UInt x\n",
        head + "struct Foo:\n  0 [+$next] UInt x\n",
        head + "struct Foo:\n  0 [+1] UInt x\n  $next [+$next] UInt y\n",
        head + "struct Foo:\n  0 [+1] UInt x\n  let y = $size_in_bytes + $max_size_in_bytes\n",
        head + "struct Foo:\n  0 [+1] UInt x\n  let $size_in_bytes = 3\n",
        head + "struct Foo:\n  0 [+1] UInt x\n  let y = y\n",
        head + "struct Foo:\n  0 [+1] UInt x\n  let y = $static_size_in_bits\n",
        head + "struct Foo:\n  0 [+1] UInt x\n  let y = $is_statically_sized\n",
        head + "struct Foo:\n  -1 [+1] UInt x\n",
        head + "struct Foo:\n  0 [+-1] UInt x\n",
        head + "struct Foo:\n  0 [+1] UInt:0 x\n",
        head + "struct Foo:\n  0 [+1] UInt:-1 x\n",
        head + "struct Foo:\n  0 [+1] Flag x\n",
        head + "struct Foo:\n  0 [+1] Float x\n",
        head + "struct Foo:\n  0 [+4] Float x\n  let y = x + 1\n",
        head + "struct Foo:\n  0 [+1] Foo x\n",
        head + "struct Foo:\n  0 [+1] Foo[] x\n",
        head + "struct Foo:\n  0 [+1] UInt[] x\n",
        head + "struct Foo:\n  0 [+1] UInt:8[][] x\n",
        head + "struct Foo:\n  0 [+1] UInt:8[0] x\n",
        head + "struct Foo:\n  0 [+1] UInt:8[-1] x\n",
        head + "struct Foo:\n  0 [+1] UInt:8[true] x\n",
        head + "struct Foo(a: UInt:8):\n  0 [+a] UInt:8[] x\nstruct Bar:\n  0 [+1] Foo x\n",
        head + "struct Foo(a: UInt:8):\n  0 [+a] UInt:8[] x\nstruct Bar:\n  0 [+1] Foo(1, 2) x\n",
        head + "struct Foo(a: UInt:8):\n  0 [+a] UInt:8[] x\nstruct Bar:\n  0 [+1] Foo(true) x\n",
        head + "struct Foo(a: UInt:8):\n  0 [+a] UInt:8[] x\nstruct Bar:\n  0 [+1] UInt y\n  1 [+1] Foo(y)[2] x\n",
        head + "struct Foo(a: UInt):\n  0 [+a] UInt:8[] x\n",
        head + "struct Foo(a: Foo):\n  0 [+1] UInt x\n",
        head + "struct Foo(a: UInt:8[]):\n  0 [+1] UInt x\n",
        head + "struct Foo(a: UInt:8, a: UInt:8):\n  0 [+1] UInt x\n",
        head + "enum Ee:\n  AA = 1\n  AA = 2\n",
        head + "enum Ee:\n  AA = -1\n  BB = 18446744073709551615\n",
        head + "enum Ee:\n  AA = 18446744073709551616\n",
        head + "enum Ee:\n  AA = -9223372036854775809\n",
        head + "enum Ee:\n  AA = true\n",
        head + "enum Ee:\n  AA = BB\n  BB = AA\n",
        head + "enum Ee:\n  AA = Ee.AA\n",
        head + "enum Ee:\n  [maximum_bits: 0]\n  AA = 0\n",
        head + "enum Ee:\n  [maximum_bits: 65]\n  AA = 0\n",
        head + "enum Ee:\n  [maximum_bits: true]\n  AA = 0\n",
        head + "enum Ee:\n  [maximum_bits: 8]\n  [maximum_bits: 8]\n  AA = 0\n",
        head + "enum Ee:\n  AA = 1\nstruct Foo:\n  0 [+1] Ee x\n  let y = x + 1\n",
        head + "enum Ee:\n  AA = 1\nstruct Foo:\n  0 [+1] Ee x\n  let y = x < Ee.AA\n",
        head + "enum Ee:\n  AA = 1\nstruct Foo:\n  0 [+1] Ee x\n  let y = $upper_bound(x)\n",
        head + "enum Ee:\n  AA = 1\nstruct Foo:\n  0 [+9] Ee x\n",
        head + "enum Ee:\n  AA = 1\nstruct Foo:\n  0 [+1] Ee:8[] x\n",
        head + "external Xx:\n  [static_requirements: 1]\n",
        head + "external Xx:\n  [addressable_unit_size: 0]\nstruct Foo:\n  0 [+1] Xx x\n",
        head + "external Xx:\n  [addressable_unit_size: 8]\n  [is_integer: true]\nstruct Foo:\n  0 [+1] Xx x\n  let y = x + 1\n",
        head + "external Xx:\n  [is_integer: true]\nstruct Foo:\n  0 [+1] Xx x\n  let y = x + 1\n",
        head + "external Xx:\n  [fixed_size_in_bits: -1]\nstruct Foo:\n  0 [+1] Xx x\n",
        head + "external Xx:\n  [fixed_size_in_bits: 18446744073709551616]\nstruct Foo:\n  0 [+1] Xx x\n",
        '[$default byte_order: 1]\nstruct Foo:\n  0 [+2] UInt x\n',
        '[$default byte_order: "x"]\nstruct Foo:\n  0 [+2] UInt x\n',
        '[byte_order: "LittleEndian"]\nstruct Foo:\n  0 [+2] UInt x\n',
        '[$default requires: true]\nstruct Foo:\n  0 [+2] UInt x\n',
        '[(cpp) namespace: 1]\nstruct Foo:\n  0 [+1] UInt x\n',
        '[(cpp) namespace: ""]\nstruct Foo:\n  0 [+1] UInt x\n',
        '[(cpp) namespace: "class"]\nstruct Foo:\n  0 [+1] UInt x\n',
        '[(cpp) bogus: 1]\nstruct Foo:\n  0 [+1] UInt x\n',
        '[(java) bogus: 1]\nstruct Foo:\n  0 [+1] UInt x\n',
        '[(cpp) $default enum_case: "kCamel"]\nenum Ee:\n  AA = 1\n',
        '[(cpp) $default enum_case: ""]\nenum Ee:\n  AA = 1\n',
        '[(cpp) $default enum_case: "kCamel,"]\nenum Ee:\n  AA = 1\n',
        '[(cpp) $default enum_case: 1]\nenum Ee:\n  AA = 1\n',
        '[expected_back_ends: 1]\nstruct Foo:\n  0 [+1] UInt x\n',
        '[expected_back_ends: ""]\nstruct Foo:\n  0 [+1] UInt x\n  [(cpp) namespace: "a"]\n',
        head + "struct Foo:\n  0 [+1] UInt x\n    [text_output: 1]\n",
        head + "struct Foo:\n  0 [+1] UInt x\n    [requires: 1]\n",
        head + "struct Foo:\n  0 [+1] UInt x\n    [requires: x]\n",
        head + "struct Foo:\n  0 [+1] UInt x\n    [requires: this]\n",
        head + "struct Foo:\n  0 [+1] Flag x\n    [requires: this]\n",
        head + "struct Foo:\n  [requires: this == 1]\n  0 [+1] UInt x\n",
        head + "struct Foo:\n  0 [+1] UInt x\n  let this = 1\n",
        head + "struct Foo:\n  0 [+1] UInt x\n  0 [+1] UInt x\n",
        head + "struct Foo:\n  0 [+1] UInt x (y)\n  1 [+1] UInt y\n",
        head + "struct Foo:\n  0 [+1] bits:\n    0 [+1] Flag flag\n  1 [+flag] UInt:8 field\n",
        head + "struct Foo:\n  0 [+1] bits:\n    0 [+9] UInt x\n",
        head + "struct Foo:\n  0 [+1] bits:\n    0 [+1] Foo x\n",
        head + "bits Bb:\n  0 [+8] UInt x\nstruct Foo:\n  0 [+2] Bb x\n",
        head + "bits Bb:\n  0 [+8] UInt x\n  8 [+x] UInt y\n",
        head + "struct Foo:\n  0 [+1] UInt x\n  if x:\n    1 [+1] UInt y\n",
        head + "struct Foo:\n  0 [+1] UInt x\n  if 1:\n    1 [+1] UInt y\n",
        head + "struct Foo:\n  0 [+1] UInt x\n  if y == 1:\n    1 [+1] UInt y\n",
        head + "struct Foo:\n  0 [+1] UInt x\n  let y = x.z\n",
        head + "struct Foo:\n  0 [+1] UInt x\n  let y = Foo.x\n",
        head + "struct Foo:\n  0 [+1] UInt x\n  let y = Foo\n",
        head + "struct Foo:\n  0 [+1] UInt x\n  let y = x ? 1 : 2\n",
        head + "struct Foo:\n  0 [+1] UInt x\n  let y = true ? 1 : true\n",
        head + "struct Foo:\n  0 [+1] UInt x\n  let y = 1 < 2 < true\n",
        head + "struct Foo:\n  0 [+1] UInt x\n  let y = 1 / 0\n",
        head + "struct Foo:\n  0 [+1] UInt x\n  let y = 0 * $upper_bound(x) * 99999999999999999999999999\n",
        head + "struct Foo:\n  0 [+1] UInt x\n  let emboss_reserved_y = 1\n",
        head + "struct Foo:\n  0 [+1] UInt x\n  let class = 1\n",
        head + "struct Foo:\n  0 [+1] UInt x\n  let x_1 = 1\n  let x1 = 2\n",
        head + "struct EmbossReservedFoo:\n  0 [+1] UInt x\n",
        head + "struct Foo:\n  0 [+1] struct x:\n    0 [+1] UInt x\n",
        head + "struct Foo:\n  struct Bar:\n    0 [+1] UInt x\n  0 [+1] Bar y\n  1 [+1] Foo.Bar z\n",
        "struct Foo:\n  -- doc\n  [requires: true]\n  # c\n  0 [+1] UInt x -- d\n    -- more\n    [requires: this == 1]\n",
    ]
    return [_case("boundary", {"m.emb": t}) for t in texts] + \
        [_case("boundary/desugar-" + k, {"m.emb": t}) for k, t in desugar_boundary_texts()]


def gen_chain(r):
    """Long reference chains (not expression nesting): `let f0 = f1 + 1 ... let fN = x`,
    forward or backward, through virtual fields, conditions or locations; <= 300 lines."""
    mode = r.choice(["let_fwd", "let_back", "loc", "cond"])
    # bounds inference is quadratic in the chain length (120 links ≈ 7 s CPU, 296 ≈ 45 s): keep
    # chains that survive type_check short; forward chains >= ~270 fail fast in type_check
    n = r.choice([20, 60, 100, 120, 280, 296]) if mode == "let_fwd" else r.choice([20, 60, 100, 120])
    L = ["struct Foo:", "  0 [+1]  UInt  x"]
    if mode == "let_fwd":
        L += ["  let f%d = f%d + 1" % (i, i + 1) for i in range(n)] + ["  let f%d = x" % n]
    elif mode == "let_back":
        L += ["  let f0 = x"] + ["  let f%d = f%d + 1" % (i + 1, i) for i in range(n)]
    elif mode == "loc":
        n = min(n, 290)
        L += ["  let f0 = x"] + ["  let f%d = f%d" % (i + 1, i) for i in range(n)] + ["  f%d [+1]  UInt  y" % n]
    else:
        n = min(n, 290)
        L += ["  let f0 = x == 1"]
        for i in range(n):
            L += ["  let f%d = f%d && true" % (i + 1, i)]
        L += ["  if f%d:" % n, "    1 [+1]  UInt  y"]
    return _case("chain/" + mode, {"m.emb": "\n".join(L) + "\n"})


# ------------------------------------------------------------------ desugared constructs
# Everything `synthetics.desugar` rewrites: `$next`, the `$size_in_*`/`$max_size_in_*`/`$min_size_in_*`
# virtual fields, aliases of anonymous `bits`, inline types, abbreviations.  Each stream puts a
# *semantic error at the construct itself* (wrong type, range too wide for 64 bits, misplaced,
# colliding name, bad attribute) so that the message's only blame site is the desugared node.
HEAD = '[$default byte_order: "LittleEndian"]\n'

# predecessors of a `$next`: (lines, what `start + size` of the last physical field looks like)
NEXT_PREDECESSORS = [
    ("small", ["0 [+4]  UInt  a"]),
    ("len64", ["0 [+8]  UInt  length", "8 [+length]  UInt:8[]  payload"]),              # 64-bit length prefix
    ("len32", ["0 [+4]  UInt  length", "4 [+length]  UInt:8[]  payload"]),
    ("far", ["0 [+1]  UInt  a", "18446744073709551615 [+1]  UInt  z"]),                 # end = 2**64
    ("mul", ["0 [+8]  UInt  a", "a * 2 [+8]  UInt  z"]),
    ("neg", ["0 [+8]  Int  a", "8 [+1]  UInt  b", "a [+1]  UInt  z"]),                  # possibly negative start
    ("cond", ["0 [+1]  UInt  a", "if a == 1:", "  1 [+2]  UInt  z"]),
    ("anon", ["0 [+1]  bits:", "  0 [+4]  UInt  lo", "  4 [+4]  UInt  hi"]),
    ("virtual", ["0 [+2]  UInt  a", "let v = a + 1"]),                                  # virtual fields are skipped
    ("arr", ["0 [+1]  UInt  n", "1 [+n * 4]  UInt:32[]  xs"]),
    ("none", []),                                                                       # `$next` in the first field
]
# how the user writes the start of the field after it
NEXT_FORMS = ["$next", "$next + 1", "$next * 2", "$next - 100", "-$next", "($next)", "$next ? 4 : 8",
              "$present($next) ? 4 : 8", "$next && true", "$next == true", "$next == $next ? 4 : 8",
              "$max($next, true)", "$max($next, 4)", "$upper_bound($next)", "$lower_bound($next)",
              "true ? $next : 0", "$next.a", "$next + $next", "$next + a", "$next + Ee.AA", "$next < 4"]
NEXT_ELSEWHERE = ["$next [+$next]  UInt  b", "4 [+$next]  UInt  b", "4 [+1]  UInt:8[$next]  b",
                  "let b = $next", "4 [+1]  UInt  b\n    [requires: this == $next]",
                  "if $next == 4:\n    4 [+1]  UInt  b", "4 [+1]  Pp($next)  b", "$next [+1]  Pp($next)  b"]


# Layout convention of the pieces: the first line of a piece is relative to the body of the structure
# (it gets the body indentation), continuation lines carry their absolute indentation.
def _struct(name, pieces, params=""):
    return "struct %s%s:\n%s\n" % (name, params, "\n".join("  " + ln for ln in pieces))


def place(piece, first_extra, cont_extra=""):
    lines = piece.split("\n")
    return "\n".join([first_extra + lines[0]] + [cont_extra + ln for ln in lines[1:]])


def next_case(pred, form, tail="[+1]  UInt  b", more=()):
    body = list(pred) + ["%s %s" % (form, tail)] + list(more)
    return (HEAD + "enum Ee:\n  AA = 1\nstruct Pp(p: UInt:8):\n  0 [+p]  UInt:8[]  a\n" + _struct("Foo", body))


SIZE_WORDS = ["$size_in_bytes", "$max_size_in_bytes", "$min_size_in_bytes", "$size_in_bits", "$max_size_in_bits",
              "$min_size_in_bits"]
SIZE_USES = ["let y = %s == true", "let y = %s && true", "let y = %s ? 1 : 2", "let y = $present(%s)",
             "let y = %s + Ee.AA", "let y = %s.a", "let y = %s * 18446744073709551616", "let y = -%s - 9223372036854775808",
             "0 [+%s]  UInt:8[]  y", "%s [+1]  UInt  y", "if %s == 1:\n    0 [+1]  UInt  y", "if %s:\n    0 [+1]  UInt  y",
             "0 [+1]  UInt:8[%s]  y", "0 [+1]  UInt  y\n    [requires: this == %s]", "0 [+1]  UInt  y\n    [requires: %s]",
             "let %s = 1", "0 [+1]  UInt  %s", "0 [+1]  UInt  y (%s)", "0 [+1]  Pp(%s)  y", "let y = $upper_bound(%s)",
             "let y = %s\n    [requires: this]", "let y = x.%s", "let y = Inner.%s", "let y = %s(1)", "let y = dyn.%s * 2",
             "dyn.%s [+1]  UInt  y", "let y = $max(%s, x, true)"]
SIZE_BODIES = [
    ("fixed", ["0 [+1]  UInt  x"]),
    ("dyn", ["0 [+1]  UInt  x", "1 [+x]  UInt:8[]  xs"]),
    ("wide", ["0 [+8]  UInt  x", "8 [+x]  UInt:8[]  xs"]),
    ("param", ["q [+2]  UInt  x"]),
    ("sub", ["0 [+1]  UInt  x", "1 [+3]  Dyn  dyn"]),
    ("subwide", ["0 [+8]  UInt  x", "8 [+x]  Dyn  dyn"]),
    ("empty", []),
]


def size_case(body_kind, body, use, word, in_bits=False):
    decl = "bits" if in_bits else "struct"
    params = "(q: UInt:64)" if body_kind == "param" and not in_bits else ""
    if in_bits:
        body = ["0 [+8]  UInt  x"]
    lines = list(body) + [use.replace("%s", word)]
    return (HEAD + "enum Ee:\n  AA = 1\nstruct Inner:\n  0 [+1]  UInt  a\nstruct Dyn:\n  0 [+1]  UInt  n\n  1 [+n]  UInt:8[]  b\n"
            "struct Pp(p: UInt:8):\n  0 [+p]  UInt:8[]  a\n" + "%s Foo%s:\n%s\n" % (decl, params, "\n".join("  " + ln for ln in lines)))


ANON_SUBFIELDS = [
    "0 [+1]  Flag  a", "0 [+1]  Flag  a\n      [text_output: 1]", "0 [+1]  Flag  a\n      [text_output: \"x\"]",
    "0 [+1]  Flag  a\n      [text_output: \"Skip\"]\n      [text_output: \"Emit\"]", "0 [+4]  UInt  a\n      [requires: this == true]",
    "0 [+4]  UInt  a\n      [requires: this]", "0 [+4]  UInt  a\n      [requires: outer == 1]", "0 [+4]  UInt  a\n      [byte_order: \"BigEndian\"]",
    "0 [+4]  UInt  a\n      [bogus: 1]", "0 [+4]  UInt  a\n      [(cpp) bogus: 1]", "0 [+9]  UInt  a", "0 [+0]  UInt  a", "8 [+1]  Flag  a",
    "0 [+1]  Flag  a\n    0 [+1]  Flag  a", "0 [+1]  Flag  outer", "0 [+1]  Flag  a (outer)", "0 [+1]  Flag  a (a)", "0 [+1]  Flag  a (b)\n    1 [+1]  Flag  b",
    "0 [+1]  Flag  class", "0 [+1]  Flag  emboss_reserved_x", "0 [+1]  Flag  a (class)", "0 [+1]  Flag  int", "0 [+1]  Flag  ok", "0 [+1]  Flag  read",
    "0 [+1]  Flag  a_1\n    1 [+1]  Flag  a1", "0 [+outer]  UInt  a", "outer [+1]  Flag  a", "0 [+1]  Flag  a\n    $next [+1]  Flag  b",
    "$next [+1]  Flag  a", "0 [+1]  Ee  a", "0 [+4]  Inner  a", "0 [+4]  Float  a", "0 [+4]  UInt:8[]  a", "0 [+1]  Flag[1]  a",
    "if outer == 1:\n      0 [+1]  Flag  a", "if a:\n      0 [+1]  Flag  a", "let a = 1", "let a = outer", "let a = $size_in_bits == true",
    "0 [+4]  bits:\n      0 [+1]  Flag  a", "0 [+4]  enum a:\n      XX = 1", "0 [+4]  bits a:\n      0 [+1]  Flag  a",
    "-- doc\n    0 [+1]  Flag  a", "[text_output: \"Emit\"]\n    0 [+1]  Flag  a", "[text_output: \"Skip\"]\n    0 [+1]  Flag  a",
    "[text_output: 1]\n    0 [+1]  Flag  a", "[byte_order: \"BigEndian\"]\n    0 [+1]  Flag  a", "[requires: a]\n    0 [+1]  Flag  a",
    "[requires: a == 1]\n    0 [+1]  Flag  a", "[bogus: 1]\n    0 [+1]  Flag  a", "[(cpp) namespace: \"x\"]\n    0 [+1]  Flag  a",
    "[maximum_bits: 8]\n    0 [+1]  Flag  a", "[fixed_size_in_bits: 9]\n    0 [+1]  Flag  a", "[$default byte_order: \"Null\"]\n    0 [+1]  Flag  a",
]
ANON_USES = ["", "let y = a", "let y = a + 1", "let y = a && true", "let y = $present(a)", "if a:\n    2 [+1]  UInt  y", "a [+1]  UInt  y",
             "2 [+1]  UInt  a", "let a = 1", "2 [+1]  UInt  y (a)", "2 [+1]  UInt  y\n    [requires: this == a]", "2 [+a]  UInt:8[]  y",
             "$next [+1]  UInt  y", "$next [+a]  UInt:8[]  y"]
ANON_HEADS = ["1 [+1]  bits:", "1 [+2]  bits:", "1 [+0]  bits:", "1 [+9]  bits:", "1 [+outer]  bits:", "outer [+1]  bits:", "$next [+1]  bits:",
              "if outer == 1:\n    1 [+1]  bits:", "1 [+1]  bits:\n    [text_output: \"Emit\"]", "1 [+1]  bits:  [text_output: \"Emit\"]"]

INLINE_FIELDS = [
    "1 [+1]  enum foo:\n    AA = 1", "1 [+1]  enum foo:\n    AA = 256", "1 [+1]  enum foo:\n    AA = true", "1 [+1]  enum foo:\n    AA = outer",
    "1 [+1]  enum foo:\n    AA = 1\n    AA = 2", "1 [+9]  enum foo:\n    AA = 1", "1 [+0]  enum foo:\n    AA = 1", "1 [+1]  enum foo:\n    [maximum_bits: 4]\n    AA = 1",
    "1 [+1]  enum foo:\n    [is_signed: true]\n    AA = -200", "1 [+1]  enum main:\n    AA = 1", "1 [+1]  enum ee:\n    AA = 1", "1 [+1]  enum outer:\n    AA = 1",
    "1 [+1]  enum class:\n    AA = 1", "1 [+1]  enum emboss_reserved_x:\n    AA = 1", "1 [+1]  enum u_int:\n    AA = 1", "1 [+1]  enum foo_bar_1:\n    AA = 1\n  2 [+1]  enum foo_bar1:\n    BB = 1",
    "1 [+1]  enum foo:\n    AA = 1\n  2 [+1]  enum foo:\n    BB = 1", "1 [+1]  enum foo:\n    AA = 1\n  2 [+1]  Foo  again", "1 [+1]  enum foo:\n    AA = 1\n  let y = Foo.AA",
    "1 [+1]  enum foo:\n    AA = 1\n  let y = foo == Foo.AA", "1 [+1]  enum foo:\n    AA = 1\n  let y = foo + 1", "1 [+1]  enum foo:\n    AA = 1\n  let y = Main.Foo.BB",
    "1 [+1]  enum foo (f):\n    AA = 1\n  let f = 1", "1 [+1]  enum foo:\n    AA = 1\n    [requires: this == 1]", "1 [+1]  enum foo:\n    -- doc\n    AA = 1",
    "1 [+2]  struct foo:\n    0 [+1]  UInt  x", "1 [+1]  struct foo:\n    0 [+2]  UInt  x", "1 [+outer]  struct foo:\n    0 [+outer]  UInt:8[]  x",
    "1 [+2]  struct foo:\n    0 [+1]  UInt  x\n    $next [+1]  UInt  y", "1 [+2]  struct foo:\n    $next [+1]  UInt  x", "1 [+2]  struct foo:\n    0 [+$size_in_bytes]  UInt:8[]  x",
    "1 [+2]  struct foo:\n    0 [+1]  UInt  x\n    let y = $size_in_bytes == true", "1 [+2]  struct foo:\n    0 [+1]  UInt  x\n  let y = foo.$size_in_bytes == true",
    "1 [+2]  struct foo:\n    0 [+1]  UInt  foo", "1 [+2]  struct foo:\n    0 [+1]  Foo  x", "1 [+2]  struct foo:\n    0 [+1]  struct foo:\n      0 [+1]  UInt  x",
    "1 [+2]  struct foo:\n    0 [+1]  bits:\n      0 [+1]  Flag  a\n  let y = foo.a", "1 [+2]  struct foo:\n    [requires: x == true]\n    0 [+1]  UInt  x",
    "1 [+2]  struct foo(p: UInt:8):\n    0 [+1]  UInt  x", "1 [+2]  struct foo:\n    0 [+1]  UInt  x\n  2 [+2]  struct foo:\n    0 [+1]  UInt  x",
    "1 [+1]  bits foo:\n    0 [+4]  UInt  x", "1 [+1]  bits foo:\n    0 [+9]  UInt  x", "1 [+1]  bits foo:\n    0 [+4]  UInt  x\n    $next [+5]  UInt  y",
    "1 [+1]  bits foo:\n    0 [+1]  Flag  x\n  if foo.x:\n    2 [+1]  UInt  y", "1 [+1]  bits foo:\n    0 [+1]  Flag  x\n  foo.x [+1]  UInt  y",
    "1 [+1]  external foo:\n    [is_integer: true]", "1 [+2]  struct foo:\n    0 [+1]  UInt  x\n  $next [+foo.$size_in_bytes]  UInt:8[]  y",
    "1 [+1]  enum foo:\n    AA = 1\n  $next [+1]  Foo  y\n  $next [+1]  Main.Foo  z",
]
ABBREVIATIONS = [
    "1 [+1]  UInt  x (x)", "1 [+1]  UInt  x (outer)", "1 [+1]  UInt  x (y)\n  let y = 1", "1 [+1]  UInt  x (y)\n  2 [+1]  UInt  z (y)", "1 [+1]  UInt  x (class)",
    "1 [+1]  UInt  x (emboss_reserved_y)", "1 [+1]  UInt  x (y)\n  let z = y + x", "1 [+1]  UInt  x (y)\n  y [+1]  UInt  z", "1 [+1]  UInt  x (y)\n  let z = y && true",
    "1 [+1]  UInt  x (y)\n  let z = $present(y)", "1 [+1]  UInt  x (y)\n    [requires: y == 1]", "1 [+1]  UInt  x (y)\n    [requires: this == y]", "1 [+1]  UInt  x (Y)",
    "1 [+1]  UInt  x ($next)", "1 [+1]  UInt  x (y) (z)", "1 [+1]  UInt  x ()", "let x (y) = 1", "1 [+1]  bits x (y):\n    0 [+1]  Flag  y", "1 [+1]  enum x (y):\n    Y = 1",
    "1 [+1]  UInt  x (y)\n  let w = Main.y", "1 [+1]  UInt  x (y)\n  $next [+y]  UInt:8[]  z", "1 [+1]  UInt  x (y_1)\n  2 [+1]  UInt  z (y1)", "1 [+1]  Flag  x (y)\n  if y:\n    2 [+1]  UInt  z",
    "1 [+1]  UInt  x (size)\n  let z = size", "1 [+1]  UInt  x (ok)", "1 [+1]  UInt  x (y)\n  1 [+1]  bits:\n    0 [+1]  Flag  y",
]


def _main(lines):
    return (HEAD + "enum Ee:\n  AA = 1\nstruct Inner:\n  0 [+1]  UInt  a\nstruct Dyn:\n  0 [+1]  UInt  n\n  1 [+n]  UInt:8[]  b\n"
            "struct Main:\n  0 [+1]  UInt  outer\n" + "".join("  " + ln + "\n" for ln in lines if ln))


def desugar_boundary_texts():
    """Enumerated (not sampled): every `$next` form after every kind of predecessor, every size
    keyword in every misuse, one module per anonymous-bits / inline-type / abbreviation fault."""
    out = []
    for pk, pred in NEXT_PREDECESSORS:
        for form in NEXT_FORMS:
            out.append(("next/%s" % pk, next_case(pred, form)))
    for ln in NEXT_ELSEWHERE:
        out.append(("next/elsewhere", next_case(NEXT_PREDECESSORS[0][1], "$next", more=[ln])))
        out.append(("next/elsewhere-first", next_case([], "0", more=[ln])))
    for i, use in enumerate(SIZE_USES):
        for j, (bk, body) in enumerate(SIZE_BODIES):
            # every use with every body for the byte words would be 27*7*6 modules: rotate the words
            word = SIZE_WORDS[(i + j) % 3]
            out.append(("size/%s" % bk, size_case(bk, body, use, word)))
        out.append(("size/bits", size_case("fixed", [], use, SIZE_WORDS[3 + i % 3], in_bits=True)))
        out.append(("size/wrong-unit", size_case("fixed", ["0 [+1]  UInt  x"], use, SIZE_WORDS[3 + i % 3])))
    for sub in ANON_SUBFIELDS:
        out.append(("anon/subfield", _main(["1 [+1]  bits:", "  " + sub])))
    for use in ANON_USES:
        out.append(("anon/use", _main(["1 [+1]  bits:", "  0 [+1]  Flag  a", "  1 [+3]  UInt  b", use])))
    for hd in ANON_HEADS:
        out.append(("anon/head", _main([hd, "  " + ("  " if hd.startswith("if") else "") + "0 [+1]  Flag  a"])))
    for f in INLINE_FIELDS:
        out.append(("inline", _main([f])))
    for a in ABBREVIATIONS:
        out.append(("abbrev", _main([a])))
    return out


def gen_desugar(r):
    """Random combinations of the pieces above (two or three desugared constructs in one
    structure, so that an error at one of them meets the synthesized fields of the others)."""
    k = r.random()
    if k < 0.3:
        pk, pred = r.choice(NEXT_PREDECESSORS)
        pk2, pred2 = r.choice(NEXT_PREDECESSORS)
        form = r.choice(NEXT_FORMS)
        tail = r.choice(["[+1]  UInt  b", "[+8]  UInt  b", "[+2]  Inner2  b", "[+1]  bits:\n    0 [+1]  Flag  fl", "[+b0]  UInt:8[]  b",
                         "[+1]  UInt  b (bb)", "[+1]  enum b:\n    XX = 1"])
        more = []
        if r.random() < 0.5:
            more = ["%s [+1]  UInt  c" % r.choice(NEXT_FORMS)]
        if r.random() < 0.3:
            more += [r.choice(NEXT_ELSEWHERE).replace("  b", "  d").replace("let b", "let d")]
        if r.random() < 0.3:
            more += [r.choice(SIZE_USES).replace("%s", r.choice(SIZE_WORDS[:3])).replace(" y", " yy")]
        pre = list(pred)
        if r.random() < 0.2:
            pre = [ln.replace("a", "a2").replace("length", "l2").replace("payloa2d", "p2").replace("z", "z2") for ln in pred2] + pre
        text = next_case(pre, form, tail, more).replace("Inner2", "Pp(1)")
        return _case("desugar/next-" + pk, {"m.emb": text})
    if k < 0.5:
        bk, body = r.choice(SIZE_BODIES)
        uses = [r.choice(SIZE_USES).replace("%s", r.choice(SIZE_WORDS)).replace(" y", " y%d" % i) for i in range(r.choice([1, 1, 2, 3]))]
        text = size_case(bk, body, "\n  ".join(uses), "", in_bits=r.random() < 0.15)
        return _case("desugar/size-" + bk, {"m.emb": text})
    if k < 0.75:
        lines = [r.choice(ANON_HEADS)]
        deeper = "  " if lines[0].startswith("if") else ""
        for i in range(r.choice([1, 1, 2, 3])):
            sub = r.choice(ANON_SUBFIELDS)
            if i:
                sub = re.sub(r"\ba\b", "a%d" % i, sub).replace("0 [+", "%d [+" % (i * 2), 1)
            lines.append(place(sub, "  " + deeper, deeper))
        for _ in range(r.choice([0, 1, 2])):
            lines.append(r.choice(ANON_USES))
        if r.random() < 0.3:
            lines.append(r.choice(ABBREVIATIONS))
        return _case("desugar/anon", {"m.emb": _main(lines)})
    lines = []
    for i in range(r.choice([1, 2, 2, 3])):
        piece = r.choice(INLINE_FIELDS if r.random() < 0.6 else ABBREVIATIONS)
        if i and r.random() < 0.7:
            piece = piece.replace("foo", "foo%d" % i).replace("Foo", "Foo%d" % i).replace("  x", "  x%d" % i)
        lines.append(piece)
    if r.random() < 0.3:
        lines += ["%s [+1]  UInt  last" % r.choice(NEXT_FORMS)]
    if r.random() < 0.3:
        lines += [r.choice(SIZE_USES).replace("%s", r.choice(SIZE_WORDS[:3])).replace(" y", " yy")]
    return _case("desugar/inline-abbrev", {"m.emb": _main(lines)})


# ------------------------------------------------------------------ cross-module message groups (round 4)
# Source sets of 2-4 modules that import each other, with objects (enum values, constant `let`
# fields) referring to each other ACROSS the module boundary: dependency cycles of length 2-5 whose
# members are spread unevenly over files of different length, plus the other multi-message groups
# (import cycle, duplicate definition in an imported module, missing name in another module).
# Every member has its own name, its own indentation of `=` and every file its own number of leading
# lines, so a message that names the wrong file lands outside that file or on text without the name.
XMOD_NAMESETS = [["m.emb", "n.emb"], ["n.emb", "m.emb"], ["b.emb", "a.emb", "c.emb"],
                 ["p.emb", "q.emb", "a.emb", "z.emb"]]
XMOD_LETTERS = "abcde"


def _xmod_distribution(dist, n_members, n_mods):
    if dist == "alternate":
        return [i % n_mods for i in range(n_members)]
    if dist == "one-in-main":          # main module holds one member, the last module the rest
        return [0] + [n_mods - 1 - (i % max(1, n_mods - 1)) for i in range(n_members - 1)]
    if dist == "one-abroad":           # every member in the main module but one
        return [0] * (n_members - 1) + [n_mods - 1]
    raise ValueError(dist)


def xmod_build(kind, names, where, flavours, pads, gaps, cycle=True, extra=None, all_imports=True):
    """names[0] is the main module; member i (in module where[i], an enum value or a constant
    `let` field according to flavours[i]) refers to member i+1 (the last one to member 0 iff
    `cycle`); pads[k] = leading comment lines of module k; gaps[i] = spaces before `=`."""
    n = len(where)
    alias = ["mod%d" % k for k in range(len(names))]

    def ref(frm, j):
        letter = XMOD_LETTERS[j]
        own = ("En%s.VAL_%s" % (letter.upper(), letter.upper()) if flavours[j] == "enum"
               else "St%s.fld_%s" % (letter.upper(), letter))
        return own if where[j] == frm else "%s.%s" % (alias[where[j]], own)
    files = {}
    for k, nm in enumerate(names):
        needed = sorted({where[(i + 1) % n] for i in range(n) if where[i] == k and (cycle or i + 1 < n)} - {k})
        imports = [j for j in range(len(names)) if j != k] if all_imports else needed
        lines = ["# module %d of %d, line %d" % (k, len(names), x) for x in range(pads[k])]
        lines += ['import "%s" as %s' % (names[j], alias[j]) for j in imports]
        lines.append('[$default byte_order: "LittleEndian"]')
        for i in range(n):
            if where[i] != k:
                continue
            letter = XMOD_LETTERS[i]
            last = (i + 1 == n) and not cycle
            value = "%d" % (i + 1) if last else "%s + 1" % ref(k, (i + 1) % n)
            lines += [""] * (i % 3)
            if flavours[i] == "enum":
                lines += ["enum En%s:" % letter.upper(), "  -- member %d" % i,
                          "  VAL_%s%s= %s" % (letter.upper(), " " * gaps[i], value)]
            else:
                lines += ["struct St%s:" % letter.upper(), "  0 [+1]  UInt  x%d" % i,
                          "  let fld_%s%s= %s" % (letter, " " * gaps[i], value)]
        for at, more in (extra or {}).items():
            if at == k:
                lines += more
        files[nm] = "\n".join(lines) + "\n"
    return _case("xmod/" + kind, files, main=names[0])


def _xmod_flavours(style, n):
    return [{"enum": "enum", "let": "let"}.get(style) or ("enum" if (i + (style == "mixed2")) % 2 else "let")
            for i in range(n)]


def xmod_boundary_cases():
    """Enumerated (every run contains them): all name sets x cycle lengths 2-5 x distributions."""
    out = []
    idx = 0
    for names in XMOD_NAMESETS:
        for n in (2, 3, 4, 5):
            for dist in ("alternate", "one-in-main", "one-abroad"):
                style = ["enum", "let", "mixed", "mixed2"][idx % 4]
                where = _xmod_distribution(dist, n, len(names))
                up = idx % 2 == 0
                pads = [(3 * k if up else 3 * (len(names) - 1 - k)) + (idx % 3) for k in range(len(names))]
                gaps = [1 + (7 * i + idx) % 11 for i in range(n)]
                out.append(xmod_build("cycle-%d/%s/%s" % (n, dist, style), names, where,
                                      _xmod_flavours(style, n), pads, gaps, all_imports=idx % 5 != 4))
                idx += 1
    two = XMOD_NAMESETS[0]
    # two independent cycles in one source set: enum cycle + let cycle (members a,b / c,d)
    for names in XMOD_NAMESETS[:3]:
        last = len(names) - 1
        c = xmod_build("two-cycles", names, [0, last], ["enum", "enum"], [0, 6, 2, 9][:len(names)], [1, 9],
                       extra={0: ["struct Sx:", "  let one  = %s.Sy.two + 1" % ("mod%d" % last)],
                              last: ["", "", "struct Sy:", "  let two      = mod0.Sx.one + 1"]})
        out.append(c)
    # other groups whose messages live in more than one file / in an imported file only
    out.append(xmod_build("import-cycle-only", XMOD_NAMESETS[3], [0, 1], ["enum", "enum"], [0, 2, 4, 7], [1, 1], cycle=False))
    out.append(xmod_build("chain-ok", two, [0, 1, 0], ["enum", "enum", "enum"], [0, 5], [1, 4, 2], cycle=False, all_imports=False))
    out.append(xmod_build("duplicate-abroad", two, [0, 1], ["enum", "enum"], [0, 7], [1, 3], cycle=False, all_imports=False,
                          extra={1: ["", "enum EnB:", "  VAL_Q = 3", "struct Dup:", "  0 [+1]  UInt  q", "  1 [+1]  UInt  q"]}))
    out.append(xmod_build("missing-abroad", two, [0, 1], ["enum", "enum"], [5, 0], [1, 3], cycle=False, all_imports=False,
                          extra={0: ["struct Miss:", "  let nope = mod1.EnB.VAL_NOPE + 1", "  let nope2 = mod1.Nope.VAL_B"],
                                 1: ["struct Miss2:", "  let nope3 = EnZ.VAL_B"]}))
    out.append(xmod_build("self-and-cross", two, [0, 1, 1], ["let", "let", "enum"], [1, 8], [2, 5, 3],
                          extra={1: ["struct Selfish:", "  let me = Selfish.me + 1"]}))
    return out


def gen_xmod(r):
    names = list(r.choice(XMOD_NAMESETS))
    if r.random() < 0.5:
        r.shuffle(names)
    n = r.choice([2, 2, 3, 3, 4, 5])
    mode = r.choice(["cycle", "cycle", "cycle", "cycle", "chain", "two", "noise"])
    where = [r.randrange(len(names)) for _ in range(n)]
    if len(set(where)) == 1:                     # make it cross a module boundary
        where[r.randrange(n)] = (where[0] + 1) % len(names)
    style = r.choice(["enum", "let", "mixed", "mixed2", "random"])
    flav = [r.choice(["enum", "let"]) for _ in range(n)] if style == "random" else _xmod_flavours(style, n)
    pads = [r.choice([0, 0, 1, 2, 5, 9, 17]) for _ in names]
    gaps = [r.randrange(1, 14) for _ in range(n)]
    extra = {}
    if mode == "two":
        a, b = r.sample(range(len(names)), 2)
        extra = {a: ["struct Sx:", "  let one%s= mod%d.Sy.two + 1" % (" " * r.randrange(1, 9), b)],
                 b: [""] * r.randrange(3) + ["struct Sy:", "  let two%s= mod%d.Sx.one + 1" % (" " * r.randrange(1, 9), a)]}
    elif mode == "noise":
        k = r.randrange(len(names))
        extra = {k: r.choice([
            ["struct Dup:", "  0 [+1]  UInt  q", "  1 [+1]  UInt  q"],
            ["enum EnA:", "  VAL_Q = 3"],
            ["struct Miss:", "  let nope = mod%d.EnA.VAL_NOPE + 1" % ((k + 1) % len(names))],
            ["struct Miss:", "  let nope = mod9.EnA.VAL_A + 1"],
            ["struct Selfish:", "  let me = Selfish.me + 1"],
            ["struct Tt:", "  0 [+1]  mod%d.StA  t" % ((k + 1) % len(names)), "  let u = t.fld_a + t.nope"],
            ["enum Bad:", "  VAL_Z = true"],
            ["struct Bad:", "  0 [+1]  UInt  x", "    bad"],
        ])}
    return xmod_build("%s-%d/%s" % (mode, n, style), names, where, flav, pads, gaps,
                      cycle=mode != "chain" and not (mode == "noise" and r.random() < 0.5),
                      extra=extra, all_imports=r.random() < 0.7)


GENERATORS = [("chain", gen_chain, 1), ("bytes", gen_bytes, 5), ("soup", gen_soup, 7), ("grammar", gen_grammar, 19),
              ("sem", gen_sem, 32), ("nest", gen_nest, 3), ("mutate", gen_mutate, 16), ("imports", gen_imports, 6),
              ("desugar", gen_desugar, 12)]


class _Huge:
    """Narrow predicate of the open finding `timeout:constant-field-size>=10^6`: some field
    size expression `[+ … ]` contains a numeric literal >= 10**6 or a bound function
    (`$upper_bound(…)`/`$lower_bound(…)`, constant-evaluated since fix 262d011), or a `Type:N` size
    specifier has N >= 10**6 (textual over-approximation of "the constant size of a field is
    astronomically large"; it only names the key of an input that *did* exhaust its CPU budget and
    steers the random generators away from such sizes)."""
    _num = re.compile(r"0[xX][0-9a-fA-F_]+|0[bB][01_]+|[0-9][0-9_]*")
    _tsize = re.compile(r"[A-Za-z]:([0-9][0-9_]*)")
    # round 2: since fix 262d011 `$upper_bound(x)`/`$lower_bound(x)` are evaluated in constant
    # expressions, so `[+$upper_bound(f)]` with a 32-bit `f` is a constant size of 2**31 bytes
    _bound = re.compile(r"\$(upper_bound|lower_bound)\b")

    def search(self, text):
        for line in text.splitlines():
            i = line.find("[+")
            while i >= 0:
                depth, j = 0, i
                while j < len(line):
                    if line[j] == "[":
                        depth += 1
                    elif line[j] == "]":
                        depth -= 1
                        if depth == 0:
                            break
                    j += 1
                m = self._bound.search(line[i + 2:j])
                if m:
                    return m
                for m in self._num.finditer(line[i + 2:j]):
                    t = m.group(0).replace("_", "")
                    try:
                        v = int(t, 0) if t[:2].lower() in ("0x", "0b") else int(t)
                    except ValueError:
                        continue
                    if v >= 10 ** 6:
                        return m
                i = line.find("[+", j)
            for m in self._tsize.finditer(line):     # `Type:N` size specifier
                if int(m.group(1).replace("_", "")) >= 10 ** 6:
                    return m
        return None


HUGE = _HUGE = _Huge()


def pick(r):
    """One generated case.  Inputs matching the narrow predicate of the open finding
    `timeout:constant-field-size>=10^6` (a constant field size >= 10^6) are regenerated: each
    costs a full time-out and the pinned input of the finding is re-run on every check."""
    for _ in range(20):
        c = _pick(r)
        if not any(_HUGE.search(t) for t in c["files"].values()):
            return c
    return c


def _pick(r):
    total = sum(w for _, _, w in GENERATORS)
    x = r.randrange(total)
    for name, g, w in GENERATORS:
        if x < w:
            return g(r)
        x -= w
    return GENERATORS[-1][1](r)
