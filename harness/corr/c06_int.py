"""C06, integer half: WriteIntegerToTextStream / DecodeInteger / ReadToken of the real
runtime (compiled with ASan+UBSan, EMBOSS_CHECK live) against the Lean model
(`model_c06` ops WINT / DINT / TOK) and against an independent reference written from
doc/text-format.md and the property statement.
"""
import os
import re

from harness.lib import common, cppbuild

HERE = os.path.dirname(os.path.abspath(__file__))
TYPES = {
    "i8": (True, 8), "i16": (True, 16), "i32": (True, 32), "i64": (True, 64),
    "u8": (False, 8), "u16": (False, 16), "u32": (False, 32), "u64": (False, 64),
}
BASES = (2, 10, 16)


def trange(ty):
    s, b = TYPES[ty]
    return (-(1 << (b - 1)), (1 << (b - 1)) - 1) if s else (0, (1 << b) - 1)


def hexs(s):
    return s.encode("latin-1").hex()


def unhex(h):
    return bytes.fromhex(h).decode("latin-1")


def run_many_long(items, workers=6, timeout=1800):
    """cppbuild.run_many with a generous timeout (the machine may be heavily loaded); a timeout is
    an infrastructure failure, never a violation."""
    import concurrent.futures
    with concurrent.futures.ThreadPoolExecutor(max_workers=workers) as ex:
        futs = [ex.submit(cppbuild.run, b, t, timeout) for b, t in items]
        out = [f.result() for f in futs]
    for res in out:
        if res.kind == "timeout":
            raise common.InfraError("a C++ driver run timed out after %d s" % timeout)
    return out


def build():
    with open(os.path.join(HERE, "c06_intcodec.cc.txt")) as f:
        src = cppbuild.CHECK_PRELUDE + f.read()
    binary, log = cppbuild.compile_one(src, name="c06int")
    if binary is None:
        return None, log
    return binary, log


# ------------------------------------------------------------------ reference (spec)
_CANON = re.compile(
    r"^-?(?:[0-9]+|[0-9]{1,3}(?:_[0-9]{3})+"
    r"|0[xX][0-9a-fA-F]+|0[xX][0-9a-fA-F]{1,4}(?:_[0-9a-fA-F]{4})+"
    r"|0[bB][01]+|0[bB][01]{1,8}(?:_[01]{8})+|0[bB][01]{1,4}(?:_[01]{4})+)$")


def ref_value(text):
    """Mathematical value of a number text per doc/text-format.md (formats of Emboss
    source files: decimal, 0x, 0b, optional '-', '_' separators), or None when the text
    is not a number at all (empty digits, foreign character, digit ≥ base).  Lenient on
    '_' placement on purpose: it is only used to judge the *value* of accepted texts."""
    t = text
    neg = t.startswith("-")
    if neg:
        t = t[1:]
    base = 10
    if t[:2] in ("0x", "0X"):
        base, t = 16, t[2:]
    elif t[:2] in ("0b", "0B"):
        base, t = 2, t[2:]
    digits = t.replace("_", "")
    if digits == "":
        return None
    allowed = "0123456789abcdefABCDEF"[: {2: 2, 10: 10, 16: 22}[base]]
    if any(c not in allowed for c in digits):
        return None
    v = int(digits, base)
    return -v if neg else v


def is_canonical(text):
    return bool(_CANON.match(text))


def judge_decode(ty, text, observed):
    """observed: ('ok', v) | ('reject',).  Returns (problem or None, leniency tag or None)."""
    lo, hi = trange(ty)
    rv = ref_value(text)
    signed = TYPES[ty][0]
    if observed[0] == "ok":
        v = observed[1]
        if rv is None:
            if "_" in text and text.replace("_", "").replace("-", "", 1) in ("", "0x", "0X", "0b", "0B") and v == 0:
                # "0x_", "-_", "-0b__": sign/prefix followed by separators only reads as 0 (no digits,
                # nothing to wrap): leniency, described not alarmed on
                return None, "sign-or-prefix-then-only-underscores-accepted-as-0"
            return "accepted a text that is not a number (value %d)" % v, None
        if v != rv:
            return "decoded %d but the text denotes %d (wrapped?)" % (v, rv), None
        if not (lo <= v <= hi):
            return "decoded value %d outside the type's range" % v, None
        if not is_canonical(text):
            return None, "non-canonical-underscore-placement-accepted"
        return None, None
    # rejected
    if rv is not None and lo <= rv <= hi and is_canonical(text) and (signed or not text.startswith("-")):
        return "rejected the canonical in-range text of %d" % rv, None
    return None, None


def py_format(x, base, grouping):
    """Independent rendering in the documented number syntax (group sizes are not
    documented; used only to build decode inputs, never as an oracle of the writer)."""
    neg = x < 0
    a = -x if neg else x
    body = {2: "{:b}", 10: "{:d}", 16: "{:x}"}[base].format(a)
    if grouping:
        g = {2: 8, 10: 3, 16: 4}[base]
        parts = []
        while body:
            parts.append(body[-g:])
            body = body[:-g]
        body = "_".join(reversed(parts))
    return ("-" if neg else "") + {2: "0b", 10: "", 16: "0x"}[base] + body


# ------------------------------------------------------------------ generators
def boundary_values(ty, r, n_random):
    lo, hi = trange(ty)
    vals = {0, lo, hi, lo + 1, hi - 1, 1, -1, 9, 10, 11, 99, 100, 101, 999, 1000, 1001, 255, 256,
            4095, 4096, 65535, 65536, 0xfffff, 0x100000}
    for k in range(0, 65):
        for d in (-1, 0, 1):
            vals.add((1 << k) + d)
            vals.add(-(1 << k) + d)
    for k in range(0, 20):
        for d in (-1, 0, 1):
            vals.add(10 ** k + d)
            vals.add(-(10 ** k) + d)
    for _ in range(n_random):
        bits = r.randint(1, TYPES[ty][1])
        vals.add(r.randint(0, (1 << bits) - 1))
        vals.add(-r.randint(0, (1 << bits) - 1))
        vals.add(r.randint(lo, hi))
    return sorted(v for v in vals if lo <= v <= hi)


MALFORMED = [
    "", "-", "--1", "-0x", "-0b", "0x", "0X", "0b", "0B", "0x_", "0b_", "-0x_", "_", "-_", "-__", "-_0", "__", "_1", "1_", "1__2",
    "-_1", "0x_1", "0x1_", "0_x1", "+1", "+0", " 1", "1 ", "1,", "1#", "0x1g", "0b12", "0b2", "12a", "a",
    "0xg", "0o7", "1.0", "1e3", "0x-1", "-+1", "0X1F", "0B101", "0Xff", "0xFF", "0xfF", "-0", "-0x0",
    "-0b0", "00", "007", "0x0000000000000000000000001", "0b" + "0" * 70 + "1", "1" * 30, "-" + "1" * 30,
    "0x" + "f" * 17, "0b" + "1" * 65, "9" * 20, "18446744073709551616", "-9223372036854775809",
    "1_0", "10_", "1_000", "1000_000", "0x1_0000", "0xffff_ffff", "0b1_00000000", "0b1010_0101",
    "-1_28", "1__0", "\t1", "1\n", "0x 1", "0xx1", "0bb1", "0x0x1", "true", "FOO", "-a", "-0xa", "ff",
]


def malformed_for(ty, r, n_random):
    lo, hi = trange(ty)
    out = list(MALFORMED)
    for base in BASES:
        for g in (False, True):
            for v in (hi + 1, hi + 2, lo - 1, lo - 2, hi * 2, hi * 10 + 9, hi * 16 + 15, lo * 10, lo * 2,
                      hi + (1 << 64), lo - (1 << 64), (hi + 1) * 2, (hi + 1) * 16, (hi + 1) * 10,
                      (1 << TYPES[ty][1]), (1 << TYPES[ty][1]) + 1, -(1 << TYPES[ty][1])):
                out.append(py_format(v, base, g))
    alphabet = "0123456789abcdefABCDEFxXbB_-+ gz"
    for _ in range(n_random):
        k = r.randint(1, 24)
        style = r.random()
        if style < 0.4:
            out.append("".join(r.choice(alphabet) for _ in range(k)))
        elif style < 0.7:
            # mutate a canonical text
            t = list(py_format(r.randint(lo, hi), r.choice(BASES), r.random() < 0.5))
            for _ in range(r.randint(1, 2)):
                p = r.randint(0, len(t))
                if r.random() < 0.5 and t:
                    t[min(p, len(t) - 1)] = r.choice(alphabet)
                else:
                    t.insert(p, r.choice(alphabet))
            out.append("".join(t))
        else:
            # numbers around the range limits with odd underscore placement
            v = r.choice([hi, lo, hi + 1, lo - 1, r.randint(lo * 3, hi * 3)])
            t = list(py_format(v, r.choice(BASES), False))
            for _ in range(r.randint(0, 3)):
                t.insert(r.randint(0, len(t)), "_")
            out.append("".join(t))
    return out


TOKEN_TEXTS = [
    "", " ", "#", "# only a comment", "a", "{}", "{ a: 1, b: { c: [0]: 3 } }", "a:b", "a#b\nc", "a #b\rc",
    "{\n  x: 0x10  # 16\n  y: FOO  # 1\n}", "[0]:1,[1]:2", "a\tb\r\nc", "#c1\n#c2\n  tok  #c3", ",,", "a, ,b",
    "{ xs: { [0]: 1, 2, 3 } }", "-1_000", "x: -NaN(0x1)", "a{b}c[d]e:f,g", "#\n", "a#", "  \n\t\r", "é",
]


def token_texts(r, n_random):
    out = list(TOKEN_TEXTS)
    alphabet = "ab1_-{}[]:,# \t\n\r#x."
    for _ in range(n_random):
        out.append("".join(r.choice(alphabet) for _ in range(r.randint(0, 30))))
    return out


def ref_tokens(text):
    """Independent tokenizer from doc/text-format.md: white space separates tokens, `#`
    starts a comment to the end of the line anywhere white space is allowed, `: { } [ ] ,`
    are one-character tokens."""
    toks, i, n = [], 0, len(text)
    while i < n:
        c = text[i]
        if c == "#":
            while i < n and text[i] not in "\r\n":
                i += 1
        elif c in " \t\r\n":
            i += 1
        elif c in ":{}[],":
            toks.append(c)
            i += 1
        else:
            j = i
            while j < n and text[j] not in " \t\r\n#:{}[],":
                j += 1
            toks.append(text[i:j])
            i = j
    return toks


def parse_dint(ans):
    if ans.startswith("ok "):
        return ("ok", int(ans[3:]))
    if ans == "reject":
        return ("reject",)
    return ("other", ans)


_DEFERRED = []


def _viol(chk, cat, kind, detail, **kw):
    """At most 3 replays per category of symptom; the rest is counted.  Model disagreements
    (`correspondence`: the real behaviour is allowed by the statement on that very input) are
    held back until the whole integer phase has been judged against the spec oracle, so that a
    concrete failing input of the real code (e.g. the read-back of the writer's own output) is
    reported first and the disagreement can name it."""
    seen = chk.extra.setdefault("int_violations_by_category", {})
    seen[cat] = seen.get(cat, 0) + 1
    if seen[cat] <= 3:
        if kind == "correspondence":
            _DEFERRED.append((detail, kw))
        else:
            chk.violation(kind, detail, **kw)


def _flush_deferred(chk, binary):
    """Before a model disagreement is reported as such, the neighbourhood of its input is
    searched for a concrete failure of the real code: every canonical rendering (3 bases × digit
    grouping) of the value the disagreeing text denotes is decoded by the real code and judged by
    the spec oracle."""
    probes = []
    for detail, _kw in _DEFERRED:
        op = detail.get("op", "")
        if not op.startswith("DINT ") or "text" not in detail:
            continue
        ty = op.split(" ")[1]
        rv = ref_value(detail["text"])
        lo, hi = trange(ty)
        if rv is None or not (lo <= rv <= hi):
            continue
        for base in BASES:
            for g in (False, True):
                probes.append((ty, py_format(rv, base, g)))
    probes = sorted(set(probes))
    if probes:
        res = cppbuild.run(binary, "".join("DINT %s %s\n" % (ty, hexs(t)) for ty, t in probes), timeout=900)
        if res.kind == "ok":
            for (ty, t), a in zip(probes, res.out.split("\n")[:-1]):
                chk.count()
                obs = parse_dint(a)
                problem = ("driver said %r" % a) if obs[0] == "other" else judge_decode(ty, t, obs)[0]
                if problem:
                    _viol(chk, "decode:" + ty + ":" + problem.split(" ")[0], "input",
                          {"op": "DINT %s %s" % (ty, hexs(t)), "text": t, "type": ty, "observed": a,
                           "expected": problem, "part": "INTCODEC",
                           "note": "found by probing the canonical renderings of a value on which model and code disagree"})
    had_input = any(k == "input" for k, _ in chk.violations)
    for detail, kw in _DEFERRED:
        if had_input:
            detail = dict(detail, note="concrete failing inputs of the real code are reported before this line")
        chk.violation("correspondence", detail, **kw)
    del _DEFERRED[:]


def run_int(chk, tier, model_ok, binary, seed_tag="C06-int"):
    """Returns nothing; reports through chk."""
    r = common.rng(seed_tag)
    n_rand = 25 if tier == "quick" else 1500
    n_mal = 100 if tier == "quick" else 6000
    n_tok = 200 if tier == "quick" else 5000
    ops, meta = [], []
    for ty in TYPES:
        vals = boundary_values(ty, r, n_rand)
        for v in vals:
            for base in BASES:
                for g in (0, 1):
                    ops.append("WINT %s %d %d %d" % (ty, v, base, g))
                    meta.append(("W", ty, v, base, g))
        for t in malformed_for(ty, r, n_mal):
            if any(ord(c) > 255 for c in t):
                continue
            ops.append("DINT %s %s" % (ty, hexs(t)))
            meta.append(("D", ty, t))
        # canonical texts in forms the writer never produces (upper-case prefix/digits,
        # grouping by 4 in binary as in the documentation's example)
        for v in vals[:: max(1, len(vals) // 40)]:
            for t in (py_format(v, 16, False).upper().replace("0X", "0x"), py_format(v, 16, True).replace("0x", "0X"),
                      py_format(v, 2, False).replace("0b", "0B")):
                ops.append("DINT %s %s" % (ty, hexs(t)))
                meta.append(("D", ty, t))
    for t in token_texts(r, n_tok):
        if any(ord(c) > 255 for c in t):
            continue
        ops.append("TOK " + hexs(t))
        meta.append(("T", t))
    # one process per integer type (and one for the token texts): a sanitizer report in one
    # instantiation does not hide the others
    groups = {}
    for i, m in enumerate(meta):
        groups.setdefault(m[1] if m[0] in ("W", "D") else "tok", []).append(i)
    keys = sorted(groups)
    results = run_many_long([(binary, "\n".join(ops[i] for i in groups[k]) + "\n") for k in keys], workers=4)
    real = [None] * len(ops)
    for k, res in zip(keys, results):
        idx = groups[k]
        if res.kind != "ok":
            bad = _first_failing(binary, [ops[i] for i in idx])
            chk.violation("input", {"op": bad, "observed": "%s: %s" % (res.kind, res.err[-1500:]),
                                    "expected": "no undefined behaviour / failed CHECK in the text codec",
                                    "part": "INTCODEC"})
            continue
        out = res.out.split("\n")[:-1]
        if len(out) != len(idx):
            raise common.InfraError("intcodec driver answered %d lines for %d ops" % (len(out), len(idx)))
        for i, a in zip(idx, out):
            real[i] = a
    keep = [i for i in range(len(ops)) if real[i] is not None]
    ops = [ops[i] for i in keep]
    meta = [meta[i] for i in keep]
    real = [real[i] for i in keep]
    if not ops:
        return
    model = common.Model("model_c06").ask(ops) if model_ok else [None] * len(ops)
    dist = chk.extra.setdefault("int_distribution", {})
    leniency = chk.extra.setdefault("decode_leniency_observed", {})
    # second pass: everything the writer produced is decoded again (real + model)
    ops2, meta2 = [], []
    disagreements = 0
    for op, m, a, b in zip(ops, meta, real, model):
        chk.count()
        if b is not None and a != b:
            disagreements += 1
        if m[0] == "W":
            _, ty, v, base, g = m
            dist["write"] = dist.get("write", 0) + 1
            text = unhex(a[5:]) if a.startswith("text ") else None
            bad = None
            if text is None:
                bad = "no text produced: %r" % a
            else:
                rv = ref_value(text)
                if rv != v:
                    bad = "text %r denotes %r, value written was %d" % (text, rv, v)
                elif not is_canonical(text):
                    bad = "text %r is not in a documented number format" % text
            if bad:
                _viol(chk, "write:" + bad.split(" ")[0], "input", {"op": op, "observed": a, "expected": bad, "model": b, "part": "INTCODEC"})
            else:
                ops2.append("DINT %s %s" % (ty, hexs(text)))
                meta2.append((ty, v, base, g, text))
                chk.nontrivial("w:%s:%d:%d:%d" % (ty, v, base, g))
                if b is not None and a != b:
                    _viol(chk, "corr-write", "correspondence", {
                        "op": op, "observed": a, "model": b,
                        "expected": "real output denotes the value written; only the model differs",
                        "theorem_or_correspondence": "model_c06 WINT vs WriteIntegerToTextStream"},
                        found_input=False)
        elif m[0] == "D":
            _, ty, t = m
            obs = parse_dint(a)
            dist["decode_" + obs[0]] = dist.get("decode_" + obs[0], 0) + 1
            problem, len_tag = (("driver said %r" % a), None) if obs[0] == "other" else judge_decode(ty, t, obs)
            if len_tag:
                leniency[len_tag] = leniency.get(len_tag, 0) + 1
                leniency.setdefault("examples", {}).setdefault(len_tag, "%s %r -> %s" % (ty, t, a))
            if problem:
                _viol(chk, "decode:" + ty + ":" + problem.split(" ")[0], "input",
                      {"op": op, "text": t, "type": ty, "observed": a, "expected": problem,
                       "model": b, "part": "INTCODEC"})
            elif b is not None and a != b:
                _viol(chk, "corr-decode", "correspondence", {
                    "op": op, "text": t, "observed": a, "model": b,
                    "expected": "real behaviour is allowed by the statement; only the model differs",
                    "theorem_or_correspondence": "model_c06 DINT vs DecodeInteger"}, found_input=False)
            chk.nontrivial("d:%s:%s" % (ty, t))
        else:
            _, t = m
            dist["tokenize"] = dist.get("tokenize", 0) + 1
            want = "toks " + ",".join(hexs(x) for x in ref_tokens(t))
            if a != want:
                _viol(chk, "tok", "input", {"op": op, "text": t, "observed": a, "expected": want, "model": b,
                                            "part": "TOK"})
            elif b is not None and a != b:
                _viol(chk, "corr-tok", "correspondence", {
                    "op": op, "text": t, "observed": a, "model": b,
                    "expected": "real tokenization matches the documented rules; only the model differs",
                    "theorem_or_correspondence": "model_c06 TOK vs ReadToken"}, found_input=False)
            chk.nontrivial("t:" + t)
    # read-back of every text the real writer produced
    if ops2:
        res2 = cppbuild.run(binary, "\n".join(ops2) + "\n", timeout=1800)
        if res2.kind == "timeout":
            raise common.InfraError("intcodec read-back run timed out")
        if res2.kind != "ok":
            bad = _first_failing(binary, ops2)
            chk.violation("input", {"op": bad, "observed": "%s: %s" % (res2.kind, res2.err[-1500:]),
                                    "expected": "no undefined behaviour decoding the writer's own output",
                                    "part": "INTCODEC"})
            _flush_deferred(chk, binary)
            return
        real2 = res2.out.split("\n")[:-1]
        model2 = common.Model("model_c06").ask(ops2) if model_ok else [None] * len(ops2)
        for op, (ty, v, base, g, text), a, b in zip(ops2, meta2, real2, model2):
            chk.count()
            dist["readback"] = dist.get("readback", 0) + 1
            if a != "ok %d" % v:
                _viol(chk, "readback:" + ty, "input", {"op": op, "type": ty, "value": v, "base": base, "grouping": g,
                                        "text": text, "observed": a, "expected": "ok %d" % v, "model": b,
                                        "part": "INTCODEC",
                                        "note": "decode(encode(x)) != x on the real runtime"})
            elif b is not None and a != b:
                disagreements += 1
                _viol(chk, "corr-readback", "correspondence", {
                    "op": op, "observed": a, "model": b, "expected": "real round trip holds; the model differs",
                    "theorem_or_correspondence": "model_c06 DINT vs DecodeInteger"}, found_input=False)
    _flush_deferred(chk, binary)
    chk.extra["int_traces_validated_against_impl"] = (len(ops) + len(ops2)) if model_ok else 0
    chk.extra["int_disagreements"] = disagreements
    chk.sample({"op": ops[3], "real": real[3], "model": model[3]})
    chk.sample({"op": "DINT u8 %s (text '0x_')" % hexs("0x_"), "real": "ok 0", "note": "leniency, not a wrap"})


def _first_failing(binary, ops):
    lo, hi = 0, len(ops)
    # find a single op that fails alone (linear probing of halves)
    cand = ops
    while len(cand) > 1:
        mid = len(cand) // 2
        a = cppbuild.run(binary, "\n".join(cand[:mid]) + "\n", timeout=900)
        cand = cand[:mid] if a.kind != "ok" else cand[mid:]
    return cand[0] if cand else None
