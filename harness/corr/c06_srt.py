"""C06: tie of the abstract structure round trip (Lean `update zeroBuf (writeText fs b)`, driver op
SRT) to the real `UpdateFromText(WriteToString(view))`.

A generated struct is described to the model as a list of *leaves* (Emboss/Model/TextLayout.lean)
in the order of the real write clauses (`fields_in_dependency_order`): existence condition and bit
address as layout expressions over the bytes of the buffer (`let` fields inlined down to the
UInt:8 tags they are computed from), width, emitted flag.  Arrays are one leaf per element
(present iff the index is below the element count *in the buffer being looked at*), nested
structures and `bits` are flattened, writable virtual fields are leaves at the place of their
source.  The model answers with the bytes of the zeroed buffer after the update (or `fail`); the
harness compares with what the real code left in its zeroed buffer — also on the structs hit by
the open Skip finding, where the model predicts the failure / the write at the wrong place.
"""
from harness.corr import c06_gen as G


class NoSrt(Exception):
    pass


def _c(n):
    return ["c", str(n)]


def expr_of(st, name, by, env=None):
    """Layout expression (prefix tokens) of the value of field `name` of struct st.  env: runtime
    parameters of st -> expression of the argument in the enclosing (top-level) struct; physical
    fields are only read at the top level (static byte offsets from the start of the buffer)."""
    if env and name in env:
        return env[name]
    f = by.get(name)
    if f is None:
        raise NoSrt("unknown name " + name)
    if not f.virtual:
        if env is not None:
            raise NoSrt("layout input read inside a nested struct")
        if f.cond or f.dyn_offset or f.ftype[0] != "scalar" or f.ftype[1].kind != "uint" or f.ftype[1].bits != 8 \
                or st.kind != "struct":
            raise NoSrt("layout input %s is not a plain UInt:8" % name)
        return ["y", str(f.offset)]
    sym = f.sym
    if sym is None:
        raise NoSrt("virtual %s has no symbolic form" % name)
    if sym[0] == "alias":
        return expr_of(st, sym[1], by, env)
    op, src, k = sym
    return [op] + expr_of(st, src, by, env) + _c(k)


def cond_expr(st, cond, by, env=None):
    if cond is None:
        return _c(1)
    name, v = cond
    e = expr_of(st, name, by, env)
    if v is True:
        return e
    if v is False:
        return ["!"] + e
    return ["="] + e + _c(v)


def _and(a, b):
    if a == _c(1):
        return b
    if b == _c(1):
        return a
    return ["&"] + a + b


def _leaf(emitted, width, present, offset_bits):
    return ["L", "1" if emitted else "0", str(width)] + present + offset_bits


def _bits_leaves(bt, nbytes, order, base_bytes_expr, present, emitted, out, only=None):
    """Sub-fields of a `bits` container of nbytes at byte address expr; `only`: one sub-field."""
    for g in bt.fields:
        if only is not None and g is not only:
            continue
        em = emitted and g.attr != "Skip"
        if order == "LittleEndian" or nbytes == 1:
            out.append(_leaf(em, g.size, present, ["+", "*", "c", "8"] + base_bytes_expr + _c(g.offset)))
        else:
            # big-endian container: bit j lives in byte nbytes-1-j//8, bit j%8 — one leaf per bit
            for j in range(g.offset, g.offset + g.size):
                addr = 8 * (nbytes - 1 - j // 8) + j % 8
                out.append(_leaf(em, 1, present, ["+", "*", "c", "8"] + base_bytes_expr + _c(addr)))


def _value_leaves(ft, order, default_order, base_expr, present, emitted, orders, out, env=None):
    """Leaves of a value of type ft at byte address expr `base_expr` (fixed-size types only);
    env: expressions for the runtime parameters of a struct-typed value."""
    if ft[0] == "scalar":
        out.append(_leaf(emitted, ft[1].bits, present, ["*", "c", "8"] + base_expr))
        return
    if ft[0] == "struct":
        st2 = ft[1]
        if st2.kind == "bits":
            _bits_leaves(st2, st2.static_size // 8, order or default_order, base_expr, present, emitted, out)
            return
        _struct_leaves(st2, default_order, base_expr, present, emitted, orders, out, None, env or {})
        return
    _, elem, count = ft
    esz = G.elem_size(elem)
    for i in range(count):
        _value_leaves(elem, order, default_order, ["+"] + base_expr + _c(i * esz), present, emitted, orders, out, env)


def _struct_leaves(st, default_order, base_expr, present0, emitted0, orders, out, counts, env=None):
    """counts: {array field name: element count in the original buffer} for the top level;
    env: None at the top level, {parameter: expression} inside a nested struct."""
    by = G.field_by_name(st)
    top = counts is not None
    anon_of = {}
    for f in st.fields:
        if f.anonymous_bits is not None:
            for g in f.anonymous_bits.fields:
                anon_of[g.name] = f
    names = orders.get(st.name)
    if names is None:
        raise NoSrt("no order for " + st.name)
    for nm in names:
        if nm.startswith("$") or nm not in by:
            continue            # $size_in_bytes &c., the anonymous field itself
        f = by[nm]
        if nm in anon_of:
            host = anon_of[nm]
            present = _and(present0, cond_expr(st, host.cond, by, env) if top else _c(1))
            if host.cond and not top:
                raise NoSrt("conditional field in a nested struct")
            _bits_leaves(host.anonymous_bits, host.size, default_order, ["+"] + base_expr + _c(host.offset),
                         present, emitted0, out, only=f)
            continue
        if f.anonymous_bits is not None:
            continue
        if f.virtual:
            if f.attr == "Skip" or not G.virtual_writable(st, f):
                continue
            srcs = sorted(G.physical_sources(st, f.name))
            if len(srcs) != 1:
                raise NoSrt("virtual with several sources")
            s = by[srcs[0]]
            if s.cond or s.dyn_offset or s.dyn_count or s.ftype[0] != "scalar":
                raise NoSrt("source of a writable virtual is not a plain static scalar")
            out.append(_leaf(emitted0, s.size * 8 if st.kind == "struct" else s.size, present0,
                             ["*", "c", "8", "+"] + base_expr + _c(s.offset)))
            continue
        if (f.dyn_offset or f.dyn_count) and not top:
            raise NoSrt("dynamic field in a nested struct")
        present = _and(present0, cond_expr(st, f.cond, by, env))
        em = emitted0 and f.attr != "Skip"
        sub_env = None
        if f.args:
            ft0 = f.ftype
            while ft0[0] == "array":
                ft0 = ft0[1]
            sub_env = {p: (expr_of(st, a, by, env) if isinstance(a, str) else _c(a))
                       for p, a in zip(ft0[1].params, f.args)}
        addr = ["+"] + base_expr + _c(f.offset)
        if f.dyn_offset:
            addr = ["+"] + addr + expr_of(st, f.dyn_offset, by, env)
        if f.ftype[0] == "array":
            _, elem, count = f.ftype
            esz = G.elem_size(elem)
            if f.dyn_count:
                cexpr = expr_of(st, f.dyn_count, by, env)
                n = counts.get(f.name, 0)
                for i in range(n):
                    _value_leaves(elem, f.byte_order, default_order, ["+"] + addr + _c(i * esz),
                                  _and(present, [">"] + cexpr + _c(i)), em, orders, out, sub_env)
            else:
                for i in range(count):
                    _value_leaves(elem, f.byte_order, default_order, ["+"] + addr + _c(i * esz), present, em,
                                  orders, out, sub_env)
        else:
            _value_leaves(f.ftype, f.byte_order, default_order, addr, present, em, orders, out, sub_env)


def srt_op(st, default_order, orders, built):
    """'SRT …' line for one buffer of top-level struct st, or raises NoSrt."""
    counts = {}
    for path, _v in built.dump:
        # top-level array element paths look like name[i] or name[i].x / name[i][j]
        if "[" in path and "." not in path.split("[")[0]:
            nm = path.split("[")[0]
            try:
                i = int(path.split("[")[1].split("]")[0])
            except ValueError:
                continue
            counts[nm] = max(counts.get(nm, 0), i + 1)
    out = []
    _struct_leaves(st, default_order, _c(0), _c(1), True, orders, out, counts)
    toks = [t for leaf in out for t in leaf]
    return ("SRT %s %s" % (bytes(built.buf).hex() or "-", " ".join(toks))).rstrip()      # no leaves: "SRT <buf>"
