"""C13 — expression typing: well-typed modules accepted, ill-typed ones rejected with a
located error, never a crash.

Tie: correspondence.  For every module set (1-3 files: imports, aliases, same-named enums and
structs in different modules) the real front end (`glue.parse_emboss_file`) is run (a) up to
`annotate_types` to obtain the resolved IR, which an independent walker over its JSON form
turns into the Lean model's input (op `TYPE`; every item with the file it is written in,
every reference with the file of the referred definition), and (b) completely; the model's
outcome (accepted / rejected in pass p with the set of (location, file of the message, class,
notes) / crashed at site s) is compared with what the real passes `annotate_types`,
`check_types` and the attribute validators of `attribute_checker.normalize_and_verify`
reported.

Spec oracle (Python, no model, no compiler knowledge): the generator knows whether the
module set it wrote follows the documented rules and, if not, which line of which file breaks
which rule: valid => accepted; mutant => rejected, no exception, with a non-synthetic error
whose file and line are the mutated ones; boundary module (many offending lines, arities far
beyond the usual) => the set of lines with a non-synthetic error is exactly the offending set.
"""
import json
import os
import re
import traceback

from harness.lib import common, emb
from harness.corr import c13gen

PROP = "C13"

FUNCS = {1: "add", 2: "sub", 3: "mul", 4: "eq", 5: "ne", 6: "and", 7: "or", 8: "lt", 9: "le", 10: "gt",
         11: "ge", 12: "choice", 13: "max", 14: "present", 15: "upper", 16: "lower"}
FUNC_NAMES = {"ADDITION": 1, "SUBTRACTION": 2, "MULTIPLICATION": 3, "EQUALITY": 4, "INEQUALITY": 5, "AND": 6,
              "OR": 7, "LESS": 8, "LESS_OR_EQUAL": 9, "GREATER": 10, "GREATER_OR_EQUAL": 11, "CHOICE": 12,
              "MAXIMUM": 13, "PRESENCE": 14, "UPPER_BOUND": 15, "LOWER_BOUND": 16}
EXPR_KEYS = ("constant", "constant_reference", "function", "field_reference", "boolean_constant",
             "builtin_reference")
BIN_PY = {"add": lambda a, b: a + b, "sub": lambda a, b: a - b, "mul": lambda a, b: a * b,
          "eq": lambda a, b: a == b, "ne": lambda a, b: a != b, "lt": lambda a, b: a < b,
          "le": lambda a, b: a <= b, "gt": lambda a, b: a > b, "ge": lambda a, b: a >= b,
          "and": lambda a, b: bool(a) and bool(b), "or": lambda a, b: bool(a) or bool(b)}
ATTR_KINDS = {"is_signed": "boolconst", "is_integer": "boolconst", "requires": "bool", "static_requirements": "bool",
              "addressable_unit_size": "int", "maximum_bits": "int", "fixed_size_in_bits": "int",
              "byte_order": "strlist", "text_output": "strlist", "expected_back_ends": "backends"}
STR_VALUES = {"byte_order": {"BigEndian", "LittleEndian", "Null"}, "text_output": {"Emit", "Skip"}}
BACK_ENDS_RE = r"(?:\s*[a-z][a-z0-9_]*\s*(?:,\s*[a-z][a-z0-9_]*\s*)*,?)?\s*"

MESSAGES = [
    (r"^(Left|Right) argument of operator '.*' must be an integer\.$", lambda m: "mustInt%d" % (m.group(1) == "Right")),
    (r"^(Left|Right) argument of operator '.*' must be a boolean\.$", lambda m: "mustBool%d" % (m.group(1) == "Right")),
    (r"^Argument (\d+) of function '.*' must be an integer\.$", lambda m: "mustInt" + m.group(1)),
    (r"^Argument (\d+) of function '.*' must be a boolean\.$", lambda m: "mustBool" + m.group(1)),
    (r"^Argument (\d+) of function '.*' must be a field\.$", lambda m: "mustField" + m.group(1)),
    (r"^(Function|Operator) '.*' requires (exactly|at least|at most) \d+ arguments?\.$", lambda m: "arity"),
    (r"^(Left|Right) argument of operator '.*' must be an integer(, boolean,)? or enum\.$",
     lambda m: "cmpArg%d" % (m.group(1) == "Right")),
    (r"^Both arguments of operator '.*' must have the same type\.$", lambda m: "cmpSame"),
    (r"^Condition of operator '\?:' must be a boolean\.$", lambda m: "chCond"),
    (r"^If-true clause of operator '\?:' must be an integer, boolean, or enum\.$", lambda m: "chTrue"),
    (r"^The if-true and if-false clauses of operator '\?:' must have the same type\.$", lambda m: "chSame"),
    (r"^Static references to physical fields are not allowed\.$", lambda m: "staticPhys"),
    (r"^Static references must refer to enum values or virtual fields\.$", lambda m: "staticOther"),
    (r"^Keyword `.*` may not be used in this context\.$", lambda m: "builtinCtx"),
    (r"^Enum value must be an integer\.$", lambda m: "posEnumValue"),
    (r"^Start of field must be an integer\.$", lambda m: "posStart"),
    (r"^Size of field must be an integer\.$", lambda m: "posSize"),
    (r"^Array size must be an integer\.$", lambda m: "posArray"),
    (r"^Existence condition must be a boolean\.$", lambda m: "posExist"),
    (r"^Parameters cannot be arrays\.$", lambda m: "paramArray"),
    (r"^Runtime parameters must be integer or enum\.$", lambda m: "paramKind"),
    (r"^Type .* requires \d+ parameters?; \d+ parameters? given\.$", lambda m: "passArity"),
    (r"^Parameter (\d+) of type .* must be .*, not .*\.$", lambda m: "passKind" + m.group(1)),
    (r"^Attribute '.*' must have a boolean value\.$", lambda m: "attrBool"),
    (r"^Attribute '.*' must have a constant boolean value\.$", lambda m: "attrConstBool"),
    (r"^Attribute '.*' must have an integer value\.$", lambda m: "attrInt"),
    (r"^Attribute '.*' must have a constant value\.$", lambda m: "attrConst"),
    (r"^Attribute '.*' must have a string value\.$", lambda m: "attrString"),
    (r"^Attribute '.*' must be '.*'\.$", lambda m: "attrStr"),
    (r"^Attribute '.*' must be a comma-delimited list of back end specifiers", lambda m: "attrStr"),
]
PASS_OF = [("mustInt", 1), ("mustBool", 1), ("mustField", 1), ("arity", 1), ("cmp", 1), ("ch", 1), ("static", 1),
           ("builtinCtx", 1), ("paramArray", 1), ("pos", 2), ("paramKind", 2), ("pass", 2), ("attr", 3)]
CRASH_KEYS = {
    "paramTypeNone": "crash:type_check.py:_type_check_parameter:AttributeError",
    "passedTypeNone": "crash:type_check.py:_type_name_for_error_messages:AttributeError",
    "attrTypeNone": "crash:attribute_util.py:<validator>:AttributeError",
    "attrSignedNotLiteral": "crash:ir_util.py:get_attribute:AssertionError",
}
K_BADFILE = "error-file-is-not-a-file-name:type_check._type_check_local_reference"
K_ENUM_ORD = "enum-operands-to-ordering-comparison-accepted"
K_ENUM_VALUE = "enum-value-of-enum-type-accepted"


def classify_message(msg):
    for pat, f in MESSAGES:
        m = re.match(pat, msg)
        if m:
            return f(m)
    return None


def pass_of(cls):
    for pre, p in PASS_OF:
        if cls.startswith(pre):
            return p
    return 0


def crash_key(exc):
    tb = traceback.extract_tb(exc.__traceback__)
    fr = tb[-1]
    return "crash:%s:%s:%s" % (os.path.basename(fr.filename), fr.name, type(exc).__name__)


# ------------------------------------------------------------------ IR walker
class Walker:
    """Independent reading of the JSON IR (after resolve_field_references): builds the
    model's input line and the location table."""

    def __init__(self, ird):
        self.ird = ird
        self.objs = {}       # (module_file, path tuple) -> (kind, node, module_file)
        self.locs = {}       # (file, locstr) -> id
        self.files = {}      # file name -> id
        self.enum_ids = {}   # (module_file, object path) -> id: an enum is its definition, not its name
        self.leaf_ids = {}   # canonical name of a field / parameter -> leaf id in C05's language
        self.cst_stats = {"c05": 0, "closedness": 0}
        self.size = 0
        for mod in ird["module"]:
            mf = mod.get("source_file_name", "")
            for td in mod.get("type", []):
                self._index_type(td, mf)

    def _cn(self, node):
        cn = node["name"]["canonical_name"]
        return (cn.get("module_file", ""), tuple(cn["object_path"]))

    def _index_type(self, td, mf):
        self.objs[self._cn(td)] = ("type", td, mf)
        for p in td.get("runtime_parameter", []):
            self.objs[self._cn(p)] = ("param", p, mf)
        for f in td.get("structure", {}).get("field", []):
            self.objs[self._cn(f)] = ("field", f, mf)
        for v in td.get("enumeration", {}).get("value", []):
            self.objs[self._cn(v)] = ("enumvalue", v, mf)
        for st in td.get("subtype", []):
            self._index_type(st, mf)

    def fid(self, file):
        if file not in self.files:
            self.files[file] = len(self.files)
        return self.files[file]

    def loc(self, file, node):
        s = node.get("source_location", "") if isinstance(node, dict) else str(node)
        key = (file, s)
        if key not in self.locs:
            self.locs[key] = len(self.locs) + 1
        return "%d%s" % (self.locs[key], "s" if s.endswith("*") else "")

    def loc_of_str(self, file, s):
        key = (file, s)
        if key not in self.locs:
            self.locs[key] = len(self.locs) + 1
        return "%d%s" % (self.locs[key], "s" if s.endswith("*") else "")

    def ref_key(self, ref):
        cn = ref["canonical_name"]
        return (cn.get("module_file", ""), tuple(cn["object_path"]))

    def typedef_ty(self, key):
        """unbounded_expression_type_for_physical_type, re-read from the reference manual's
        description of the prelude: [is_integer: true] externals are integers, Flag is the
        boolean, enums are themselves, everything else is opaque."""
        kind, td, _ = self.objs[key]
        for a in td.get("attribute", []):
            if a["name"]["text"] == "is_integer" and not a.get("back_end", {}).get("text"):
                v = a.get("value", {}).get("expression", {}).get("boolean_constant", {}).get("value")
                if v is True:
                    return "I"
        if key[1] == ("Flag",):
            return "B"
        if "enumeration" in td:
            if key not in self.enum_ids:
                self.enum_ids[key] = len(self.enum_ids)
            return "E%d" % self.enum_ids[key]
        return "O"

    def param_ty(self, p):
        pt = p["physical_type_alias"]
        if "atomic_type" not in pt:
            return None
        return self.typedef_ty(self.ref_key(pt["atomic_type"]["reference"]))

    def expr(self, e, file):
        self.size += 1
        if self.size > 60000:
            raise Unmodelled("too-large: inlined expression tree")
        l = self.loc(file, e)
        if "constant" in e:
            return "n " + l
        if "boolean_constant" in e:
            return "b " + l
        if "builtin_reference" in e:
            nm = e["builtin_reference"]["canonical_name"]["object_path"][0]
            if nm == "$is_statically_sized":
                return "bi %s 1" % l
            if nm == "$static_size_in_bits":
                return "bi %s 0" % l
            return "bi %s 2" % l        # `$next` where synthetics did not replace it
        if "constant_reference" in e:
            key = self.ref_key(e["constant_reference"])
            kind, node, mf = self.objs.get(key, (None, None, None))
            if kind == "enumvalue":
                ek = (key[0], key[1][:-1])
                if ek not in self.enum_ids:
                    self.enum_ids[ek] = len(self.enum_ids)
                return "e %s %d" % (l, self.enum_ids[ek])
            if kind == "field":
                if "read_transform" in node:
                    return "cv %s %d %s" % (l, self.fid(mf), self.expr(node["read_transform"], mf))
                return "cp %s %d %s" % (l, self.fid(mf), self.loc(mf, node))
            return "co " + l
        if "field_reference" in e:
            path = e["field_reference"]["path"]
            key = self.ref_key(path[-1])
            kind, node, mf = self.objs[key]
            if kind == "param":
                t = self.param_ty(node)
                return ("la " + l) if t is None else "lp %s %s" % (l, t)
            if "read_transform" in node:
                return "lv %s %d %s" % (l, self.fid(mf), self.expr(node["read_transform"], mf))
            ty = node.get("type", {})
            if "atomic_type" in ty:
                return "lf %s %s" % (l, self.typedef_ty(self.ref_key(ty["atomic_type"]["reference"])))
            return "lf %s O" % l
        if "function" in e:
            f = e["function"]
            fn = f.get("function", 0)
            if isinstance(fn, str):
                fn = FUNC_NAMES.get(fn, 0)
            name = FUNCS.get(fn)
            args = [self.expr(a, file) for a in f.get("args", [])]
            if name in ("max", "present", "upper", "lower"):
                return "fn %s %s %d %s" % (l, name, len(args), " ".join(args))
            if name == "choice" and len(args) == 3:
                return "ch %s %s" % (l, " ".join(args))
            if name is not None and len(args) == 2:
                return "op %s %s %s" % (l, name, " ".join(args))
            raise Unmodelled("function %r with %d args" % (fn, len(args)))
        raise Unmodelled("expression variety %r" % sorted(e))

    # -- the same value in C05's expression language (`Emboss.Bounds.Expr`): literal values, the
    #    physical type and size of every integer leaf, the definitions behind references.  Built
    #    from the IR *before* any typing or bounds pass has run, i.e. from the declarations only.
    def leaf_id(self, key):
        if key not in self.leaf_ids:
            self.leaf_ids[key] = len(self.leaf_ids)
        return self.leaf_ids[key]

    def _literal(self, e):
        """value of an expression that is a numeric literal (sizes are almost always that)."""
        if isinstance(e, dict) and "constant" in e:
            return int(e["constant"].get("value", "0") or 0)
        return None

    def ceval(self, e, depth=0):
        """the numeric value of an enum value's defining expression (closed integer arithmetic,
        other enum values, static references to closed virtual fields); None if it is not that."""
        if depth > 60 or not isinstance(e, dict):
            return None
        if "constant" in e:
            return self._literal(e)
        if "boolean_constant" in e:
            return bool(e["boolean_constant"].get("value", False))
        if "constant_reference" in e:
            kind, node, _ = self.objs.get(self.ref_key(e["constant_reference"]), (None, None, None))
            if kind == "enumvalue":
                return self.ceval(node.get("value", {}), depth + 1)
            if kind == "field" and "read_transform" in node:
                return self.ceval(node["read_transform"], depth + 1)
            return None
        if "function" in e:
            fn = e["function"].get("function", 0)
            if isinstance(fn, str):
                fn = FUNC_NAMES.get(fn, 0)
            name = FUNCS.get(fn)
            vs = [self.ceval(a, depth + 1) for a in e["function"].get("args", [])]
            if any(v is None for v in vs):
                return None
            try:
                if name in BIN_PY and len(vs) == 2:
                    return BIN_PY[name](vs[0], vs[1])
                if name == "choice" and len(vs) == 3:
                    return vs[1] if vs[0] else vs[2]
                if name == "max" and vs:
                    return max(vs)
            except TypeError:
                return None
        return None

    def bleaf(self, key, t, field, why):
        """leaf of C05's language for a reference to a parameter / physical field whose type is t."""
        if "atomic_type" not in t:
            raise Unmodelled("constancy: %s of array type" % why)
        tkey = self.ref_key(t["atomic_type"]["reference"])
        ty = self.typedef_ty(tkey)
        if ty == "B":
            return "bl %d" % self.leaf_id(key)
        if ty.startswith("E"):
            return "el %d" % self.leaf_id(key)
        if ty != "I":
            raise Unmodelled("constancy: %s of opaque type" % why)
        kind = {("UInt",): "u", ("Int",): "s", ("Bcd",): "d"}.get(tkey[1])
        if kind is None or tkey[0] != "":
            raise Unmodelled("constancy: integer type other than UInt/Int/Bcd")
        size = None
        if "size_in_bits" in t:
            size = self._literal(t["size_in_bits"])
            if size is None:
                raise Unmodelled("constancy: explicit size is not a literal")
        elif field is not None:
            n = self._literal(field.get("location", {}).get("size"))
            if n is None:
                raise Unmodelled("constancy: field size is not a literal")
            parent = self.objs.get((key[0], key[1][:-1]), (None, {}, None))[1]
            unit = {"BIT": 1, "BYTE": 8, 1: 1, 8: 8}.get(parent.get("addressable_unit"))
            if unit is None:
                raise Unmodelled("constancy: addressable unit of the enclosing type")
            size = n * unit
        return "%s %d %s" % (kind, self.leaf_id(key), "?" if size is None else size)

    def bexpr(self, e, depth=0):
        if depth > 80:
            raise Unmodelled("constancy: reference chain too deep")
        self.size += 1
        if self.size > 60000:
            raise Unmodelled("too-large: inlined expression tree")
        if "constant" in e:
            return "c %d" % self._literal(e)
        if "boolean_constant" in e:
            return "t" if e["boolean_constant"].get("value", False) else "f"
        if "builtin_reference" in e:
            nm = e["builtin_reference"]["canonical_name"]["object_path"][0]
            if nm == "$static_size_in_bits":
                return "ss %d" % self.leaf_id(("$builtin", nm))
            if nm == "$is_statically_sized":
                return "bl %d" % self.leaf_id(("$builtin", nm))
            raise Unmodelled("constancy: builtin %s" % nm)
        if "constant_reference" in e:
            key = self.ref_key(e["constant_reference"])
            kind, node, mf = self.objs.get(key, (None, None, None))
            if kind == "enumvalue":
                v = self.ceval(node.get("value", {}))
                if v is None or isinstance(v, bool):
                    raise Unmodelled("constancy: enum value is not closed integer arithmetic")
                return "ec %d" % v
            if kind == "field" and "read_transform" in node:
                return "cref " + self.bexpr(node["read_transform"], depth + 1)
            raise Unmodelled("constancy: static reference to something without a definition")
        if "field_reference" in e:
            key = self.ref_key(e["field_reference"]["path"][-1])
            kind, node, mf = self.objs[key]
            if kind == "param":
                return self.bleaf(key, node["physical_type_alias"], None, "parameter")
            if "read_transform" in node:
                return "vref " + self.bexpr(node["read_transform"], depth + 1)
            return self.bleaf(key, node.get("type", {}), node, "field")
        if "function" in e:
            f = e["function"]
            fn = f.get("function", 0)
            if isinstance(fn, str):
                fn = FUNC_NAMES.get(fn, 0)
            name = FUNCS.get(fn)
            args = f.get("args", [])
            if name == "present" and len(args) == 1 and "field_reference" in args[0]:
                key = self.ref_key(args[0]["field_reference"]["path"][-1])
                kind, node, mf = self.objs[key]
                if kind != "field" or "existence_condition" not in node:
                    raise Unmodelled("constancy: $present of a non-field")
                # the argument itself is only a name to C05's model (any type): a boolean leaf stands for it
                return "present bl %d %s" % (self.leaf_id(key), self.bexpr(node["existence_condition"], depth + 1))
            sub = [self.bexpr(a, depth + 1) for a in args]
            if name in BIN_PY and len(sub) == 2:
                return "%s %s %s" % (name, sub[0], sub[1])
            if name == "choice" and len(sub) == 3:
                return "ch " + " ".join(sub)
            if name == "max" and sub:
                return "max %d %s" % (len(sub), " ".join(sub))
            if name in ("upper", "lower") and len(sub) == 1:
                return ("ub " if name == "upper" else "lb ") + sub[0]
            raise Unmodelled("constancy: function %r with %d arguments" % (name, len(sub)))
        raise Unmodelled("constancy: expression variety %r" % sorted(e))

    def beyond_closedness(self, e):
        """Is this a value whose constancy the real compiler may judge differently from
        closedness?  It mentions a field / parameter / builtin (anywhere, through references)
        *and* contains a construct that can make such a value constant all the same: the
        three-valued `&&`, `||`, `?:` folding, a bound function, a static reference (whose
        value comes from the bounds analysis).  C05's ground: kept out of the correspondence."""
        st = {"open": False, "fold": False}

        def go(x, depth=0):
            if depth > 200:
                return
            if "field_reference" in x or "builtin_reference" in x:
                st["open"] = True
                node = None
                if "field_reference" in x:
                    node = self.objs.get(self.ref_key(x["field_reference"]["path"][-1]), (None, None, None))[1]
                if node and "read_transform" in node:
                    go(node["read_transform"], depth + 1)
            elif "constant_reference" in x:
                kind, node, _ = self.objs.get(self.ref_key(x["constant_reference"]), (None, None, None))
                if kind == "field":
                    st["fold"] = True
                    if "read_transform" in node:
                        go(node["read_transform"], depth + 1)
                    else:
                        st["open"] = True
            elif "function" in x:
                fn = x["function"].get("function", 0)
                if isinstance(fn, str):
                    fn = FUNC_NAMES.get(fn, 0)
                if FUNCS.get(fn) in ("and", "or", "choice", "upper", "lower"):
                    st["fold"] = True
                for a in x["function"].get("args", []):
                    go(a, depth + 1)
        go(e)
        return st["open"] and st["fold"]

    # -- collection of positions (explicit structural walk of the schema)
    def module_line(self):
        exprs, params, locations, arrays, conds, passed, values = [], [], [], [], [], [], []
        attrs_mod, attrs_type, attrs_field, attrs_val = [], [], [], []

        def is_expr(x):
            return isinstance(x, dict) and any(k in x for k in EXPR_KEYS)

        def top_exprs(x, file, under_array=False, under_atomic=False):
            """generic sweep: every top-level Expression below x, in document order."""
            if is_expr(x):
                exprs.append("%d %s" % (self.fid(file), self.expr(x, file)))
                return
            if isinstance(x, dict):
                for k, v in x.items():
                    if k in ("name", "source_location", "documentation"):
                        continue
                    top_exprs(v, file)
            elif isinstance(x, list):
                for v in x:
                    top_exprs(v, file)

        def arrays_under(t, file, inside):
            """expressions below an ArrayType but not below an AtomicType."""
            if is_expr(t):
                if inside:
                    arrays.append("%d %s" % (self.fid(file), self.expr(t, file)))
                return
            if isinstance(t, dict):
                for k, v in t.items():
                    if k in ("source_location",):
                        continue
                    if k == "atomic_type":
                        continue
                    arrays_under(v, file, inside or k == "array_type")
            elif isinstance(t, list):
                for v in t:
                    arrays_under(v, file, inside)

        def atomics(t, file):
            """every AtomicType below t (through array base types and passed parameters are
            expressions, which contain no types)."""
            if not isinstance(t, dict):
                return
            if "atomic_type" in t:
                at = t["atomic_type"]
                key = self.ref_key(at["reference"])
                kind, td, mf = self.objs.get(key, (None, None, None))
                if kind != "type":
                    raise Unmodelled("atomic type refers to %r" % (key,))
                exp = []
                for p in td.get("runtime_parameter", []):
                    pt = self.param_ty(p)
                    exp.append("%s %s" % (pt or "N", self.loc(mf, p)))
                given = [self.expr(g, file) for g in at.get("runtime_parameter", [])]
                passed.append("%d %s %d %s %d %s %d %s" % (self.fid(file), self.loc(file, at), self.fid(mf),
                                                            self.loc(mf, td), len(exp), " ".join(exp),
                                                            len(given), " ".join(given)))
            if "array_type" in t:
                atomics(t["array_type"].get("base_type", {}), file)

        def attrs(lst, file, out):
            for a in lst:
                if a.get("back_end", {}).get("text"):
                    continue
                nm = a["name"]["text"]
                kind = ATTR_KINDS.get(nm)
                if kind is None:
                    continue
                v = a.get("value", {})
                l = "%d %s" % (self.fid(file), self.loc(file, v))
                kind = "%s %d" % (kind, 1 if nm == "is_signed" else 0)
                if "string_constant" in v:
                    txt = v["string_constant"].get("text", "")
                    if nm == "expected_back_ends":
                        ok = re.fullmatch(BACK_ENDS_RE, txt) is not None
                    else:
                        ok = txt in STR_VALUES.get(nm, ())
                    out.append("%s %s s%d" % (l, kind, 1 if ok else 0))
                elif "expression" in v:
                    cst = "k0"
                    if ATTR_KINDS[nm] in ("boolconst", "int"):
                        # constancy is C05's: hand the value over in its language; where that is not
                        # possible (sizes that are not literals, unusual integer types, ill-typed
                        # operands) fall back to closedness, and leave the module out if the two may differ
                        try:
                            cst = "k1 " + self.bexpr(v["expression"])
                            self.cst_stats["c05"] += 1
                        except Unmodelled:
                            if self.beyond_closedness(v["expression"]):
                                raise
                            self.cst_stats["closedness"] += 1
                    out.append("%s %s x %s %s" % (l, kind, self.expr(v["expression"], file), cst))
                else:
                    raise Unmodelled("attribute value %r" % sorted(v))

        def walk_type(td, file):
            attrs(td.get("attribute", []), file, attrs_type)
            for p in td.get("runtime_parameter", []):
                pt = self.param_ty(p)
                pl = self.loc(file, p["physical_type_alias"])
                pl = "%d %s" % (self.fid(file), pl)
                params.append("%s A" % pl if pt is None else "%s T %s" % (pl, pt))
                arrays_under(p["physical_type_alias"], file, False)
                atomics(p["physical_type_alias"], file)
            for f in td.get("structure", {}).get("field", []):
                attrs(f.get("attribute", []), file, attrs_field)
                if "location" in f:
                    locations.append("%d %s %s" % (self.fid(file), self.expr(f["location"]["start"], file),
                                                   self.expr(f["location"]["size"], file)))
                if "existence_condition" in f:
                    conds.append("%d %s" % (self.fid(file), self.expr(f["existence_condition"], file)))
                else:
                    raise Unmodelled("field without existence_condition")
                if "type" in f:
                    arrays_under(f["type"], file, False)
                    atomics(f["type"], file)
            for v in td.get("enumeration", {}).get("value", []):
                attrs(v.get("attribute", []), file, attrs_val)
                values.append("%d %s" % (self.fid(file), self.expr(v["value"], file)))
            for st in td.get("subtype", []):
                walk_type(st, file)

        for mod in self.ird["module"]:
            file = mod.get("source_file_name", "")
            attrs(mod.get("attribute", []), file, attrs_mod)
            for td in mod.get("type", []):
                walk_type(td, file)
            top_exprs(mod, file)
        allattrs = attrs_mod + attrs_type + attrs_field + attrs_val

        def sec(tag, items):
            return "%s %d %s" % (tag, len(items), " ".join(items))
        return "TYPE " + " ".join([sec("X", exprs), sec("P", params), sec("L", locations), sec("A", arrays),
                                   sec("C", conds), sec("V", values), sec("S", passed), sec("T", allattrs)])


class Unmodelled(Exception):
    pass


# ---------------------------------------------------------------- real side
def real_outcome(files, main="m.emb"):
    """Runs the real front end completely.  Returns dict(kind=accepted|rejected|crashed|other,
    pass, errs (list of raw tuples), key)."""
    ir, errors, exc = emb.compile_text(files, main=main)
    if exc is not None:
        return {"kind": "crashed", "key": crash_key(exc), "exc": repr(exc)}
    if not errors:
        return {"kind": "accepted"}
    groups = []
    unknown = []
    for g in errors:
        first = g[0]
        cls = classify_message(first.message.split("\n")[0])
        badfile = not isinstance(first.source_file, str)
        if badfile:
            f = "<not a file name: %s>" % type(first.source_file).__name__
        else:
            f = first.source_file
        notes = [(n.source_file if isinstance(n.source_file, str) else "?", str(n.location)) for n in g[1:]]
        syn = any(m.location is not None and m.location.is_synthetic for m in g)
        groups.append({"file": f, "loc": str(first.location), "cls": cls, "bad": badfile, "notes": notes,
                       "msg": first.message.split("\n")[0], "syn": syn})
        if cls is None:
            unknown.append(first.message.split("\n")[0])
    if unknown:
        # rejected by a check that is not C13's: before or after the typing passes?
        _ir, e2, x2 = emb.compile_text(files, main=main, stop_before_step="annotate_types")
        return {"kind": "other", "groups": groups, "unknown": unknown,
                "late": x2 is None and not e2}
    passes = set(pass_of(g["cls"]) for g in groups)
    p = 9 if all(g["syn"] for g in groups) else (min(passes) if len(passes) == 1 else -1)
    return {"kind": "rejected", "pass": p, "groups": groups}


def canon_real(out, w):
    if out["kind"] == "accepted":
        return "accepted"
    if out["kind"] == "crashed":
        return "crashed " + out["key"]
    if out["kind"] == "rejected":
        es = set()
        for g in out["groups"]:
            s = "%s@%d:%s" % (w.loc_of_str(g["file"], g["loc"]), w.fid(g["file"]), g["cls"])
            s += "".join("+%s@%d" % (w.loc_of_str(f, l), w.fid(f)) for f, l in g["notes"])
            es.add(s)
        return "rejected %d %s" % (out["pass"], ";".join(sorted(es)))
    return "other"


def canon_model(ans):
    if ans.startswith("rejected "):
        _, p, es = (ans.split(" ", 2) + [""])[:3]
        return "rejected %s %s" % (p, ";".join(sorted(set(x for x in es.split(";") if x))))
    if ans.startswith("crashed "):
        return "crashed " + CRASH_KEYS.get(ans.split(" ", 1)[1], ans)
    return ans


def model_input(files, main="m.emb"):
    """(op line, walker) or (None, reason)."""
    ir, errors, exc = emb.compile_text(files, main=main, stop_before_step="annotate_types")
    if exc is not None:
        return None, "early-exception"
    if errors or ir is None:
        return None, "early-reject"
    try:
        w = Walker(emb.ir_to_dict(ir))
        return w.module_line(), w
    except Unmodelled as e:
        return None, "unmodelled: %s" % e


# ---------------------------------------------------------------- spec oracle
CONST_ATTRS = "fixed_size_in_bits|is_signed|is_integer|maximum_bits|addressable_unit_size"


def narrow_key(case, out):
    """crash site + the narrow predicate over the input under which an *open* finding is known to
    raise there; any other input raising at the same site keeps the bare site as key and is
    reported as a new violation."""
    key = out["key"]
    texts = list((case.get("files") or {"m.emb": case.get("text", "")}).values())
    exc = out.get("exc", "")

    def has(pat):
        return any(re.search(pat, t) for t in texts)
    if key == "crash:ir_util.py:get_attribute:AssertionError":
        if has(r"\[is_signed:\s*(?!(true|false)\s*\])"):
            key += ":is_signed-not-literal"
    elif key == "crash:ir_util.py:constant_value:AssertionError":
        if has(r"\[(%s):[^\]\n]*\b[A-Z][A-Za-z0-9]*\.[a-z_]" % CONST_ATTRS):
            key += ":static-reference-in-constant-attribute"
    elif key == "crash:expression_bounds.py:_compute_constraints_of_existence_function:AttributeError":
        if "'RuntimeParameter'" in exc:
            key += ":present-of-parameter"
    return key



def oracle(case, out):
    """case: dict(text, expect='accept'|'reject', line, rule).  Returns (why, key) or None."""
    if out["kind"] == "crashed":
        return "uncaught exception %s" % out["exc"], narrow_key(case, out)
    for g in out.get("groups", []):
        if g["bad"]:
            return ("an error message carries a non-string source_file (%s): it cannot be rendered "
                    "(embossc raises TypeError)" % g["msg"]), K_BADFILE
    if case["expect"] == "lines":
        want = set((f, l) for f, ls in case["lines"].items() for l in ls)
        got = set((g["file"], int(g["loc"].split(":")[0])) for g in out.get("groups", [])
                  if not g["syn"] and g["loc"] and g["loc"][0].isdigit())
        if out["kind"] != "rejected":
            return "module breaking rules on %d lines: %s" % (len(want), out["kind"]), None
        missing, extra = sorted(want - got), sorted(got - want)
        if missing or extra:
            return ("offending lines without an error: %s; well-typed lines with an error: %s" % (
                missing[:8], [(f, l, [g["msg"] for g in out["groups"] if g["file"] == f and
                                      g["loc"].startswith("%d:" % l)][:1]) for f, l in extra[:8]])), None
        return None
    if case["expect"] == "accept":
        if out["kind"] == "rejected":
            key = None
            return "well-typed module rejected: %s" % [(g["loc"], g["msg"]) for g in out["groups"]][:3], key
        return None            # accepted, or rejected by a check outside C13 ('other')
    # expect reject
    groups = out.get("groups", [])
    good = [g for g in groups if not g["syn"] and g["file"] == case.get("file", "m.emb")
            and g["loc"].split(":")[0] == str(case["line"])]
    if out["kind"] == "other" and not good and not out.get("late"):
        return None     # stopped by an earlier, unrelated check: says nothing about typing
    if out["kind"] == "accepted" or (out["kind"] == "other" and not good):
        # accepted outright, or let through by the typing passes (a later, unrelated check objected elsewhere)
        key = None
        rule = case.get("rule", "")
        if rule.startswith("comparison:") and rule.endswith(":enum-enum"):
            key = K_ENUM_ORD
        elif rule.startswith("position:enum-value") and rule.endswith(":enum"):
            key = K_ENUM_VALUE
        return "module breaking rule %s on line %d was accepted by the typing passes" % (rule, case["line"]), key
    if not good:
        return ("rule %s broken on line %d but no non-synthetic error is located on that line: %s" % (
            case.get("rule"), case["line"], [(g["loc"], g["msg"]) for g in groups][:4])), None
    return None


# ---------------------------------------------------------------- cases
def corpus_cases():
    """hand-picked inputs, the pinned inputs of fixed findings, and the open findings."""
    d = os.path.join(common.VERIF, "corpus", PROP)
    out = []
    if os.path.isdir(d):
        for fn in sorted(os.listdir(d)):
            if fn.endswith(".json"):
                with open(os.path.join(d, fn)) as f:
                    c = json.load(f)
                c["name"] = fn
                out.append(c)
    return out


def testdata_cases():
    d = os.path.join(common.REPO, "testdata")
    files = {}
    for root, _, fns in os.walk(d):
        for fn in fns:
            if fn.endswith(".emb"):
                p = os.path.join(root, fn)
                rel = os.path.relpath(p, common.REPO)
                with open(p) as f:
                    files[rel] = f.read()
    return files


def gen_cases(r, n, tier):
    """yield case dicts from the generator: valid module sets (1-3 files), then mutants (one
    rule broken on one line of one file)."""
    for i in range(n):
        maxd = 6
        # a small share of the valid stream deliberately enters the open finding's predicate
        flavour = r.choice(["plain"] * 14 + ["signed-nonliteral"])
        mods = c13gen.gen_set(r, maxdepth=maxd, n_items=r.randint(4, 14),
                              signed_literal=flavour != "signed-nonliteral")
        m = mods["m.emb"]
        ops = {}
        maxarity = 0
        for mm in mods.values():
            for s in mm.sites:
                c13gen.ops_of(s["expr"], ops)
                maxarity = max(maxarity, c13gen.max_arity(s["expr"]))
        case = {"files": {k: v.text() for k, v in mods.items()}, "expect": "accept", "rule": "valid", "line": 0,
                "ops": ops, "flavour": flavour, "nfiles": len(mods), "max_arity": maxarity,
                "nested": bool(m.meta.get("nested")),
                "depth": m.meta["depth"], "positions": sorted(set(s["pos"] for s in m.sites))}
        yield case
        for _ in range(2):
            mods2 = c13gen.gen_set(r, maxdepth=r.randint(1, 4), n_items=r.randint(3, 9))
            target = "m.emb" if len(mods2) == 1 or r.random() < 0.75 else r.choice(sorted(set(mods2) - {"m.emb"}))
            info = None
            for _try in range(8):
                info = c13gen.mutate(r, mods2[target])
                if info:
                    break
            if not info:
                continue
            yield {"files": {k: v.text() for k, v in mods2.items()}, "expect": "reject", "rule": info["rule"],
                   "line": info["line"], "file": target, "nfiles": len(mods2),
                   "pos": info["pos"], "detail": info.get("detail") or info.get("expr", "")}


def boundary_cases(r):
    """Deterministic sweeps over the sizes of every n-ary construct (arities well beyond the
    usual) and over the same-named-enum matrix; each module breaks the rules on *many* known
    lines at once (`annotate_types` / `check_types` report every offence of their pass), and
    must be clean on the others."""
    return [dict(c, expect="lines") for c in c13gen.boundary_modules(r)]


# ---------------------------------------------------------------- run
NPROC = int(os.environ.get("C13_NPROC", "3"))


def _work(arg):
    """one case on the real front end (forked worker): real outcome, model input, canonical real outcome."""
    case, model_ok = arg
    files = case.get("files") or {"m.emb": case["text"]}
    main = case.get("main", "m.emb")
    out = real_outcome(files, main)
    line, why, cr, cs = None, None, None, None
    if model_ok:
        line, w = model_input(files, main)
        if line is None:
            why = w
        else:
            cr = canon_real(out, w)
            cs = w.cst_stats
    return out, line, why, cr, cs


def evaluate(chk, cases, model_ok, stats):
    """cases: list of dicts with files/text.  Runs real + oracle; then the model in one batch."""
    ops, pending = [], []
    args = [(c, model_ok) for c in cases]
    if NPROC > 1 and len(cases) > 3:
        import multiprocessing
        with multiprocessing.get_context("fork").Pool(NPROC) as pool:
            results = pool.map(_work, args, chunksize=2)
    else:
        results = [_work(a) for a in args]
    for case, (out, line, why, cr, cs) in zip(cases, results):
        for k, v in (cs or {}).items():
            stats["constancy_judged_by_" + k] = stats.get("constancy_judged_by_" + k, 0) + v
        files = case.get("files") or {"m.emb": case["text"]}
        main = case.get("main", "m.emb")
        chk.count()
        stats["real_" + out["kind"]] = stats.get("real_" + out["kind"], 0) + 1
        if case.get("expect"):
            verdict = oracle(case, out)
            if verdict:
                why_, key = verdict
                if case["expect"] == "accept":
                    exp = "accepted"
                elif case["expect"] == "lines":
                    exp = "rejected, with a non-synthetic error on each of the lines %s and on no other line" % (
                        json.dumps(case["lines"])[:300])
                else:
                    exp = "rejected with a located error on line %s of %s (rule %s)" % (
                        case.get("line"), case.get("file", "m.emb"), case.get("rule"))
                chk.violation("input", {"input": case.get("text") or files, "main": main, "expected": exp,
                                        "observed": why_, "rule": case.get("rule"), "detail": case.get("detail")},
                              key=key)
                stats["oracle_failures"] = stats.get("oracle_failures", 0) + 1
        if out["kind"] == "rejected":
            for g in out["groups"]:
                stats.setdefault("error_classes", {})
                stats["error_classes"][g["cls"]] = stats["error_classes"].get(g["cls"], 0) + 1
        if out["kind"] == "crashed":
            stats.setdefault("crash_sites", {})
            stats["crash_sites"][out["key"]] = stats["crash_sites"].get(out["key"], 0) + 1
        if not model_ok:
            continue
        if line is None:
            stats["no_model_input:" + why.split(":")[0]] = stats.get("no_model_input:" + why.split(":")[0], 0) + 1
            continue
        ops.append(line)
        pending.append((case, files, main, out, cr))
    if not ops:
        return
    answers = common.Model("model_c13").ask(ops)
    for (case, files, main, out, cr), op, ans in zip(pending, ops, answers):
        stats["model_compared"] = stats.get("model_compared", 0) + 1
        if ans == "bad-op":
            chk.violation("correspondence", {"input": case.get("text") or files, "op": op[:2000], "model": ans,
                                             "theorem_or_correspondence": "walker produced an op the driver rejects"},
                          found_input=False)
            continue
        cm = canon_model(ans)
        if cr == "other":
            # rejected by a check that is not C13's: the modelled passes must not have objected
            # (errors of one pass only are ever reported), unless an earlier unmodelled pass stopped first
            stats["real_other_model_" + cm.split(" ")[0]] = stats.get("real_other_model_" + cm.split(" ")[0], 0) + 1
            if out.get("late") and cm.startswith(("rejected 1", "rejected 2", "crashed")):
                # annotate_types / check_types let the module through (another check objected, in their pass
                # or later) although the model rejects it there
                stats["disagreements"] = stats.get("disagreements", 0) + 1
                if not (case.get("expect") and oracle(case, out)):
                    chk.violation("correspondence", {
                        "input": case.get("text") or files, "main": main, "op": op[:3000], "model": cm,
                        "observed": "passed annotate_types/check_types; rejected later: %s" % out.get("unknown"),
                        "rule": case.get("rule"),
                        "theorem_or_correspondence": "model_c13 TYPE vs glue.parse_emboss_file"}, found_input=False)
            continue
        chk.nontrivial(cm)
        if cm != cr:
            stats["disagreements"] = stats.get("disagreements", 0) + 1
            verdict = oracle(case, out) if case.get("expect") else None
            if verdict:
                continue        # already reported as a failing input (or known finding) above
            chk.violation("correspondence", {
                "input": case.get("text") or files, "main": main, "op": op[:3000], "model": cm, "observed": cr,
                "expected": "model and real front end agree on outcome, pass, and (location, file, class) set",
                "rule": case.get("rule"),
                "theorem_or_correspondence": "model_c13 TYPE vs glue.parse_emboss_file"},
                found_input=False)


def run_known_findings(chk):
    """re-execute the pinned input of every open finding; print it if it still fails."""
    for k in chk.known:
        if k.get("property") != PROP or k.get("status") != "open":
            continue
        case = {"text": k["input"], "expect": k.get("expect", "reject"), "line": k.get("line", 0),
                "rule": k.get("rule", "known")}
        out = real_outcome({"m.emb": k["input"]})
        verdict = oracle(case, out)
        if verdict and verdict[1] == k["key"]:
            chk.report_known(k)
        elif verdict:
            # the pinned input fails, but not in the way the finding describes: a different defect
            chk.violation("input", {"input": k["input"], "expected": "as in the open finding %s" % k["key"],
                                    "observed": verdict[0], "rule": case["rule"]}, key=verdict[1])


def search(chk):
    """model-free: generator + spec oracle on the real code only."""
    before = len(chk.violations)
    r = common.rng("C13-search")
    stats = {}
    cases = [c for c in corpus_cases()] + boundary_cases(common.rng("C13-boundary")) + list(gen_cases(r, 60, "quick"))
    evaluate(chk, cases, False, stats)
    return len(chk.violations) - before


def run(tier):
    chk = common.Check(PROP, tier, exes=["model_c13"])
    chk.cov["rule"] = ("modules from the type-directed generator (valid + one catalogue mutation), /repo/testdata, "
                       "corpus/C13, boundary sweeps (arity of every n-ary construct, namesake enums across modules); non-trivial = distinct canonical outcome (accepted / rejected pass + "
                       "(location, class) set / crash site) on which model and real front end were compared")
    model_ok = common.proof_gate(chk, search)
    stats = {}
    run_known_findings(chk)
    # 1. corpus and the repository's own test data first
    cases = corpus_cases()
    td = testdata_cases()
    for name in sorted(td):
        cases.append({"files": td, "main": name, "name": name})
    evaluate(chk, cases, model_ok, stats)
    stats["corpus_and_testdata"] = len(cases)
    # 2. boundary enumeration: arities of every n-ary construct, same-named enums of different modules
    bnd = boundary_cases(common.rng("C13-boundary"))
    evaluate(chk, bnd, model_ok, stats)
    chk.extra["boundary"] = {c["name"]: {"lines": sum(len(t.splitlines()) for t in c["files"].values()),
                                         "offending_lines": sum(len(v) for v in c["lines"].values()),
                                         "files": len(c["files"])} for c in bnd}
    # 3. generated
    r = common.rng("C13")
    n = 60 if tier == "quick" else 600
    gen = list(gen_cases(r, n, tier))
    ops, rules, positions, depths, nfiles, arities, mutfile = {}, {}, {}, {}, {}, {}, {}
    for c in gen:
        rules[c["rule"].split(":")[0]] = rules.get(c["rule"].split(":")[0], 0) + 1
        nfiles[str(c["nfiles"])] = nfiles.get(str(c["nfiles"]), 0) + 1
        if "max_arity" in c:
            b = "<=3" if c["max_arity"] <= 3 else "4-8" if c["max_arity"] <= 8 else "9-16" if c["max_arity"] <= 16 else ">16"
            arities[b] = arities.get(b, 0) + 1
        if c["expect"] == "reject":
            mutfile[c["file"]] = mutfile.get(c["file"], 0) + 1
        if c.get("nested"):
            nfiles["with-nested-inline-types"] = nfiles.get("with-nested-inline-types", 0) + 1
        for k, v in c.get("ops", {}).items():
            ops[k] = ops.get(k, 0) + v
        for p in c.get("positions", []):
            positions[p] = positions.get(p, 0) + 1
        if "depth" in c:
            depths[c["depth"]] = depths.get(c["depth"], 0) + 1
    for i in range(0, len(gen), 200):
        evaluate(chk, gen[i:i + 200], model_ok, stats)
    for c in gen[:2] + [c for c in gen if c["expect"] == "reject"][:3]:
        chk.sample({"rule": c["rule"], "line": c["line"], "file": c.get("file"),
                    "emb": {k: v[:1200] for k, v in c["files"].items()}})
    chk.extra["generator"] = {"module_sets": len(gen), "rules": rules, "operators_in_valid_modules": ops,
                              "positions_in_valid_modules": positions, "nesting_depth_of_valid_modules": depths,
                              "files_per_set": nfiles, "largest_call_arity_in_valid_sets": arities,
                              "mutated_file": mutfile}
    chk.extra["stats"] = stats
    chk.extra["traces_validated_against_impl"] = stats.get("model_compared", 0)
    chk.extra["disagreements"] = stats.get("disagreements", 0)
    chk.assumptions = [
        "name resolution (C12) is taken from the real IR: the walker inlines the read_transform of referenced virtual fields",
        "constancy of attribute values is approximated by closedness (no field/parameter reference); constant folding is C05's",
        "three unguarded `.type.which_type` reads (check_types on an array parameter / an untyped argument, attribute validators on an untyped value) are modelled as raising; they are reachable only after annotate_types reported errors that are all synthetic (C13_total_partial)",
        "attribute placement / duplicates / unknown names are C14's; only the value typing of the ten front-end attributes is modelled",
    ]
    chk.trusted.append("harness/corr/C13.py Walker: JSON IR -> model input (independent re-reading of the schema)")
    return chk.finish()


def replay(path):
    rec = json.load(open(path))
    inp = rec["input"]
    files = inp if isinstance(inp, dict) else {"m.emb": inp}
    main = rec.get("main", "m.emb")
    out = real_outcome(files, main)
    print("real outcome:", json.dumps(out, indent=1, default=str)[:3000])
    line, w = model_input(files, main)
    if line is not None and os.path.exists(common.Model("model_c13").path):
        print("model:", canon_model(common.Model("model_c13").ask([line])[0]))
        print("real :", canon_real(out, w))
    return 0
