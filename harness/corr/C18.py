"""C18 — the IR survives serialization; split and in-process pipelines agree.

Tie T: `harness/translate/irschema.py` re-extracts the IR schema from the current
`ir_data.py` into `lean/Emboss/Generated/IrSchema.lean`; `SchemaOk schema` is re-proved by
`decide +kernel` (Emboss/Generated/IrSchemaOk.lean), and `C18_roundtrip_ir` instantiates
the generic theorem with it.

Tie C, on every message explored (IRs of /repo/testdata/*.emb through the real file reader,
feature modules, random modules, IRs stopped before each front-end step, random synthetic
messages built from the schema as *real* `ir_data` objects):
  (a) real `to_json()` text  ==  model `toJson` of the same message, the message being
      handed to the model through a neutral dump written here by walking the dataclass
      (never through `to_json`); the model must also find it well-formed (`WfMsg`);
  (b) spec oracle: real `from_json(to_json(m)) == m` (dataclass `==`) and the neutral dumps
      (field-wise set/unset, exact types) are identical;
  (c) second `to_json` byte-identical;
  (d) `emboss_front_end --output-file ir.json` + `emboss_codegen_cpp --input-file ir.json`
      (separate processes, never sharing the in-memory IR) vs `embossc`: byte-identical header;
      plus in-process `generate_header(ir)` vs `generate_header(from_json(to_json(ir)))`;
  (e) model `fromDict` of the real JSON  ==  neutral dump of the real `from_json` result;
      a malformed-dict stream (unknown keys, nulls, enum by name / out of range, two oneof
      members, type confusion, location strings) must agree wherever the model decodes;
  (f) `has_field` answers, real vs model;
  (g) `SourceLocation.__str__`/`from_str`: boundary enumeration + random strings.
"""
import enum
import glob
import importlib.machinery
import importlib.util
import json
import os
import subprocess
import sys
import time
from concurrent.futures import ThreadPoolExecutor

from harness.lib import common
from harness.translate import irschema

from compiler.back_end.cpp import header_generator
from compiler.front_end import emboss_front_end
from compiler.front_end import glue
from compiler.util import ir_data
from compiler.util import ir_data_fields
from compiler.util import ir_data_utils
from compiler.util import parser_types
from compiler.util import test_util

PROP = "C18"
SER = ir_data_utils.IrDataSerializer
CORPUS = os.path.join(common.VERIF, "corpus", PROP)
MAX_WORKERS = 3


# ------------------------------------------------------------------ neutral dump
def neutral(v):
    """Tagged dump of a real value, by *actual Python type*, walking the dataclass with
    field_specs and getattr (never through to_dict/to_json)."""
    if v is None:
        return None
    if isinstance(v, bool):
        return {"b": v}
    if isinstance(v, enum.Enum):
        return {"e": str(int(v.value))}
    if isinstance(v, int):
        return {"i": str(v)}
    if isinstance(v, str):
        return {"s": v}
    if isinstance(v, parser_types.SourceLocation):
        return {"o": "%d %d %d %d %d %d" % (v.start.line, v.start.column, v.end.line, v.end.column,
                                            1 if v.is_disjoint_from_parent else 0,
                                            1 if v.is_synthetic else 0)}
    if isinstance(v, list):
        return {"l": [neutral(x) for x in v]}
    if hasattr(type(v), "IR_DATACLASS"):
        fs = []
        for n, spec in ir_data_fields.field_specs(type(v)).items():
            x = getattr(v, n)
            if spec.is_enum and type(x) is int:
                # `Message.__setattr__` admits a plain int in an enum field; it compares equal
                # to the member (int-enum) and is serialised identically
                fs.append({"e": str(x)})
            else:
                fs.append(neutral(x))
        return {"m": type(v).__name__, "f": fs}
    return {"x": "%s:%r" % (type(v).__name__, v)}     # a type the IR schema does not have


def from_neutral(n):
    """Rebuild a real object from a neutral dump (replay of synthetic messages)."""
    if n is None:
        return None
    if "b" in n:
        return n["b"]
    if "i" in n:
        return int(n["i"])
    if "s" in n:
        return n["s"]
    if "e" in n:
        return int(n["e"])          # raw int; the constructor accepts it for enum fields
    if "o" in n:
        sl, sc, el, ec, d, y = [int(x) for x in n["o"].split()]
        return parser_types.SourceLocation((sl, sc), (el, ec), is_disjoint_from_parent=bool(d),
                                           is_synthetic=bool(y))
    if "l" in n:
        return [from_neutral(x) for x in n["l"]]
    cls = getattr(ir_data, n["m"])
    kw = {}
    for name, x in zip(ir_data_fields.field_specs(cls), n["f"]):
        val = from_neutral(x)
        if val is not None:
            spec = ir_data_fields.field_specs(cls)[name]
            if spec.is_enum and not spec.is_sequence:
                val = spec.data_type(val)
            kw[name] = val
    return cls(**kw)


def ndump(n):
    return json.dumps(n, ensure_ascii=False, separators=(",", ":"))


def ndump_ascii(n):
    return json.dumps(n, ensure_ascii=True, separators=(", ", ": "))


# ------------------------------------------------------------------ spec oracle (real code only)
LAST = {}   # parts of the last oracle() evaluation, reused by the caller (same object only)


def oracle(obj):
    """The property statement on the real code for one message: returns None if it
    holds, else a description.  No model involved."""
    cls = type(obj)
    try:
        j1 = SER(obj).to_json()
    except Exception as e:  # noqa: BLE001
        return "to_json raised %r" % (e,)
    try:
        back = SER.from_json(cls, j1)
    except Exception as e:  # noqa: BLE001
        return "from_json(to_json(m)) raised %r" % (e,)
    if not (back == obj):
        return "from_json(to_json(m)) != m (dataclass ==)"
    n0, n1 = neutral(obj), neutral(back)
    LAST.update(obj=obj, json=j1, neutral=n0, back_neutral=n1, back=back)
    if n0 != n1:
        return "set/unset or type of some field differs after the round trip: " + first_diff(n0, n1)
    for name in ir_data_fields.field_specs(cls):
        if obj.has_field(name) != back.has_field(name):
            return "has_field(%s) differs" % name
    w0, w1 = whiches(obj), whiches(back)
    if w0 != w1:
        k = next((i for i in range(min(len(w0), len(w1))) if w0[i] != w1[i]), min(len(w0), len(w1)))
        return "which_<oneof> differs after the round trip: %r vs %r" % (w0[k:k + 1], w1[k:k + 1])
    j2 = SER(back).to_json()
    if j2 != j1:
        return "second to_json differs from the first"
    return None


_GROUPS = {}


def oneof_groups(cls):
    if cls not in _GROUPS:
        gs = []
        for spec in ir_data_fields.field_specs(cls).values():
            if spec.oneof and spec.oneof not in gs:
                gs.append(spec.oneof)
        _GROUPS[cls] = gs
    return _GROUPS[cls]


def whiches(obj):
    """`which_<group>` of every node, in traversal order (the back end dispatches on it)."""
    out = []
    stack = [obj]
    while stack:
        o = stack.pop()
        cls = type(o)
        for g in oneof_groups(cls):
            out.append((cls.__name__, g, getattr(o, "which_" + g)))
        for name, spec in ir_data_fields.field_specs(cls).items():
            if spec.is_dataclass:
                v = getattr(o, name)
                if v is None:
                    continue
                if spec.is_sequence:
                    stack.extend(x for x in v if hasattr(type(x), "IR_DATACLASS"))
                elif hasattr(type(v), "IR_DATACLASS"):
                    stack.append(v)
    return out


def first_diff(a, b, path="$"):
    if type(a) is not type(b):
        return "%s: %r vs %r" % (path, short(a), short(b))
    if isinstance(a, dict):
        if set(a) != set(b):
            return "%s: tags %s vs %s" % (path, sorted(a), sorted(b))
        for k in a:
            d = first_diff(a[k], b[k], path + "." + k)
            if d:
                return d
        return ""
    if isinstance(a, list):
        if len(a) != len(b):
            return "%s: length %d vs %d" % (path, len(a), len(b))
        for i, (x, y) in enumerate(zip(a, b)):
            d = first_diff(x, y, "%s[%d]" % (path, i))
            if d:
                return d
        return ""
    return "" if a == b else "%s: %r vs %r" % (path, short(a), short(b))


def short(x):
    s = repr(x)
    return s if len(s) < 120 else s[:117] + "..."


def header_oracle(ir):
    """In-process half of (d): header of the in-memory IR vs header of the re-read IR."""
    h1, e1 = header_generator.generate_header(ir)
    if LAST.get("obj") is ir:
        back = LAST["back"]
    else:
        back = SER.from_json(ir_data.EmbossIr, SER(ir).to_json())
    h2, e2 = header_generator.generate_header(back)
    if bool(e1) != bool(e2):
        return "back end errors differ: %d vs %d" % (len(e1), len(e2))
    if h1 != h2:
        return "generate_header(ir) != generate_header(from_json(to_json(ir)))"
    return None


# ------------------------------------------------------------------ front end
def repo_reader(import_dirs):
    return emboss_front_end._find_in_dirs_and_read(import_dirs)  # the real file reader


def compile_files(files, main, stop_before_step=None):
    kw = {}
    if stop_before_step:
        kw["stop_before_step"] = stop_before_step
    try:
        ir, _dbg, errors = glue.parse_emboss_file(main, test_util.dict_file_reader(files), **kw)
        return ir, errors, None
    except Exception as e:  # noqa: BLE001
        return None, [], e


FEATURE_MODULES = {
    "feat_all_nodes.emb": '''-- Module documentation line one.
-- Second line with "quotes", a \\\\ backslash and unicode: é ü 😀 ∀.
import "feat_imported.emb" as imp

[$default byte_order: "LittleEndian"]
[(cpp) namespace: "c18::feat"]
[(cpp) $default enum_case: "kCamelCase"]

enum Big:
  -- enum documentation
  [maximum_bits: 64]
  ZERO = 0
  MAX64 = 18446744073709551615  -- inline doc
  MID = 9223372036854775808  [(cpp) enum_case: "SHOUTY_CASE, kCamelCase"]

enum Neg:
  [is_signed: true]
  MIN = -9223372036854775808
  MINUS_ONE = -1
  PLUS = 9223372036854775807

bits Flags:
  0 [+1] Flag a
  1 [+3] UInt b
  4 [+4] Int c

struct Inner(n: UInt:8, e: Big):
  [requires: n < 200]
  0 [+1] UInt x
    [requires: this <= 250]
  1 [+n] UInt:8[] payload
  if e == Big.ZERO:
    1+n [+2] UInt tail

struct Outer:
  -- struct documentation
  [requires: len >= 1 && len <= 32]
  0 [+1] UInt len (l)
    -- field documentation
    [text_output: "Emit"]
  1 [+8] Big big
  9 [+8] Neg neg
  17 [+1] Flags flags
  18 [+len+3] Inner(len, big) inner
  let size_plus = len * 4 + 3 - 1
  let wide = 18446744073709551615 + 0
  let choice = len > 3 ? 1 : 2
  let m = $max(len, 7, 250)
  let has = $present(inner)
  let ub = $upper_bound(len)
  let lb = $lower_bound(len)
  let cmp = (len == 3 || len != 4) && len < 5 && len <= 6 && len > 0 && len >= 1
  let alias = len
  let is_zero = big == Big.ZERO
  let k = imp.Remote.answer
  if len == 1:
    30 [+4] UInt:8[4] four
  $next [+2] imp.Remote remote
  $next [+4] Float f
  $next [+2] bits:
    0 [+4] UInt lo
    4 [+12] UInt hi
  $next [+1] enum small:
    AA = 1
    BB = 2
  $next [+2] struct pair:
    0 [+1] UInt p0
    1 [+1] UInt p1
  60 [+12] UInt:8[2][3][2] grid
  80 [+4] UInt:32 explicit_size
  84 [+2] Int:8[2] ints
''',
    "feat_imported.emb": '''[$default byte_order: "BigEndian"]
[(cpp) namespace: "c18::imported"]
struct Remote:
  let answer = 42
  0 [+2] UInt value
''',
    "feat_external.emb": '''-- externals, addressable units, empty lists
[(cpp) namespace: "c18::ext"]
external Widget:
  -- external documentation
  [static_requirements: $is_statically_sized && $static_size_in_bits == 8]
  [addressable_unit_size: 8]
struct Empty:
  -- a structure without fields: `field` is an empty list
enum OnlyDoc:
  -- an enum with one value
  VV = 1
''',
    "feat_empty.emb": '''''',
    "feat_bigint.emb": '''[$default byte_order: "LittleEndian"]
struct Wide:
  0 [+8] UInt a
  8 [+8] UInt b
  16 [+8] Int c
  let s = a + b
  let d = a - b
  let p = (a + 0) * 1
  let q = c - 9223372036854775807
  let big_const = 18446744073709551615
  let t = a * 4294967296 * 4294967296 * 4294967296
  let bigger = 18446744073709551615 + 18446744073709551615
  let huge = 340282366920938463463374607431768211456 - 340282366920938463463374607431768211455
  let prod = 4294967296 * 4294967296 * 4294967296
  let neg = -170141183460469231731687303715884105728 + 170141183460469231731687303715884105729
''',
}
FEATURE_MODULES["feat_int64_edges.emb"] = '''[$default byte_order: "LittleEndian"]
struct Edges:
  0 [+8] UInt a
  8 [+8] Int c
  let umax = 18446744073709551615
  let imin = -9223372036854775808
  let imax = 9223372036854775807
  let is_max = a == 18446744073709551615
  let is_min = c == -9223372036854775808
'''
FEATURE_MAINS = ["feat_all_nodes.emb", "feat_imported.emb", "feat_external.emb", "feat_empty.emb",
                 "feat_int64_edges.emb"]
# rejected by check_constraints (values beyond 64 bits); only its IR before that step is used
PARTIAL_ONLY = {"feat_bigint.emb": "check_constraints"}


def gen_module(r, idx):
    """Random, mostly-valid module: enums (big / negative values, enum_case attributes),
    bits, structs with parameters, conditionals, virtual fields, arrays, docs, attributes."""
    L = []
    feats = set()
    if r.random() < 0.6:
        L.append("-- generated module %d %s" % (idx, r.choice(["", "\"q\"", "é😀", "tab\\there", "a\\\\b"])))
        feats.add("module-doc")
    L.append('[$default byte_order: "%s"]' % r.choice(["LittleEndian", "BigEndian"]))
    if r.random() < 0.7:
        L.append('[(cpp) namespace: "%s"]' % r.choice(["g::m%d" % idx, "::abs::m%d" % idx, "m%d" % idx]))
        feats.add("cpp-namespace")
    if r.random() < 0.3:
        L.append('[(cpp) $default enum_case: "%s"]' % r.choice(["kCamelCase", "SHOUTY_CASE", "SHOUTY_CASE, kCamelCase"]))
        feats.add("default-enum_case")
    n_enum = r.randint(0, 2)
    enums = []
    for e in range(n_enum):
        name = "En%d" % e
        signed = r.random() < 0.3
        L.append("enum %s:" % name)
        if r.random() < 0.4:
            L.append("  -- doc of %s" % name)
        if signed:
            L.append("  [is_signed: true]")
            feats.add("signed-enum")
        maxbits = 64
        if r.random() < 0.3 and not signed:
            maxbits = r.choice([64, 32, 16])
            L.append("  [maximum_bits: %d]" % maxbits)
        vals = set()
        names = []
        for k in range(r.randint(1, 4)):
            if signed:
                v = r.choice([-1, -(2 ** 63), 2 ** 63 - 1, -r.randint(0, 1000), r.randint(0, 1000)])
            else:
                v = r.choice([0, 1, 2 ** 64 - 1, 2 ** 63, 2 ** 32, r.randint(0, 65535)])
                if v >= 2 ** maxbits:
                    v = v % 2 ** maxbits
            if v in vals:
                continue
            vals.add(v)
            vn = "V%d_%d" % (e, k)
            names.append(vn)
            line = "  %s = %d" % (vn, v)
            if r.random() < 0.25:
                line += '  [(cpp) enum_case: "%s"]' % r.choice(["kCamelCase", "SHOUTY_CASE"])
                feats.add("value-enum_case")
            if r.random() < 0.2:
                line += "  -- value doc"
            L.append(line)
        enums.append((name, names, maxbits))
        if any(abs(v) >= 2 ** 63 for v in vals):
            feats.add("enum-64bit-value")
    for s in range(r.randint(1, 3)):
        params = []
        if r.random() < 0.3:
            params = ["p%d" % i for i in range(r.randint(1, 2))]
            feats.add("parameters")
        head = "struct St%d%s:" % (s, "(" + ", ".join("%s: UInt:8" % p for p in params) + ")" if params else "")
        L.append(head)
        if r.random() < 0.3:
            L.append("  -- struct doc %s" % r.choice(["plain", "ünï", "\"dq\""]))
        off = 0
        fields = []
        for fi in range(r.randint(1, 6)):
            kind = r.choice(["uint", "uint", "int", "enum", "array", "cond", "let", "let", "bits", "flag-let",
                             "bcd", "next", "float", "abbr"])
            nm = "f%d" % fi
            if kind == "uint":
                w = r.choice([1, 2, 4, 8])
                L.append("  %d [+%d] UInt %s" % (off, w, nm))
                off += w
                fields.append(nm)
            elif kind == "abbr":
                L.append("  %d [+1] UInt %s (a%d)" % (off, nm, fi))
                off += 1
                fields.append(nm)
                feats.add("abbreviation")
            elif kind == "int":
                w = r.choice([1, 2, 4, 8])
                L.append("  %d [+%d] Int %s" % (off, w, nm))
                if r.random() < 0.3:
                    L.append("    [requires: this >= -%d]" % r.randint(1, 100))
                    feats.add("field-requires")
                off += w
                fields.append(nm)
            elif kind == "bcd":
                L.append("  %d [+2] Bcd %s" % (off, nm))
                off += 2
                fields.append(nm)
            elif kind == "float":
                L.append("  %d [+4] Float %s" % (off, nm))
                off += 4
            elif kind == "enum" and enums:
                en, _, mb = r.choice(enums)
                L.append("  %d [+%d] %s %s" % (off, mb // 8, en, nm))
                off += mb // 8
                feats.add("enum-field")
            elif kind == "array":
                n = r.randint(1, 4)
                L.append("  %d [+%d] UInt:8[%d] %s" % (off, n, n, nm))
                off += n
                feats.add("array")
            elif kind == "cond" and fields:
                L.append("  if %s %s %d:" % (r.choice(fields), r.choice(["==", "<", ">=", "!="]), r.randint(0, 9)))
                L.append("    %d [+1] UInt %s" % (off, nm))
                off += 1
                feats.add("conditional")
            elif kind == "let" and (fields or params):
                a = r.choice(fields + params)
                b = r.choice(fields + params)
                c = r.choice([0, 1, 7, 255, 2 ** 32, 2 ** 64 - 1, 2 ** 70])
                expr = r.choice(["%s + %d" % (a, c % 1000), "%s * %d" % (a, 1 + c % 5), "%s - %s" % (a, b),
                                 "$max(%s, %s)" % (a, b), "%s > %s ? %s : %s" % (a, b, a, b),
                                 "%d + %d - %d" % (c, c, c), "%s" % a])
                L.append("  let %s = %s" % (nm, expr))
                feats.add("virtual")
                if c >= 2 ** 64 and "%d" % c in expr:
                    feats.add("const>=2^64")
            elif kind == "flag-let" and fields:
                a = r.choice(fields)
                L.append("  let %s = %s == %d || (%s < 2 && true)" % (nm, a, r.randint(0, 5), a))
                feats.add("boolean-virtual")
            elif kind == "bits":
                L.append("  %d [+2] bits:" % off)
                L.append("    0 [+3] UInt b%d_lo" % fi)
                L.append("    3 [+1] Flag b%d_fl" % fi)
                L.append("    4 [+12] UInt b%d_hi" % fi)
                off += 2
                feats.add("anonymous-bits")
            elif kind == "next" and off > 0:
                L.append("  $next [+1] UInt %s" % nm)
                feats.add("$next")
                off += 1
                fields.append(nm)
            else:
                L.append("  %d [+1] UInt %s" % (off, nm))
                off += 1
                fields.append(nm)
            if r.random() < 0.25 and L[-1].lstrip()[:1].isdigit() and L[-1].startswith("  ") and not L[-1].startswith("   ") and "bits:" not in L[-1]:
                L.append("    -- field doc")
                feats.add("field-doc")
    return "\n".join(L) + "\n", feats


# names of glue.process_ir passes (an unknown name only makes that stop point a no-op here)
STEPS = ["desugar", "resolve_symbols", "set_dependency_order", "annotate_types", "compute_constants",
         "normalize_and_verify", "check_constraints", "set_write_methods"]


# ------------------------------------------------------------------ synthetic messages
ODD_STRINGS = ["", "0", "x", "False", "null", "a b", "\"", "\\", "\"\\\"", "\n", "\r\n", "\t", "\b\f", "\x00",
               "\x1f", "\x7f", "\x80", "é", "ü€", "  ", "😀", "\U0010ffff", "á", "{}", "[1]",
               "</script>", "\\u0041", "18446744073709551616", "-170141183460469231731687303715884105728",
               "340282366920938463463374607431768211456", "0:0-0:0", "x" * 300, "\\n", "'", "﻿", "�",
               "infinity", "-infinity"]


def rand_str(r):
    k = r.random()
    if k < 0.55:
        return r.choice(ODD_STRINGS)
    if k < 0.7:
        return str(r.choice([1, -1]) * r.getrandbits(r.choice([8, 64, 65, 128, 300])))
    n = r.randint(0, 12)
    return "".join(chr(r.choice([r.randint(32, 126), r.randint(0, 31), r.randint(127, 0x2ff),
                                 r.randint(0x3000, 0xd7ff), r.randint(0xe000, 0xffff),
                                 r.randint(0x10000, 0x10ffff)])) for _ in range(n))


def rand_int(r):
    k = r.random()
    if k < 0.3:
        return r.randint(0, 20)
    if k < 0.5:
        return r.choice([0, -1, 2 ** 63, 2 ** 64, -(2 ** 63) - 1, 2 ** 64 - 1, 2 ** 53 + 1, 10 ** 30])
    return r.choice([1, -1]) * r.getrandbits(r.choice([31, 64, 65, 127, 128, 1000]))


def rand_loc(r):
    k = r.random()
    if k < 0.2:
        s = e = (0, 0)
    else:
        big = r.random() < 0.1
        hi = 10 ** 25 if big else 400
        sl, sc = r.randint(1, hi), r.randint(1, hi)
        if r.random() < 0.4:
            el, ec = sl, sc + r.randint(0, 50)
        else:
            el, ec = sl + r.randint(1, 30), r.randint(1, hi)
        s, e = (sl, sc), (el, ec)
    return parser_types.SourceLocation(s, e, is_disjoint_from_parent=r.random() < 0.35,
                                       is_synthetic=r.random() < 0.35)


def rand_single(r, spec, depth, stats):
    t = spec.data_type
    if spec.is_dataclass:
        return rand_msg(r, t, depth - 1, stats)
    if t is parser_types.SourceLocation:
        stats["loc"] = stats.get("loc", 0) + 1
        return rand_loc(r)
    if spec.is_enum:
        stats["enum"] = stats.get("enum", 0) + 1
        m = r.choice(list(t))
        return m if r.random() < 0.8 else int(m.value)   # a raw int is accepted by __setattr__
    if t is bool:
        stats["bool"] = stats.get("bool", 0) + 1
        return r.random() < 0.5
    if t is int:
        stats["int"] = stats.get("int", 0) + 1
        return rand_int(r)
    if t is str:
        stats["str"] = stats.get("str", 0) + 1
        return rand_str(r)
    raise common.InfraError("schema has a field type the synthetic generator does not know: %r" % (t,))


def rand_msg(r, cls, depth, stats):
    """A random *real* instance of an IR class: every field kind, at most one member per
    oneof group, lists of length 0..3, unset vs falsy-but-set values."""
    specs = ir_data_fields.field_specs(cls)
    groups = {}
    for name, spec in specs.items():
        if spec.oneof:
            groups.setdefault(spec.oneof, []).append(name)
    chosen = {}
    for g, names in groups.items():
        chosen[g] = r.choice(names + [None])
    kw = {}
    later = {}
    for name, spec in specs.items():
        if spec.oneof:
            if chosen[spec.oneof] != name:
                continue
            stats["oneof:%s.%s" % (cls.__name__, name)] = stats.get("oneof:%s.%s" % (cls.__name__, name), 0) + 1
            if depth <= 0 and spec.is_dataclass:
                v = spec.data_type()
            else:
                v = rand_single(r, spec, depth, stats)
        elif spec.container is ir_data_fields.FieldContainer.LIST:
            n = 0 if depth <= 0 and spec.is_dataclass else r.choice([0, 0, 1, 2, 3])
            v = [rand_single(r, spec, depth, stats) for _ in range(n)]
            if n == 0:
                stats["empty-list"] = stats.get("empty-list", 0) + 1
                if r.random() < 0.5:
                    continue            # left to the default factory
        elif spec.container is ir_data_fields.FieldContainer.OPTIONAL:
            if r.random() < 0.45 or (depth <= 0 and spec.is_dataclass):
                stats["unset"] = stats.get("unset", 0) + 1
                if r.random() < 0.3:
                    (later if r.random() < 0.5 else kw)[name] = None     # explicitly None
                    stats["explicit-None"] = stats.get("explicit-None", 0) + 1
                continue
            v = rand_single(r, spec, depth, stats)
        else:   # NONE container
            if r.random() < 0.3:
                continue
            v = rand_single(r, spec, depth, stats)
        if r.random() < 0.25:
            later[name] = v             # assigned after construction (setattr path)
        else:
            kw[name] = v
    obj = cls(**kw)
    for name, v in later.items():
        setattr(obj, name, v)
    # exercise the oneof setter: set a sibling first, then the chosen member
    for g, names in groups.items():
        if chosen[g] is not None and len(names) > 1 and r.random() < 0.2:
            final = getattr(obj, chosen[g])
            sib = r.choice([n for n in names if n != chosen[g]])
            spec = specs[sib]
            setattr(obj, sib, spec.data_type() if spec.is_dataclass else rand_single(r, spec, 0, stats))
            setattr(obj, chosen[g], final)
            stats["oneof-overwrite"] = stats.get("oneof-overwrite", 0) + 1
    return obj


def falsy_value(spec):
    """The falsy-but-set value of a field's type (the values a truthiness test would lose)."""
    t = spec.data_type
    if spec.is_dataclass:
        return t()
    if t is parser_types.SourceLocation:
        return parser_types.SourceLocation()
    if spec.is_enum:
        return t(0) if 0 in [int(m.value) for m in t] else list(t)[0]
    if t is bool:
        return False
    if t is int:
        return 0
    if t is str:
        return ""
    raise common.InfraError("no falsy value for %r" % (t,))


def enumerate_set_unset(cls, r, cap):
    """Boundary enumeration: every subset of the class's fields set to its falsy-but-set
    value (LIST: empty vs one element), the others unset; all 2^k subsets when 2^k <= cap,
    otherwise `cap` random subsets plus the empty and the full one."""
    specs = list(ir_data_fields.field_specs(cls).values())
    k = len(specs)
    if 2 ** k <= cap:
        masks = range(2 ** k)
    else:
        masks = [0, 2 ** k - 1] + [r.getrandbits(k) for _ in range(cap - 2)]
    for mask in masks:
        kw = {}
        for i, spec in enumerate(specs):
            if not (mask >> i) & 1:
                continue
            if spec.container is ir_data_fields.FieldContainer.LIST:
                kw[spec.name] = [falsy_value(spec)]
            else:
                kw[spec.name] = falsy_value(spec)
        yield mask, cls(**kw)


# ------------------------------------------------------------------ malformed dict stream
def mutate_dict(r, cls, d, schema_by_name):
    """One mutation of a real dict somewhere in the tree; returns (kind, new dict) or None."""
    import copy as _copy
    d = _copy.deepcopy(d)
    # collect (class name, dict node) pairs
    nodes = []

    def walk(cname, node):
        if not isinstance(node, dict):
            return
        nodes.append((cname, node))
        for f in schema_by_name[cname]:
            v = node.get(f["name"])
            if f["kind"] == "msg" and v is not None:
                if f["container"] == "list":
                    for x in v:
                        walk(f["tname"], x)
                else:
                    walk(f["tname"], v)
    walk(cls.__name__, d)
    cname, node = r.choice(nodes)
    fields = schema_by_name[cname]
    kind = r.choice(["unknown-key", "null", "enum-name", "enum-range", "loc", "two-oneof", "type-confusion",
                     "drop-key", "empty-list-explicit", "null-in-list", "bool-as-int"])
    if kind == "unknown-key":
        node[r.choice(["zzz", "which_type", "_value_type", "Text", ""])] = r.choice([1, "x", None, [], {}])
    elif kind == "null":
        if not fields:
            return None
        node[r.choice(fields)["name"]] = None
    elif kind == "drop-key":
        if not node:
            return None
        del node[r.choice(sorted(node))]
    elif kind in ("enum-name", "enum-range"):
        fs = [f for f in fields if f["kind"] == "enum"]
        if not fs:
            return None
        f = r.choice(fs)
        et = getattr(ir_data, f["tname"])
        node[f["name"]] = r.choice([m.name for m in et] + ["NOPE", "unknown"]) if kind == "enum-name" \
            else r.choice([99, -1, 2 ** 70, 7])
    elif kind == "loc":
        fs = [f for f in fields if f["kind"] == "loc"]
        if not fs:
            return None
        node[r.choice(fs)["name"]] = r.choice(LOC_STRINGS)
    elif kind == "two-oneof":
        fs = [f for f in fields if f["oneof"]]
        if len(fs) < 2:
            return None
        a, b = r.sample(fs, 2)
        if a["oneof"] != b["oneof"]:
            return None
        for f in (a, b):
            if f["name"] not in node:
                node[f["name"]] = {} if f["kind"] == "msg" else r.random() < 0.5
    elif kind == "type-confusion":
        if not fields:
            return None
        f = r.choice(fields)
        node[f["name"]] = r.choice([5, "s", True, [], [1], {}, {"text": 1}, ["a"], [[]]])
    elif kind == "empty-list-explicit":
        fs = [f for f in fields if f["container"] == "list"]
        if not fs:
            return None
        node[r.choice(fs)["name"]] = []
    elif kind == "null-in-list":
        fs = [f for f in fields if f["container"] == "list" and f["name"] in node]
        if not fs:
            return None
        node[r.choice(fs)["name"]].append(None)
    elif kind == "bool-as-int":
        fs = [f for f in fields if f["kind"] == "bool"]
        if not fs:
            return None
        node[r.choice(fs)["name"]] = r.choice([0, 1])
    return kind, d


LOC_STRINGS = ["", "*", "^", "^*", "0:0-0:0", "0:0-0:0*", "0:0-0:0^", "0:0-0:0^*", "1:1-1:1", "1:2-3:4^*",
               "1:2-3:4*^", "3:4-1:2", "1:2-1:1", "0:0-1:1", "1:1-0:0", "0:1-0:2", "1:0-2:0", "1:2-3", "1-2:3",
               "1:2:3-4:5", "1:2-3:4-5:6", " 1:2-3:4", "1:2-3:4 ", "1 :2-3:4", "+1:2-3:4", "1_0:2-10:4", "01:02-03:04",
               "-1:2-3:4", "1:2--3:4", "a:b-c:d", "1:2-3:4**", "1:2-3:4^^", "١:٢-٣:٤", "1:2–3:4",
               "99999999999999999999999:1-99999999999999999999999:2^", "1.0:2-3:4", "1e3:1-2000:1", ":-:", "-", ":"]


def real_loc_parse(s):
    try:
        v = parser_types.SourceLocation.from_str(s)
    except ValueError:
        return "pos none"
    return "pos %d %d %d %d %d %d" % (v.start.line, v.start.column, v.end.line, v.end.column,
                                      1 if v.is_disjoint_from_parent else 0, 1 if v.is_synthetic else 0)


def spec_loc_ok(sl, sc, el, ec):
    """The constructor's documented invariants, written from the docstrings."""
    def pos_ok(l, c):
        return (l == 0 and c == 0) or (l > 0 and c > 0)
    return pos_ok(sl, sc) and pos_ok(el, ec) and (sl, sc) <= (el, ec) and ((sl == 0) == (el == 0))


# ------------------------------------------------------------------ python-side SchemaOk (for search)
def schema_problems(schema):
    out = []
    for c in schema["classes"]:
        names = [f["name"] for f in c["fields"]]
        if len(set(names)) != len(names):
            out.append("%s: duplicate field names" % c["name"])
        for f in c["fields"]:
            where = "%s.%s" % (c["name"], f["name"])
            if f["container"] == "optional" and f["default_kind"] != "none":
                out.append(where + ": OPTIONAL field whose default is not None")
            if f["container"] == "list" and f["default_kind"] != "emptyList":
                out.append(where + ": LIST field whose default is not an empty list")
            if f["container"] == "list" and f["kind"] not in ("str", "int", "bool", "msg"):
                out.append(where + ": LIST of %s" % f["kind"])
            if f["oneof"] and f["container"] != "optional":
                out.append(where + ": oneof member that is not OPTIONAL")
            if f["kind"] == "other":
                out.append(where + ": field type %s unknown to the model" % f["tname"])
            if f["container"] == "none" and not (f["default_kind"] == "required" or
                                                 (f["default_kind"] == "str" and f["kind"] == "str")):
                out.append(where + ": constructor default is not a value of the field's type")
            if f["oneof"] and ("which_" + f["oneof"] in names or "_value_" + f["oneof"] in names):
                out.append(where + ": field named like a oneof proxy")
    return out


# ------------------------------------------------------------------ the run
class Run:
    def __init__(self, chk, schema, model_ok):
        self.chk = chk
        self.schema = schema
        self.by_name = {c["name"]: c["fields"] for c in schema["classes"]}
        self.model_ok = model_ok
        self.ops = []          # (line, callback(answer))
        self.feat = {}
        self.reach = {}        # "Class.field" -> times set, over front-end IRs
        self.disagreements = 0
        self.lenient = 0
        self.both_reject = 0
        self.mal_kinds = {}

    def bump(self, k, n=1):
        self.feat[k] = self.feat.get(k, 0) + n

    # -- one message (any IR class): oracle + model ops
    def message(self, obj, origin, replay_input, front_end=False):
        chk = self.chk
        chk.count()
        why = oracle(obj)
        if why:
            chk.violation("input", dict(replay_input, expected="from_json(to_json(m)) == m, has_field "
                                        "preserved, second to_json identical", observed=why, origin=origin))
            return False
        if front_end:
            self.count_reach(obj)
        if not self.model_ok:
            return True
        assert LAST.get("obj") is obj
        n = LAST["neutral"]
        real_json = LAST["json"]
        cls = type(obj)

        def on_enc(ans, real_json=real_json):
            if ans.startswith("enc wf=1 rt=1 ") and ans[len("enc wf=1 rt=1 "):] == real_json:
                return
            self.disagreements += 1
            got = ans[:200]
            what = "model toJson text != real to_json text"
            if ans.startswith("enc wf=0"):
                what = "the real object is outside WfMsg (precondition of C18_roundtrip)"
            elif "rt=0" in ans[:16]:
                what = "model round trip failed at run time"
            elif ans == "bad-op":
                what = "model driver rejected the neutral dump"
            else:
                text = ans[len("enc wf=1 rt=1 "):]
                i = next((k for k in range(min(len(text), len(real_json))) if text[k] != real_json[k]),
                         min(len(text), len(real_json)))
                got = "first difference at %d: model %r real %r" % (i, text[max(0, i - 30):i + 30], real_json[max(0, i - 30):i + 30])
            chk.violation("correspondence", dict(replay_input, origin=origin, model=got,
                                                 expected="real code satisfies the round-trip oracle; " + what,
                                                 theorem_or_correspondence="model_c18 ENC vs IrDataSerializer.to_json"),
                          found_input=False)
        self.ops.append(("ENC " + ndump(n), on_enc))

        want_dec = "dec " + ndump_ascii(LAST["back_neutral"])

        def on_dec(ans, want=want_dec):
            if ans == want:
                return
            self.disagreements += 1
            chk.violation("correspondence", dict(replay_input, origin=origin, model=ans[:300], observed=want[:300],
                                                 expected="real code satisfies the round-trip oracle; model fromDict differs",
                                                 theorem_or_correspondence="model_c18 DEC vs IrDataSerializer.from_json"),
                          found_input=False)
        self.ops.append(("DEC %s %s" % (cls.__name__, json.dumps(json.loads(real_json), ensure_ascii=False)), on_dec))

        # text layer (round 2): the model's OWN reader (parseJson, proved inverse to the printer:
        # C18_json_text_roundtrip) on the real to_json text — FROMJSON must give what the real
        # from_json gives, PARSE must re-render to the identical text, and Python's
        # json.loads/json.dumps must be inverse on it too (was a trusted assumption).
        def on_fromjson(ans, want=want_dec):
            if ans == want:
                return
            self.disagreements += 1
            chk.violation("correspondence", dict(replay_input, origin=origin, model=ans[:300], observed=want[:300],
                                                 expected="real code satisfies the round-trip oracle; model fromJson (text level) differs",
                                                 theorem_or_correspondence="model_c18 FROMJSON vs IrDataSerializer.from_json"),
                          found_input=False)

        def on_parse(ans, real_json=real_json):
            if ans == "parse ok " + real_json:
                return
            self.disagreements += 1
            chk.violation("correspondence", dict(replay_input, origin=origin, model=ans[:300], observed=real_json[:300],
                                                 expected="the model's JSON reader accepts the real to_json text and re-renders it identically",
                                                 theorem_or_correspondence="model_c18 PARSE vs to_json text"),
                          found_input=False)
        if "\n" not in real_json and "\r" not in real_json:
            self.ops.append(("FROMJSON %s %s" % (cls.__name__, real_json), on_fromjson))
            self.ops.append(("PARSE " + real_json, on_parse))
            self.text_layer_ops = getattr(self, "text_layer_ops", 0) + 2
            if json.dumps(json.loads(real_json)) != real_json:
                self.disagreements += 1
                chk.violation("correspondence", dict(replay_input, origin=origin, observed=real_json[:300],
                                                     expected="json.dumps(json.loads(text)) == text for a to_json text",
                                                     theorem_or_correspondence="CPython json module on to_json output"),
                              found_input=False)

        names = [nm for nm in ir_data_fields.field_specs(cls) if obj.has_field(nm)]
        want_has = "has " + ",".join(names) + (",!" if obj.has_field("no_such_field") else "")

        def on_has(ans, want=want_has):
            if ans != want:
                self.disagreements += 1
                chk.violation("correspondence", dict(replay_input, origin=origin, model=ans, observed=want,
                                                     expected="has_field answers agree",
                                                     theorem_or_correspondence="model_c18 HAS vs Message.has_field"),
                              found_input=False)
        # has_field only looks at the root's own attributes: send the root with every set
        # attribute replaced by a placeholder
        shallow = {"m": n["m"], "f": [None if x is None else {"b": True} for x in n["f"]]}
        self.ops.append(("HAS " + ndump(shallow), on_has))
        return True

    def count_reach(self, obj):
        stack = [obj]
        while stack:
            o = stack.pop()
            cn = type(o).__name__
            for name, spec in ir_data_fields.field_specs(type(o)).items():
                v = getattr(o, name)
                if v is None:
                    continue
                if isinstance(v, list):
                    if not v:
                        self.reach[cn + "." + name + "[]"] = self.reach.get(cn + "." + name + "[]", 0) + 1
                        continue
                    if spec.is_dataclass:
                        stack.extend(v)
                elif spec.is_dataclass:
                    stack.append(v)
                elif isinstance(v, parser_types.SourceLocation):
                    if v.is_synthetic:
                        self.bump("loc:synthetic")
                    if v.is_disjoint_from_parent:
                        self.bump("loc:disjoint")
                    if not v:
                        self.bump("loc:falsy")
                elif isinstance(v, str) and spec.data_type is str and v.lstrip("-").isdigit() and abs(int(v)) >= 2 ** 64:
                    self.bump("numeric-string>=2^64")
                self.reach[cn + "." + name] = self.reach.get(cn + "." + name, 0) + 1

    # -- malformed dicts for one real object
    def malformed(self, r, obj, n_mut):
        if not self.model_ok:
            return
        cls = type(obj)
        base = json.loads(SER(obj).to_json())
        for _ in range(n_mut):
            m = mutate_dict(r, cls, base, self.by_name)
            if m is None:
                continue
            kind, d = m
            self.chk.count()
            try:
                got = SER.from_dict(cls, d)
                real = "dec " + ndump_ascii(neutral(got))
            except Exception:  # noqa: BLE001
                real = "dec none"
            text = json.dumps(d, ensure_ascii=False)

            def on(ans, real=real, kind=kind, text=text, cname=cls.__name__):
                self.mal_kinds[kind] = self.mal_kinds.get(kind, 0) + 1
                if ans == "dec none":
                    if real == "dec none":
                        self.both_reject += 1
                    else:
                        self.lenient += 1     # Python is more lenient than the (strict) model
                    return
                if ans == real:
                    self.chk.nontrivial("mal:" + kind + ":" + str(hash(text)))
                    return
                self.disagreements += 1
                self.chk.violation("correspondence", {"input": {"class": cname, "dict": text}, "mutation": kind,
                                                      "model": ans[:300], "observed": real[:300],
                                                      "expected": "where the model decodes a dict the real _from_dict gives the same value",
                                                      "theorem_or_correspondence": "model_c18 DEC vs IrDataSerializer.from_dict (malformed stream)"},
                                   found_input=False)
            self.ops.append(("DEC %s %s" % (cls.__name__, text), on))

    # -- locations
    def locations(self, r, n_random):
        chk = self.chk
        cases = []
        vals = [0, 1, 2, 9, 10, 99, 100, 2 ** 31, 2 ** 64, 10 ** 30]
        for sl in vals[:6]:
            for sc in vals[:4]:
                for el in (0, sl, sl + 1, 10 ** 30):
                    for ec in (0, 1, sc, sc + 1):
                        cases.append((sl, sc, el, ec))
        for _ in range(n_random):
            cases.append(tuple(r.choice(vals + [r.randint(0, 500)]) for _ in range(4)))
        for (sl, sc, el, ec) in cases:
            for d in (0, 1):
                for y in (0, 1):
                    chk.count()
                    ok = spec_loc_ok(sl, sc, el, ec)
                    try:
                        v = parser_types.SourceLocation((sl, sc), (el, ec), is_disjoint_from_parent=bool(d),
                                                        is_synthetic=bool(y))
                        real_ok, text = True, str(v)
                    except AssertionError:
                        real_ok, text = False, None
                    key = {"location": [sl, sc, el, ec, d, y]}
                    if real_ok != ok:
                        chk.violation("input", {"input": key, "expected": "constructor accepts iff invariants hold (%s)" % ok,
                                                "observed": "accepted" if real_ok else "rejected"})
                        continue
                    if real_ok:
                        back = real_loc_parse(text)
                        if back != "pos %d %d %d %d %d %d" % (sl, sc, el, ec, d, y):
                            chk.violation("input", {"input": key, "expected": "from_str(str(l)) == l",
                                                    "observed": "str=%r from_str=%s" % (text, back)})
                            continue
                        chk.nontrivial("loc:%d:%d:%d:%d:%d:%d" % (sl, sc, el, ec, d, y))
                    if self.model_ok:
                        def on(ans, real_ok=real_ok, text=text, key=key):
                            want = "loc ok=%d" % (1 if real_ok else 0)
                            if not ans.startswith(want) or (real_ok and ans != want + " " + text):
                                self.disagreements += 1
                                chk.violation("correspondence", {"input": key, "model": ans, "observed": "%s %s" % (want, text),
                                                                 "expected": "model Loc.ok/toStr agree with SourceLocation",
                                                                 "theorem_or_correspondence": "model_c18 LOCSTR"},
                                              found_input=False)
                        self.ops.append(("LOCSTR %d %d %d %d %d %d" % (sl, sc, el, ec, d, y), on))
        # from_str on arbitrary strings
        strings = list(LOC_STRINGS)
        alphabet = "0123456789:-^* 0123456789"
        for _ in range(n_random):
            strings.append("".join(r.choice(alphabet) for _ in range(r.randint(0, 14))))
            a = "%d:%d-%d:%d%s" % (r.randint(0, 3), r.randint(0, 3), r.randint(0, 3), r.randint(0, 3),
                                   r.choice(["", "^", "*", "^*", "*^"]))
            strings.append(a)
        for s in strings:
            chk.count()
            real = real_loc_parse(s)
            if real != "pos none":
                # spec: whatever from_str accepts obeys the invariants and prints back to an equivalent location
                sl, sc, el, ec, d, y = [int(x) for x in real.split()[1:]]
                if not spec_loc_ok(sl, sc, el, ec):
                    chk.violation("input", {"input": {"from_str": s}, "observed": real,
                                            "expected": "from_str result satisfies the constructor invariants"})
            if self.model_ok:
                def on(ans, real=real, s=s):
                    if ans == real:
                        return
                    if ans == "pos none":
                        self.lenient += 1      # int(" 1_0 ") etc.: Python accepts more spellings
                        return
                    self.disagreements += 1
                    chk.violation("correspondence", {"input": {"from_str": s}, "model": ans, "observed": real,
                                                     "expected": "where the model parses a location string, from_str gives the same",
                                                     "theorem_or_correspondence": "model_c18 LOCPARSE"},
                                  found_input=False)
                self.ops.append(("LOCPARSE " + json.dumps(s, ensure_ascii=False), on))

    def flush(self):
        if not self.ops:
            return
        lines = [l for l, _ in self.ops]
        answers = common.Model("model_c18").ask(lines, timeout=1500)
        for (l, cb), a in zip(self.ops, answers):
            if a == "bad-op":
                self.disagreements += 1
                self.chk.violation("correspondence", {"op": l[:500], "model": "bad-op",
                                                      "expected": "the driver understands every op the harness sends",
                                                      "theorem_or_correspondence": "model_c18 line protocol"},
                                   found_input=False)
                continue
            cb(a)
        self.chk.extra["traces_validated_against_impl"] = self.chk.extra.get("traces_validated_against_impl", 0) + len(lines)
        self.ops = []


# ------------------------------------------------------------------ split pipeline (d)
RUNNER = r'''
import importlib.machinery, importlib.util, json, os, sys, io, contextlib
repo, role, jobs_path = sys.argv[1], sys.argv[2], sys.argv[3]
sys.path.insert(0, repo)
jobs = json.load(open(jobs_path))
out = []
if role == "A":
    loader = importlib.machinery.SourceFileLoader("embossc_main", os.path.join(repo, "embossc"))
    spec = importlib.util.spec_from_loader("embossc_main", loader)
    embossc = importlib.util.module_from_spec(spec)
    loader.exec_module(embossc)
    from compiler.front_end import emboss_front_end
    for j in jobs:
        rec = {"id": j["id"]}
        err = io.StringIO()
        with contextlib.redirect_stderr(err):
            try:
                rec["embossc"] = embossc.main(["embossc", "--import-dir", j["dir"], "--output-path", j["out"],
                                               "--output-file", "inproc.h", "--color-output", "never", j["main"]])
            except BaseException as e:
                rec["embossc"] = "exception %r" % (e,)
            try:
                flags = emboss_front_end._parse_command_line(["emboss_front_end", "--import-dir", j["dir"],
                    "--output-file", os.path.join(j["out"], "ir.json"), "--color-output", "never", j["main"]])
                rec["front_end"] = emboss_front_end.main(flags)
            except BaseException as e:
                rec["front_end"] = "exception %r" % (e,)
        out.append(rec)
else:
    from compiler.back_end.cpp import emboss_codegen_cpp
    for j in jobs:
        rec = {"id": j["id"]}
        err = io.StringIO()
        with contextlib.redirect_stderr(err):
            try:
                flags = emboss_codegen_cpp._parse_command_line(["emboss_codegen_cpp", "--input-file",
                    os.path.join(j["out"], "ir.json"), "--output-file", os.path.join(j["out"], "split.h"),
                    "--color-output", "never"])
                rec["codegen"] = emboss_codegen_cpp.main(flags)
            except BaseException as e:
                rec["codegen"] = "exception %r" % (e,)
        out.append(rec)
json.dump(out, open(jobs_path + "." + role + ".out", "w"))
'''


def run_batches(jobs):
    """jobs: [{id, dir, main, out}].  Process A (per worker): embossc.main + emboss_front_end.main
    writing ir.json; then process B: emboss_codegen_cpp.main reading only ir.json."""
    sc = common.scratch()
    runner = os.path.join(sc, "c18_runner.py")
    with open(runner, "w") as f:
        f.write(RUNNER)
    chunks = [jobs[i::MAX_WORKERS] for i in range(MAX_WORKERS)]
    chunks = [c for c in chunks if c]
    results = {}
    env = dict(os.environ, PYTHONHASHSEED="0")

    def one(role, k, chunk):
        p = os.path.join(sc, "jobs%d.json" % k)
        with open(p, "w") as f:
            json.dump(chunk, f)
        pr = subprocess.run([sys.executable, runner, common.REPO, role, p], cwd=sc, env=env,
                            stdout=subprocess.PIPE, stderr=subprocess.PIPE, timeout=1500)
        if pr.returncode != 0:
            raise common.InfraError("split-pipeline runner %s failed: %s" % (role, pr.stderr.decode(errors="replace")[-1500:]))
        return json.load(open(p + "." + role + ".out"))
    for role in ("A", "B"):
        with ThreadPoolExecutor(MAX_WORKERS) as ex:
            for recs in ex.map(lambda kc: one(role, kc[0], kc[1]), list(enumerate(chunks))):
                for rec in recs:
                    results.setdefault(rec["id"], {}).update(rec)
    return results


def run_cli(job):
    """The three programs exactly as a user starts them (one process each)."""
    env = dict(os.environ, PYTHONPATH=common.REPO)
    py = sys.executable
    rc = {}
    rc["embossc"] = subprocess.run([py, os.path.join(common.REPO, "embossc"), "--import-dir", job["dir"],
                                    "--output-path", job["out"], "--output-file", "inproc.h",
                                    "--color-output", "never", job["main"]],
                                   cwd=job["out"], env=env, stdout=subprocess.PIPE, stderr=subprocess.PIPE,
                                   timeout=600).returncode
    rc["front_end"] = subprocess.run([py, "-m", "compiler.front_end.emboss_front_end", "--import-dir", job["dir"],
                                      "--output-file", os.path.join(job["out"], "ir.json"),
                                      "--color-output", "never", job["main"]],
                                     cwd=job["out"], env=env, stdout=subprocess.PIPE, stderr=subprocess.PIPE,
                                     timeout=600).returncode
    rc["codegen"] = subprocess.run([py, "-m", "compiler.back_end.cpp.emboss_codegen_cpp", "--input-file",
                                    os.path.join(job["out"], "ir.json"), "--output-file",
                                    os.path.join(job["out"], "split.h"), "--color-output", "never"],
                                   cwd=job["out"], env=env, stdout=subprocess.PIPE, stderr=subprocess.PIPE,
                                   timeout=600).returncode
    rc["id"] = job["id"]
    return rc


def read_or_none(p):
    try:
        with open(p, "rb") as f:
            return f.read()
    except OSError:
        return None


def judge_split(chk, job, rec, how):
    """Spec for (d): both paths succeed or both fail; on success the headers are byte-identical."""
    chk.count()
    h1 = read_or_none(os.path.join(job["out"], "inproc.h"))
    h2 = read_or_none(os.path.join(job["out"], "split.h"))
    inp = {"files": job["files"], "main": job["main"], "dir_is_repo": job.get("dir_is_repo", False)}
    ok1 = rec.get("embossc") == 0
    ok2 = rec.get("front_end") == 0 and rec.get("codegen") == 0
    if ok1 != ok2:
        chk.violation("input", {"input": inp, "how": how, "observed": {k: rec.get(k) for k in ("embossc", "front_end", "codegen")},
                                "expected": "embossc and front_end+codegen_cpp both succeed or both fail"})
        return False
    if not ok1:
        return False
    if h1 is None or h2 is None or h1 != h2:
        i = -1
        if h1 is not None and h2 is not None:
            i = next((k for k in range(min(len(h1), len(h2))) if h1[k] != h2[k]), min(len(h1), len(h2)))
        chk.violation("input", {"input": inp, "how": how,
                                "observed": "headers differ at byte %d: embossc %r / split %r" % (
                                    i, (h1 or b"")[max(0, i - 60):i + 60], (h2 or b"")[max(0, i - 60):i + 60]),
                                "expected": "byte-identical headers from embossc and from front_end|codegen_cpp"})
        return False
    chk.nontrivial("split:" + job["id"])
    return True


# ------------------------------------------------------------------ module sources
def testdata_jobs():
    """(id, files or None, main, import dir): /repo/testdata/*.emb through the real reader."""
    out = []
    for p in sorted(glob.glob(os.path.join(common.REPO, "testdata", "*.emb"))):
        out.append(("testdata/" + os.path.basename(p), None, "testdata/" + os.path.basename(p), common.REPO))
    p = os.path.join(common.REPO, "testdata", "golden", "span_se_log_file_status.emb")
    if os.path.exists(p):
        out.append(("testdata/golden/span_se_log_file_status.emb", None,
                    "testdata/golden/span_se_log_file_status.emb", common.REPO))
    return out


def corpus_modules():
    out = []
    for p in sorted(glob.glob(os.path.join(CORPUS, "*.emb"))):
        with open(p) as f:
            out.append(("corpus/" + os.path.basename(p), {"m.emb": f.read()}, "m.emb"))
    return out


def materialize(files, tag):
    d = os.path.join(common.scratch(), "src_" + tag)
    os.makedirs(d, exist_ok=True)
    for name, text in files.items():
        with open(os.path.join(d, name), "w") as f:
            f.write(text)
    return d


MAX_REPORTS = 12


def limit_reports(chk):
    """At most MAX_REPORTS replay files per run; the rest is only counted."""
    if getattr(chk, "_c18_limited", False):
        return
    orig = chk.violation

    def limited(kind, detail, key=None, found_input=True):
        if len(chk.violations) >= MAX_REPORTS and not (key is not None and chk.known_finding(key)):
            chk.extra["violations_not_written"] = chk.extra.get("violations_not_written", 0) + 1
            return None
        return orig(kind, detail, key=key, found_input=found_input)
    chk.violation = limited
    chk._c18_limited = True


def explore(chk, tier, model_ok, schema, search_mode=False):
    limit_reports(chk)
    run = Run(chk, schema, model_ok)
    quick = tier == "quick"
    phase = {}
    tph = [time.time()]

    def mark(name):
        phase[name] = round(time.time() - tph[0], 1)
        tph[0] = time.time()
    r = common.rng("C18")
    split_jobs = []
    samples = 0

    def add_split(jid, files, main, srcdir, dir_is_repo=False):
        out = os.path.join(common.scratch(), "out_%d" % len(split_jobs))
        os.makedirs(out, exist_ok=True)
        split_jobs.append({"id": jid, "dir": srcdir, "main": main, "out": out, "files": files,
                           "dir_is_repo": dir_is_repo})

    # 1. /repo/testdata through the real file reader (imports resolved from the repo root)
    n_td = 0
    for jid, _files, main, d in testdata_jobs():
        try:
            ir, _dbg, errors = glue.parse_emboss_file(main, repo_reader([d]))
        except Exception as e:  # noqa: BLE001
            chk.violation("input", {"input": {"main": main, "dir_is_repo": True, "files": None},
                                    "observed": "front end raised %r" % (e,), "expected": "IR or errors"},
                          key="crash:%s" % type(e).__name__)
            continue
        if errors:
            run.bump("testdata-rejected")
            continue
        n_td += 1
        rin = {"input": {"main": main, "dir_is_repo": True, "files": None}}
        if run.message(ir, jid, rin, front_end=True):
            chk.nontrivial("module:" + jid)
            why = header_oracle(ir)
            chk.count()
            if why:
                chk.violation("input", dict(rin, observed=why, expected="identical header from the re-read IR"))
            if not search_mode and (not quick or n_td % 3 == 0 or os.path.basename(main) in (
                    "importer.emb", "importer2.emb", "no_enum_traits.emb", "enum_case.emb")):
                add_split(jid, None, main, d, dir_is_repo=True)
            # sub-messages as roots of their own (other data classes through from_json)
            if not quick or n_td % 4 == 0:
                for t in ir.module[0].type[:3]:
                    run.message(t, jid + "#type", {"input": {"neutral": neutral(t)}})
            if ir.module[0].type:
                run.malformed(r, r.choice(ir.module[0].type), 6 if quick else 30)
    run.bump("testdata-accepted", n_td)
    run.flush()
    mark("testdata")

    # 2. feature modules + corpus + IRs stopped before each step
    mods = [("feature/" + m, FEATURE_MODULES, m) for m in FEATURE_MAINS] + corpus_modules()
    for m, step in PARTIAL_ONLY.items():
        ir2, errors2, exc2 = compile_files(FEATURE_MODULES, m, stop_before_step=step)
        if exc2 is not None or errors2 or ir2 is None:
            raise common.InfraError("partial feature module %s does not reach step %s" % (m, step))
        run.bump("stopped-before:" + step)
        run.message(ir2, "feature/" + m + "@" + step,
                    {"input": {"files": FEATURE_MODULES, "main": m, "stop_before_step": step}}, front_end=True)
    n_random = 32 if quick else 300
    if search_mode:
        n_random = 60
    for i in range(n_random):
        text, feats = gen_module(r, i)
        mods.append(("random/%d" % i, {"m.emb": text}, "m.emb", feats))
    accepted = rejected = 0
    for entry in mods:
        jid, files, main = entry[:3]
        ir, errors, exc = compile_files(files, main)
        rin = {"input": {"files": files, "main": main}}
        if exc is not None:
            # an exception of the front end is C16's subject; here it only means "no IR"
            run.bump("front-end-exception")
            continue
        if errors:
            rejected += 1
            if jid.startswith("feature/"):
                raise common.InfraError("feature module %s is rejected: %s" % (jid, errors[0][0].message))
            continue
        accepted += 1
        for ft in (entry[3] if len(entry) > 3 else ()):
            run.bump("gen:" + ft)
        if run.message(ir, jid, rin, front_end=True):
            chk.nontrivial("module:" + jid + ":" + str(hash(json.dumps(files, sort_keys=True))))
            chk.count()
            why = header_oracle(ir)
            if why:
                chk.violation("input", dict(rin, observed=why, expected="identical header from the re-read IR"))
            if samples < 2 and jid.startswith("random/"):
                chk.sample({"emb": files[main], "to_json_bytes": len(SER(ir).to_json())}, limit=4)
                samples += 1
            if not search_mode and (jid.startswith("feature/") or len([j for j in split_jobs if j["id"].startswith("random/")]) < (6 if quick else 120)):
                add_split(jid, files, main, materialize(files, "m%d" % len(split_jobs)))
            run.malformed(r, r.choice(ir.module[0].type) if ir.module[0].type and r.random() < 0.7 else ir.module[0],
                          4 if quick else 10)
        # partially processed IRs (before each front-end step): more shapes of the same classes
        if jid.startswith("feature/") or r.random() < (0.1 if quick else 0.3):
            for step in STEPS:
                ir2, errors2, exc2 = compile_files(files, main, stop_before_step=step)
                if exc2 is None and not errors2 and ir2 is not None:
                    run.bump("stopped-before:" + step)
                    run.message(ir2, jid + "@" + step, {"input": {"files": files, "main": main, "stop_before_step": step}},
                                front_end=True)
        if len(run.ops) > 150:
            run.flush()
    run.bump("modules-accepted", accepted)
    run.bump("modules-rejected", rejected)
    run.flush()
    mark("modules")

    # 3. synthetic messages from the schema, as real objects
    rs = common.rng("C18-synth")
    classes = irschema.ir_classes()
    stats = {}
    n_synth = 700 if quick else 8000
    if search_mode:
        n_synth = 1500
    for i in range(n_synth):
        cls = classes[i % len(classes)] if i < 3 * len(classes) else rs.choice(classes)
        obj = rand_msg(rs, cls, rs.choice([0, 1, 2, 2, 3, 4]), stats)
        n = neutral(obj)
        if run.message(obj, "synthetic/%s" % cls.__name__, {"input": {"neutral": n}}):
            chk.nontrivial("synth:" + str(hash(ndump(n))))
        if i < 2:
            chk.sample({"synthetic": cls.__name__, "to_json": SER(obj).to_json()[:400]}, limit=6)
        if i % 7 == 0:
            run.malformed(rs, obj, 2)
        if len(run.ops) > 2500:
            run.flush()
    run.flush()

    # 3b. boundary enumeration: set/unset subsets with falsy-but-set values, every class
    rb = common.rng("C18-subsets")
    n_sub = 0
    for cls in classes:
        for mask, obj in enumerate_set_unset(cls, rb, 64 if quick else 2048):
            n_sub += 1
            if run.message(obj, "subset/%s/%d" % (cls.__name__, mask), {"input": {"neutral": neutral(obj)}}):
                chk.nontrivial("subset:%s:%d" % (cls.__name__, mask))
        if len(run.ops) > 3000:
            run.flush()
    run.flush()
    chk.extra["set_unset_subsets"] = n_sub
    mark("synthetic")
    # 4. locations
    run.locations(common.rng("C18-loc"), 60 if quick else 2000)
    run.flush()
    mark("locations")

    # 5. the split pipeline
    if split_jobs:
        t0 = time.time()
        n_cli = 3 if quick else 12
        cli_jobs = [j for j in split_jobs if j["id"].startswith("feature/")][:2] + split_jobs[:1]
        if not quick:
            cli_jobs = split_jobs[:n_cli]
        cli_ids = set(j["id"] for j in cli_jobs)
        batch_jobs = [j for j in split_jobs if j["id"] not in cli_ids]
        with ThreadPoolExecutor(MAX_WORKERS) as ex:
            cli_res = list(ex.map(run_cli, cli_jobs))
        ok_cli = sum(1 for j, rec in zip(cli_jobs, cli_res) if judge_split(chk, j, rec, "three separate CLI processes"))
        res = run_batches(batch_jobs)
        ok_batch = sum(1 for j in batch_jobs if judge_split(chk, j, res.get(j["id"], {}), "batched main() calls, back end in its own process"))
        chk.extra["split_pipeline"] = {"cli_jobs": len(cli_jobs), "cli_identical": ok_cli,
                                       "batched_jobs": len(batch_jobs), "batched_identical": ok_batch,
                                       "wall_s": round(time.time() - t0, 1)}

    mark("split")
    chk.extra["phase_s"] = phase
    # coverage report
    pairs = [c["name"] + "." + f["name"] for c in schema["classes"] for f in c["fields"]]
    unreached = [p for p in pairs if p not in run.reach]
    arms = [c["name"] + "." + f["name"] for c in schema["classes"] for f in c["fields"] if f["oneof"]]
    chk.extra["front_end_reach"] = {"class_field_pairs": len(pairs), "reached": len(pairs) - len(unreached),
                                    "unreached": unreached,
                                    "oneof_arms": len(arms), "oneof_arms_reached": sum(1 for a in arms if a in run.reach),
                                    "empty_list_fields_seen": sorted(k for k in run.reach if k.endswith("[]"))}
    chk.extra["distribution"] = dict(sorted(run.feat.items()))
    chk.extra["synthetic"] = {"messages": n_synth,
                              "oneof_arms_hit": sum(1 for k in stats if k.startswith("oneof:")),
                              "stats": {k: v for k, v in sorted(stats.items()) if not k.startswith("oneof:")}}
    chk.extra["malformed_stream"] = {"by_mutation": dict(sorted(run.mal_kinds.items())),
                                     "both_reject": run.both_reject, "python_more_lenient_than_model": run.lenient}
    chk.extra["disagreements"] = run.disagreements
    chk.extra["text_layer_ops"] = getattr(run, "text_layer_ops", 0)
    return run


def search(chk):
    """Model-free search, used when the Lean obligations no longer check: the property's
    own oracle on the real code over corpus + generated + synthetic messages."""
    before = len(chk.violations)
    schema = irschema.extract()
    probs = schema_problems(schema)
    if probs:
        print("schema no longer satisfies the round-trip precondition: %s" % probs[:6])
        chk.extra["schema_problems"] = probs
    explore(chk, "quick", False, schema, search_mode=True)
    return len(chk.violations) - before


def run(tier):
    chk = common.Check(PROP, tier, exes=["model_c18"])
    chk.cov["rule"] = ("one evaluation = one message (front-end IR, sub-message, partially processed IR, or synthetic "
                       "instance of any IR class) through oracle+model, one malformed dict, one location case, or one "
                       "split-pipeline job; non-trivial distinct = distinct accepted modules (by text), distinct synthetic "
                       "messages (by neutral dump), malformed dicts the model decodes, valid locations, identical split headers")
    chk.trusted += [
        "harness/translate/irschema.py (schema transcription; every regenerated field spec is exercised by the synthetic stream)",
        "Python json.dumps/json.loads (text layer; the model's printer is compared byte-for-byte with to_json)",
        "Driver/C18.lean neutral-dump decoder (Lean.Data.Json)",
    ]
    chk.assumptions += [
        "Python asserts enabled (no -O): Message.__setattr__ type check and SourceLocation/SourcePosition invariants hold",
        "no lone surrogates in IR strings (source files are read as UTF-8); ints and line/column numbers below 10^4300 "
        "(CPython's int<->str digit limit)",
        "back end modelled as an arbitrary function of the message value (C18_header_equal); its purity is C17's subject",
    ]
    schema, changed = irschema.regenerate()
    chk.extra["schema"] = {"classes": len(schema["classes"]), "fields": sum(len(c["fields"]) for c in schema["classes"]),
                           "enums": len(schema["enums"]), "regenerated_file_changed": changed,
                           "python_side_problems": schema_problems(schema)}
    model_ok = common.proof_gate(chk, search)
    if model_ok:
        ans = common.Model("model_c18").ask(["SCHEMA"])
        if ans != ["schema ok=1 classes=%d" % len(schema["classes"])]:
            raise common.InfraError("model driver was built from another schema: %s" % ans)
        explore(chk, tier, True, schema)
    replay_known(chk)
    # With broken Lean obligations nothing is discharged: what this run did is the model-free
    # search, i.e. exploration-level evidence (a `proof`-level record with discharged=0 does
    # not validate and would turn exit 1 into exit 2).
    return chk.finish(level="proof" if model_ok else "exploration")


def replay_known(chk):
    for k in chk.known:
        if k.get("property") == PROP and k.get("status") == "open":
            why = replay_input(k["input"], quiet=True)
            if why:
                chk.report_known(k)


def replay_input(inp, quiet=False):
    """Re-executes a recorded input on the real code; returns a description of the failure or None."""
    def say(*a):
        if not quiet:
            print(*a)
    if isinstance(inp, str):
        inp = {"files": {"m.emb": inp}, "main": "m.emb"}
    if "neutral" in inp:
        obj = from_neutral(inp["neutral"])
        why = oracle(obj)
        say("synthetic %s: %s" % (type(obj).__name__, why or "round trip holds"))
        return why
    if "location" in inp:
        sl, sc, el, ec, d, y = inp["location"]
        try:
            v = parser_types.SourceLocation((sl, sc), (el, ec), is_disjoint_from_parent=bool(d), is_synthetic=bool(y))
            back = real_loc_parse(str(v))
            say("str=%r from_str=%s" % (str(v), back))
            return None if back == "pos %d %d %d %d %d %d" % (sl, sc, el, ec, d, y) else "location round trip fails"
        except AssertionError as e:
            say("constructor rejects: %s" % e)
            return None if not spec_loc_ok(sl, sc, el, ec) else "constructor rejects a valid location"
    if "from_str" in inp:
        say(real_loc_parse(inp["from_str"]))
        return None
    if "dict" in inp:
        cls = getattr(ir_data, inp["class"])
        try:
            say(ndump_ascii(neutral(SER.from_dict(cls, json.loads(inp["dict"])))))
        except Exception as e:  # noqa: BLE001
            say("from_dict raised %r" % (e,))
        return None
    if inp.get("dir_is_repo"):
        ir, _dbg, errors = glue.parse_emboss_file(inp["main"], repo_reader([common.REPO]))
        exc = None
    else:
        ir, errors, exc = compile_files(inp["files"], inp["main"], inp.get("stop_before_step"))
    if exc is not None or errors or ir is None:
        say("front end: exception=%r errors=%d" % (exc, len(errors)))
        return None
    why = oracle(ir)
    say("round-trip oracle:", why or "holds")
    if why:
        return why
    if not inp.get("stop_before_step"):
        why = header_oracle(ir)
        say("in-process header oracle:", why or "holds")
        if why:
            return why
        # the split pipeline, as three separate processes
        out = os.path.join(common.scratch(), "replay_out")
        os.makedirs(out, exist_ok=True)
        d = common.REPO if inp.get("dir_is_repo") else materialize(inp["files"], "replay")
        job = {"id": "replay", "dir": d, "main": inp["main"], "out": out, "files": inp.get("files")}
        rec = run_cli(job)
        h1, h2 = read_or_none(os.path.join(out, "inproc.h")), read_or_none(os.path.join(out, "split.h"))
        say("exit codes:", {k: rec[k] for k in ("embossc", "front_end", "codegen")},
            "headers identical:", h1 is not None and h1 == h2)
        if (rec["embossc"] == 0) != (rec["front_end"] == 0 and rec["codegen"] == 0):
            return "one pipeline fails"
        if rec["embossc"] == 0 and h1 != h2:
            return "headers differ"
    return None


def replay(path):
    rec = json.load(open(path))
    inp = rec.get("input")
    if inp is None:
        print("replay has no input (kind=%s): %s" % (rec.get("kind"), json.dumps(rec.get("theorem_or_correspondence"))[:600]))
        return 0
    why = replay_input(inp)
    print("RESULT:", "FAILS: " + why if why else "holds on this tree")
    return 1 if why else 0
