"""C10 — tokenization is lossless, position-accurate and classifies as documented.

Ties
  T   harness/translate/toktable.py regenerates lean/Emboss/Generated/TokTable.lean from the
      current tokenizer pattern lists and from the token table of doc/grammar.md; the Lean
      obligations about that table are re-elaborated by `lake build`.
  C   (i)  per pattern: model `matchLen` (op RE) vs `re.match` / `str.startswith`;
      (ii) `tokenizer.tokenize` vs the model (op TOK) on whole texts;
      (iii) the model's `\\s` / line-boundary sets vs `str.isspace` / `str.splitlines` on every
            code point, `splitLines` vs `str.splitlines` on the generated texts.
Spec oracle (independent of tokenizer.py and of Python's `re` engine): a tokenizer built
from the *documented* table of doc/grammar.md (patterns parsed to an AST, matched by an
NFA simulation that returns the longest match of each pattern's language, ties to the
earlier row), line splitting / indentation / end-of-line written from the property
statement, and name / number classification predicates written from
doc/language-reference.md.  It is evaluated on the real output of every generated case
and is all that `search` uses.
"""
import glob
import json
import os

from harness.lib import common
from harness.translate import toktable

PROP = "C10"
WORDCH = set("abcdefghijklmnopqrstuvwxyzABCDEFGHIJKLMNOPQRSTUVWXYZ0123456789_$")
LINE_BREAKS = ["\n", "\r", "\r\n", "\v", "\f", "\x1c", "\x1d", "\x1e", "\x85", "\u2028", "\u2029"]
# characters for which the Python documentation of str.isspace / Unicode (Zs, bidi WS/B/S) says
# "whitespace"; the full set is compared with the model on every run (op SPACES)
OTHER_SPACES = ["\t", "\x1f", "\xa0", "\u1680", "\u2000", "\u2003", "\u200a", "\u202f", "\u205f", "\u3000"]


def hx(s):
    return ".".join("%x" % ord(c) for c in s) or "-"


def unhx(h):
    return "" if h == "-" else "".join(chr(int(x, 16)) for x in h.split("."))


# ---------------------------------------------------------------- real code
_tok = None


def tokenizer():
    global _tok
    if _tok is None:
        from compiler.front_end import tokenizer as t
        _tok = t
    return _tok


def canon_tokens(toks):
    out = ["ok"]
    for sym, text, sl, sc, el, ec in toks:
        out.append("%s/%s/%d:%d-%d:%d" % (hx(sym), hx(text), sl, sc, el, ec))
    return " ".join(out)


def real_tokenize(text):
    """→ ('ok', [(sym, text, sl, sc, el, ec)]) | ('error', (msg, sl, sc, el, ec)) | ('exception', str)"""
    try:
        toks, errs = tokenizer().tokenize(text, "f.emb")
    except Exception as e:  # noqa: BLE001
        return "exception", "%s: %s" % (type(e).__name__, e)
    if errs:
        m = errs[0][0]
        loc = m.location
        return "error", (m.message, loc.start.line, loc.start.column, loc.end.line, loc.end.column)
    out = []
    for t in toks:
        loc = t.source_location
        out.append((t.symbol, t.text, loc.start.line, loc.start.column, loc.end.line, loc.end.column))
    return "ok", out


def canon(res):
    kind, v = res
    if kind == "ok":
        return canon_tokens(v)
    if kind == "error":
        return "error %s %d:%d-%d:%d" % ((hx(v[0]),) + tuple(v[1:]))
    return "exception " + v


# ---------------------------------------------------------------- spec oracle: documented table
class UnionNfa:
    """Thompson NFA of all documented patterns; `longest(s, pos)` returns
    (length, row) of the longest match of any row's *language* at pos (ties: earliest
    row), by lazy subset construction.  Written from the textbook, not from sre."""

    def __init__(self, asts):
        self.eps = []     # state → [state]
        self.eol = []     # state → [state]  (\u03b5 allowed only at `$` positions)
        self.chr = []     # state → [(neg, items, state)]
        self.acc = {}     # state → row
        self.starts = []
        for row, a in enumerate(asts):
            s, e = self._build(a)
            self.starts.append(s)
            self.acc[e] = row
        self._clo = {}
        self._step = {}

    def _new(self):
        self.eps.append([])
        self.eol.append([])
        self.chr.append([])
        return len(self.eps) - 1

    def _build(self, a):
        k = a[0]
        s, e = self._new(), self._new()
        if k == "eps":
            self.eps[s].append(e)
        elif k == "eol":
            self.eol[s].append(e)
        elif k == "chr":
            self.chr[s].append((a[1], a[2], e))
        elif k == "seq":
            s1, e1 = self._build(a[1])
            s2, e2 = self._build(a[2])
            self.eps[s].append(s1)
            self.eps[e1].append(s2)
            self.eps[e2].append(e)
        elif k == "alt":
            for b in (a[1], a[2]):
                s1, e1 = self._build(b)
                self.eps[s].append(s1)
                self.eps[e1].append(e)
        elif k == "rep":
            _, body, mn, mx = a
            cur = s
            for _i in range(mn):
                s1, e1 = self._build(body)
                self.eps[cur].append(s1)
                cur = e1
            if mx is None:
                s1, e1 = self._build(body)
                self.eps[cur].append(s1)
                self.eps[e1].append(s1)
                self.eps[e1].append(e)
                self.eps[cur].append(e)
            else:
                self.eps[cur].append(e)
                for _i in range(mx - mn):
                    s1, e1 = self._build(body)
                    self.eps[cur].append(s1)
                    self.eps[e1].append(e)
                    cur = e1
        else:
            raise toktable.Unsupported("ast %r" % (a,))
        return s, e

    def closure(self, states, at_eol):
        key = (states, at_eol)
        r = self._clo.get(key)
        if r is None:
            seen = set(states)
            todo = list(states)
            while todo:
                q = todo.pop()
                nxt = self.eps[q] + (self.eol[q] if at_eol else [])
                for t in nxt:
                    if t not in seen:
                        seen.add(t)
                        todo.append(t)
            rows = [self.acc[q] for q in seen if q in self.acc]
            r = (frozenset(seen), min(rows) if rows else None)
            self._clo[key] = r
        return r

    @staticmethod
    def _in(neg, items, c):
        o = ord(c)
        hit = False
        for it in items:
            if it[0] == "space":
                if c.isspace():
                    hit = True
            elif it[1] <= o <= it[2]:
                hit = True
        return hit != neg

    def step(self, states, c):
        key = (states, c)
        r = self._step.get(key)
        if r is None:
            out = set()
            for q in states:
                for neg, items, t in self.chr[q]:
                    if self._in(neg, items, c):
                        out.add(t)
            r = frozenset(out)
            self._step[key] = r
        return r

    def longest(self, s, pos):
        n = len(s)
        cur = frozenset(self.starts)
        best = None
        i = pos
        while True:
            at_eol = i == n or (i == n - 1 and s[i] == "\n")
            cur, row = self.closure(cur, at_eol)
            if row is not None and i > pos:
                best = (i - pos, row)     # longer position overrides; row is the earliest at this length
            if i == n or not cur:
                break
            cur = self.step(cur, s[i])
            i += 1
        return best


class DocSpec:
    def __init__(self):
        rows = toktable.read_doc_rows()
        self.rows = rows
        self.syms = [sym for _p, sym, _l in rows]
        self.nfa = UnionNfa([a for a, _s in toktable.doc_pats(rows)])


def spec_split_lines(text):
    """Line boundaries of str.splitlines as the Python library reference lists them."""
    singles = set(LINE_BREAKS) - {"\r\n"}
    lines, cur, i, n = [], [], 0, len(text)
    while i < n:
        c = text[i]
        if c == "\r" and i + 1 < n and text[i + 1] == "\n":
            lines.append("".join(cur))
            cur = []
            i += 2
        elif c in singles:
            lines.append("".join(cur))
            cur = []
            i += 1
        else:
            cur.append(c)
            i += 1
    if cur:
        lines.append("".join(cur))
    return lines


def spec_tokenize(doc, text):
    """Expected result per the documentation and the property statement."""
    toks = []
    stack = [""]
    lines = spec_split_lines(text)
    for ln, line in enumerate(lines, 1):
        lt = []
        pos = 0
        while pos < len(line):
            best = doc.nfa.longest(line, pos)
            if best is None:
                return "error", ("Unrecognized token", ln, pos + 1, ln, pos + 2)
            length, row = best
            if doc.syms[row]:
                lt.append((doc.syms[row], line[pos:pos + length], ln, pos + 1, ln, pos + length + 1))
            pos += length
        eol = ('"\\n"', "\n", ln, len(line) + 1, ln, len(line) + 1)
        if all(t[0] == "Comment" for t in lt):
            toks.extend(lt)
            toks.append(eol)
            continue
        k = 0
        while k < len(line) and line[k].isspace():
            k += 1
        lead = line[:k]
        if lead == stack[-1]:
            pass
        elif lead.startswith(stack[-1]):
            toks.append(("Indent", lead[len(stack[-1]):], ln, len(stack[-1]) + 1, ln, k + 1))
            stack.append(lead)
        elif lead in stack:
            while stack[-1] != lead:
                stack.pop()
                toks.append(("Dedent", "", ln, k + 1, ln, k + 1))
        else:
            return "error", ("Bad indentation", ln, 1, ln, k + 1)
        toks.extend(lt)
        toks.append(eol)
    for _ in stack[1:]:
        toks.append(("Dedent", "", len(lines) + 1, 1, len(lines) + 1, 1))
    return "ok", toks


# ---------------------------------------------------------------- spec oracle: language reference
LOWER = set("abcdefghijklmnopqrstuvwxyz")
UPPER = set("ABCDEFGHIJKLMNOPQRSTUVWXYZ")
DIGIT = set("0123456789")
HEX = set("0123456789abcdefABCDEF")
KEYWORDS = {"struct", "bits", "enum", "external", "import", "as", "if", "let"}
DOLLAR_WORDS = {
    "$static_size_in_bits", "$is_statically_sized", "$max", "$present", "$upper_bound", "$lower_bound",
    "$next", "$size_in_bits", "$size_in_bytes", "$max_size_in_bits", "$max_size_in_bytes",
    "$min_size_in_bits", "$min_size_in_bytes", "$default"}


def _grouped(body, digits, first_max, group):
    """`body` = groups of `digits` separated by single `_`: first group 1..first_max, the
    others exactly `group`."""
    parts = body.split("_")
    if not all(p and set(p) <= digits for p in parts):
        return False
    return 1 <= len(parts[0]) <= first_max and all(len(p) == group for p in parts[1:])


def langref_is_number(w, allow_prefix_underscore=False):
    """doc/language-reference.md, "Numeric Constant Formats".

    `allow_prefix_underscore`: the paragraph "A single `_` may also be placed directly after the
    `0x` or `0b` prefix, before the first group of digits" is present (it is since /repo commit
    1c861f8; `langref_allows_radix_underscore` reads it off the reference on every run).  What
    follows that `_` are *groups* under the 4- or the 8-digit rule (first group 1..4 resp. 1..8
    digits, the others exactly 4 resp. 8); a longer unseparated run is not a group, so
    `0x_123456789` is not of the form."""
    if w and set(w) <= DIGIT:
        return True
    if _grouped(w, DIGIT, 3, 3):
        return True
    for prefix, digits in (("0x", HEX), ("0b", set("01"))):
        if w.startswith(prefix):
            body = w[2:]
            if body.startswith("_"):
                if not allow_prefix_underscore:
                    return False
                body = body[1:]
                return _grouped(body, digits, 4, 4) or _grouped(body, digits, 8, 8)
            if body and set(body) <= digits:
                return True
            if _grouped(body, digits, 4, 4) or _grouped(body, digits, 8, 8):
                return True
    return False


def langref_classify(w):
    """Expected symbol of a maximal run `w` of [A-Za-z0-9_$] per doc/language-reference.md
    ("Names", "Numeric Constant Formats") + the keywords / reserved prefixes of doc/grammar.md."""
    if w in KEYWORDS or w in DOLLAR_WORDS:
        return '"%s"' % w
    if w[0] in DIGIT:
        if langref_is_number(w, langref_allows_radix_underscore()):
            return "Number"
        if w[1:2] in ("b", "x", "B", "X"):
            rest = w[2:]
        else:
            rest = w[1:]
        return "BadNumber" if set(rest) <= HEX | {"_"} else "BadWord"
    if w in ("true", "false"):
        return "BooleanConstant"
    if w.startswith("EmbossReserved") and set(w) <= LOWER | UPPER | DIGIT:
        return "BadWord"
    if w.startswith("emboss_reserved") and set(w) <= LOWER | DIGIT | {"_"}:
        return "BadWord"
    if w.startswith("EMBOSS_RESERVED") and set(w) <= UPPER | DIGIT | {"_"}:
        return "BadWord"
    if w[0] in LOWER and set(w) <= LOWER | DIGIT | {"_"}:
        return "SnakeWord"
    if w[0] in UPPER and set(w) <= UPPER | DIGIT | {"_"} and (set(w[1:]) & (UPPER | {"_"})):
        return "ShoutyWord"
    if w[0] in UPPER and set(w) <= UPPER | LOWER | DIGIT and (set(w) & LOWER):
        return "CamelWord"
    return "BadWord"


RADIX_KEY = "number-with-underscore-directly-after-radix-prefix"
_langref = {}


def langref_examples():
    """Examples of the "Numeric Constant Formats" section of doc/language-reference.md:
    [(text, allowed)] — first word of every non-comment line of its code blocks; a line whose
    comment says "Not allowed" is a counter-example."""
    if "examples" not in _langref:
        import re
        out = []
        try:
            with open(os.path.join(common.REPO, "doc", "language-reference.md"), encoding="utf-8") as f:
                text = f.read()
            sec = text.split("### Numeric Constant Formats", 1)[1]
            sec = re.split(r"\n#{1,3} ", sec, 1)[0]
            for block in re.findall(r"```\n(.*?)```", sec, re.S):
                for line in block.split("\n"):
                    if line.strip() and not line.lstrip().startswith("#"):
                        out.append((line.split()[0], "not allowed" not in line.lower()))
        except (OSError, IndexError):
            out = []
        _langref["examples"] = out
    return _langref["examples"]


def langref_allows_radix_underscore():
    """Does the reference describe `0x_…` / `0b_…`?  Read off the current text on every run: the
    section must have an allowed example of that form (on /repo HEAD: `0x_1234_5678`, `0x_ff`,
    `0b_1010_0101`, added by commit 1c861f8).  With that commit reverted this is False, the
    oracle then expects BadNumber for `0x_1` and the check reports the classification
    violation again (finding `number-with-underscore-directly-after-radix-prefix`, fixed)."""
    return any(ok and t[:3] in ("0x_", "0b_") for t, ok in langref_examples())


def classification_issues(lines, toks):
    """Tokens that start at the start of a maximal word run must be the whole run and
    carry the language-reference class.  → [(key or None, description)]"""
    out = []
    for sym, text, sl, sc, _el, _ec in toks:
        if not text or text[0] not in WORDCH or sym in ("Comment", "Documentation", "BadDocumentation", "String"):
            continue
        if not (1 <= sl <= len(lines)) or not (1 <= sc <= len(lines[sl - 1])):
            out.append((None, "token %r at %d:%d lies outside the text" % (text, sl, sc)))
            continue
        line = lines[sl - 1]
        i = sc - 1
        if i > 0 and line[i - 1] in WORDCH:
            # can only happen after a token that ended inside a run (none of the documented
            # patterns does that)
            out.append((None, "token %r starts inside a word run" % text))
            continue
        j = i
        while j < len(line) and line[j] in WORDCH:
            j += 1
        run = line[i:j]
        if text != run:
            out.append((None, "token %r is not the maximal run %r" % (text, run)))
            continue
        want = langref_classify(run)
        if sym != want:
            if sym == "Number" and want == "BadNumber" and langref_is_number(run, True) and \
                    run[2:3] == "_":
                out.append((RADIX_KEY, "%r is %s, language reference says %s" % (run, sym, want)))
            else:
                out.append((None, "%r is %s, language reference says %s" % (run, sym, want)))
    return out


def invariant_issues(text, lines, toks):
    """The property's invariants evaluated directly on a real token list."""
    out = []
    per_line = {}
    for t in toks:
        per_line.setdefault(t[2], []).append(t)
    n_ind = sum(1 for t in toks if t[0] == "Indent")
    n_ded = sum(1 for t in toks if t[0] == "Dedent")
    if n_ind != n_ded:
        out.append("Indent/Dedent unbalanced %d/%d" % (n_ind, n_ded))
    last = (0, 0)
    for sym, txt, sl, sc, el, ec in toks:
        if (sl, sc) < last:
            out.append("token order")
        last = (sl, sc)
        if sl != el:
            out.append("token spans lines")
    depth = 0
    stack = [""]
    for ln, line in enumerate(lines, 1):
        lt = per_line.get(ln, [])
        nls = [t for t in lt if t[0] == '"\\n"']
        if len(nls) != 1 or lt[-1] != nls[0] or nls[0][3] != len(line) + 1 or nls[0][1] != "\n":
            out.append("line %d: end-of-line token" % ln)
        body = [t for t in lt if t[0] not in ('"\\n"', "Indent", "Dedent")]
        pos = 0
        for sym, txt, sl, sc, el, ec in body:
            if sc - 1 < pos or line[sc - 1:ec - 1] != txt or not txt:
                out.append("line %d: token %r is not the slice at its columns" % (ln, txt))
            if not all(c.isspace() for c in line[pos:sc - 1]):
                out.append("line %d: non-blank gap %r" % (ln, line[pos:sc - 1]))
            pos = ec - 1
        if not all(c.isspace() for c in line[pos:]):
            out.append("line %d: non-blank tail %r" % (ln, line[pos:]))
        synth = [t for t in lt if t[0] in ("Indent", "Dedent")]
        if all(t[0] == "Comment" for t in body):
            if synth:
                out.append("line %d: Indent/Dedent on a blank/comment line" % ln)
            continue
        lead = line[:len(line) - len(line.lstrip())]
        if lead == stack[-1]:
            want = []
        elif lead.startswith(stack[-1]):
            want = ["Indent"]
            stack.append(lead)
        else:
            want = []
            while stack and stack[-1] != lead:
                stack.pop()
                want.append("Dedent")
            if not stack:
                out.append("line %d: accepted although its indentation matches no open level" % ln)
                stack = [lead]
        if [t[0] for t in synth] != want:
            out.append("line %d: Indent/Dedent %r, leading whitespace change asks for %r" % (
                ln, [t[0] for t in synth], want))
        if want == ["Indent"] and synth and synth[0][1] != lead[len(stack[-2]):]:
            out.append("line %d: Indent text" % ln)
        depth += len([w for w in want if w == "Indent"]) - len([w for w in want if w == "Dedent"])
    trailing = per_line.get(len(lines) + 1, [])
    if [t[0] for t in trailing] != ["Dedent"] * (len(stack) - 1) or any(t[3] != 1 for t in trailing):
        out.append("trailing Dedents")
    if any(ln > len(lines) + 1 or ln < 1 for ln in per_line):
        out.append("token on a line that does not exist")
    return out


# ---------------------------------------------------------------- generators
PUNCT = list("[]():=+-*.?!&|<>,#\"\\")
JUNK = list("~@%^;{}'/`") + ["\u00e9", "\u4e2d", "\U0001f600", "\x00", "\x7f"]
WORD_SAMPLES = [
    "struct", "bits", "enum", "external", "import", "as", "if", "let", "structure", "iff", "lets", "a", "ab_c1",
    "true", "false", "truex", "True", "x", "A", "AB", "A1", "A_", "AB_C9", "Ab", "AbC", "Ab_c", "aB", "abcDef",
    "_a", "_", "__", "a$b", "$max", "$maxx", "$default", "$next", "$", "$size_in_bits", "$size_in_bytes",
    "$static_size_in_bits", "$is_statically_sized", "$present", "$upper_bound", "$lower_bound",
    "$max_size_in_bits", "$max_size_in_bytes", "$min_size_in_bits", "$min_size_in_bytes",
    "EmbossReserved", "EmbossReservedX1", "EmbossReserved_x", "emboss_reserved", "emboss_reserved_x",
    "emboss_reservedX", "EMBOSS_RESERVED", "EMBOSS_RESERVED_X", "EMBOSS_RESERVEDx", "Emboss", "emboss_reserve",
    "UInt", "Int", "Flag", "Foo", "field_name", "VALUE", "SHOUTY_CASE", "CamelCase", "snake_case"]
NUM_SAMPLES = [
    "0", "12", "012", "123", "1234", "1_000", "1_000_000", "12_345", "123_456_789", "1000_000", "1_000_00", "1_00",
    "1__000", "_1", "1_", "0x", "0xc", "0xC", "0XC", "0xg", "0x1234_5678", "0x1234_5678_9abc_def0",
    "0x12345678_9abcdef0", "0x1234_567", "0x1234_5678_9abcdef0", "0x_1", "0x_1234", "0x_12_3456", "0x__1",
    "0x_", "0x1_", "0x12345_6789", "0x123456789_12345678", "0b", "0b0", "0b1100", "0b2", "0b1010_0101",
    "0b10100101_10100101", "0b1_0000", "0b_0", "0b_0000_0000", "0b1_000", "0B1", "0b0000_00000000",
    "0b00000000_0000", "1a", "1g", "1$", "9z_", "0b12", "0xfg", "00x1", "0x0x0", "1b1", "0bb"]
OTHER_SAMPLES = [
    '"string"', '""', '"a\\nb"', '"a\\\\"', '"a\\"b"', '"a\\tb"', '"unterminated', '"a"b"', '"\\"',
    "-- doc", "--", "--bad", "-- ", "--  x", "---", "- -", "#", "# comment", "#c --d", "-", "->", "=>", "<=", ">=",
    "==", "=", "!=", "!", "&&", "&", "||", "|", "<", ">", "<<", "===", "[+", "]:", "..", "?:", "::"]


def gen_soup(r):
    """Token soup: samples joined by random separators; sometimes indented lines."""
    n = r.choice([1, 2, 3, 5, 8, 13, 25])
    parts = []
    for _ in range(n):
        k = r.random()
        if k < 0.3:
            parts.append(r.choice(WORD_SAMPLES))
        elif k < 0.55:
            parts.append(r.choice(NUM_SAMPLES))
        elif k < 0.75:
            parts.append(r.choice(OTHER_SAMPLES))
        elif k < 0.9:
            parts.append(r.choice(PUNCT))
        else:
            parts.append(gen_word(r))
        s = r.random()
        if s < 0.45:
            parts.append(" ")
        elif s < 0.55:
            parts.append(r.choice(["  ", "\t", " \t", "\xa0", "\x1f", "\u3000"]))
        elif s < 0.75:
            parts.append(r.choice(LINE_BREAKS) + r.choice(["", "", " ", "  ", "    ", "\t", " \t", "  \xa0"]))
    return "".join(parts)


def gen_word(r):
    alpha = r.choice(["ab_1", "AB_1", "aB1", "aA_0$", "01_xbafXBF", "01_", "0123456789abcdefABCDEF_x",
                      "emboss_reserved1X", "EMBOSS_RESERVEDa0", "EmbosRevd_1", "truefals", "structbi"])
    return "".join(r.choice(alpha) for _ in range(r.choice([1, 2, 2, 3, 4, 6, 9, 20])))


def gen_random(r):
    """Random strings over the Emboss alphabet + every line terminator + isspace chars + junk."""
    pools = [list("abcxyzABCXYZ_$0123456789"), PUNCT, [" ", " ", " "], LINE_BREAKS, OTHER_SPACES, JUNK]
    weights = r.choice([[8, 4, 4, 2, 1, 0], [6, 4, 3, 2, 1, 1], [3, 3, 3, 3, 3, 0], [10, 1, 3, 1, 0, 0]])
    n = r.choice([0, 1, 2, 3, 5, 8, 13, 21, 40, 80])
    return "".join(r.choice(r.choices(pools, weights)[0]) for _ in range(n))


def gen_indent(r):
    """Indentation structures: lines `<ws><content>` with ws from a random walk over a
    stack of whitespace strings (push a longer one, pop to any level, or something
    off-stack), comment/blank/doc lines in between, varied terminators."""
    units = r.choice([[" "], ["  "], ["\t"], [" ", "\t"], ["  ", " ", "\t", "\xa0"], ["\x1f", " "]])
    stack = [""]
    out = []
    for _ in range(r.choice([1, 2, 4, 7, 12])):
        k = r.random()
        if k < 0.35:
            stack.append(stack[-1] + "".join(r.choice(units) for _ in range(r.choice([1, 1, 2, 4]))))
            ws = stack[-1]
        elif k < 0.6:
            ws = stack[-1]
        elif k < 0.85:
            j = r.randrange(len(stack))
            del stack[j + 1:]
            ws = stack[-1]
        elif k < 0.93:
            ws = stack[-1][:-1] if stack[-1] else " "       # usually off-stack
        else:
            ws = "".join(r.choice([" ", "\t"]) for _ in range(r.randint(0, 4)))
        body = r.choice(["x", "struct Foo:", "0 [+1] UInt x", "# c", "", "-- doc", "--", "#", "a  b", "x # c",
                         "  ", "\t", "1_000", '"s"', "~"])
        term = r.choice(["\n"] * 6 + LINE_BREAKS)
        out.append(ws + body + r.choice(["", "", " ", "\t "]) + term)
    text = "".join(out)
    if r.random() < 0.3:
        text = text.rstrip("\n")
    return text


_corpus = None


def corpus_texts():
    global _corpus
    if _corpus is None:
        files = sorted(glob.glob(os.path.join(common.REPO, "testdata", "**", "*.emb"), recursive=True))
        files.append(os.path.join(common.REPO, "compiler", "front_end", "prelude.emb"))
        files += sorted(glob.glob(os.path.join(common.VERIF, "corpus", PROP, "*")))
        out = []
        for f in files:
            try:
                with open(f, encoding="utf-8", newline="") as fh:
                    out.append((os.path.relpath(f, common.REPO) if f.startswith(common.REPO) else f, fh.read()))
            except (OSError, UnicodeDecodeError):
                pass
        _corpus = out
    return _corpus


def gen_mutation(r):
    """A window of a corpus file with line / character mutations."""
    name, text = r.choice(corpus_texts())
    lines = text.split("\n")
    a = r.randrange(len(lines))
    win = lines[a:a + r.choice([1, 3, 8, 20])]
    for _ in range(r.choice([0, 1, 1, 2, 4])):
        if not win:
            break
        i = r.randrange(len(win))
        k = r.random()
        l = win[i]
        if k < 0.2:
            win[i] = r.choice([" ", "  ", "\t", ""]) + l.lstrip() if r.random() < 0.5 else " " + l
        elif k < 0.3:
            del win[i]
        elif k < 0.4:
            win.insert(i, r.choice(win))
        elif l:
            j = r.randrange(len(l))
            c = r.choice(list("_$0aA\" #-") + PUNCT + JUNK[:3] + OTHER_SPACES[:3] + LINE_BREAKS[3:5])
            m = r.random()
            if m < 0.35:
                win[i] = l[:j] + l[j + 1:]
            elif m < 0.7:
                win[i] = l[:j] + c + l[j:]
            else:
                win[i] = l[:j] + c + l[j + 1:]
    return r.choice(["\n", "\n", "\n", "\r\n", "\r", "\u2028"]).join(win) + r.choice(["\n", ""])


def boundary_texts():
    """Enumerated, not sampled: every sample alone and every ordered pair of a small set
    glued without a separator (longest-match and tie boundaries); short number-like and
    word-like strings over small alphabets (classification boundaries); indentation corner
    cases; every line terminator between two tokens and at the end."""
    out = []
    out += WORD_SAMPLES + NUM_SAMPLES + OTHER_SAMPLES + PUNCT
    glue = ["struct", "a", "A", "Ab", "AB", "1", "0x1", "_", "$", "$max", "-", "--", "=", "<", "&", "|", "!", ".",
            '"s"', "#", " ", "1_000", "true", "emboss_reserved", "0b", "+"]
    out += [a + b for a in glue for b in glue]
    import itertools
    for alpha, maxlen in (("01_x", 5), ("0b1_", 5), ("aA_0", 4), ("1_0", 9)):
        if alpha == "1_0":
            # digit groups around the 3-digit rule
            for k in range(1, 6):
                for m in range(0, 6):
                    out.append("1" * k + "_" + "0" * m)
                    out.append("1" * k + "_000_" + "0" * m)
            continue
        for n in range(1, maxlen + 1):
            for t in itertools.product(alpha, repeat=n):
                out.append("".join(t))
    for pre in ("0x", "0b"):
        d = "1"
        for first in range(0, 10):
            for second in (None, 0, 3, 4, 5, 7, 8, 9):
                for third in (None, 4, 8):
                    s = pre + d * first
                    if second is not None:
                        s += "_" + d * second
                        if third is not None:
                            s += "_" + d * third
                    out.append(s)
                    out.append(pre + "_" + s[2:])
    for lb in LINE_BREAKS:
        out += ["a" + lb + "b", "a" + lb, lb, lb + lb, "a" + lb + " b" + lb + "c", "# c" + lb + " x"]
    out += ["", " ", "\t", "a", " a", " a\n", "a\n b\n  c\n", "a\n b\n  c\n b\n", "a\n  b\n c\n", "a\n\tb\n  c\n",
            " a\nb\n", " a\n  b\n c\n", "a\n b\n\n # c\n   \n b\n", "a\n b\nc\n d", "a\n b\n  c", "a\n b\n  c\na",
            "a\n  b\n # x\n  c\n", "  # only comment\n", "a\n -- doc\n", "a\n\xa0b\n\xa0\xa0c\n\xa0b", "a\n\x1fb",
            "a\n b\n\tc", "a\n \tb\n \t c\n \tb\na", "\n\n", "a\r\n b\r\n", "~", "a ~", "a\n ~", "a\n  b\n ~"]
    return out


# ---------------------------------------------------------------- separability (C10_concat_with_blank & co.)
BLANKS = [" ", "\t", "\xa0", "\x1f", "\u1680", "\u2003", "\u3000"]    # isspace, not a line boundary
OPEN_ENDED = ("Comment", "Documentation", "BadDocumentation")
SYNTH = ("Indent", "Dedent", '"\\n"')


def line_tokens(text):
    """Real tokens of a one-line text without the synthetic Indent/Dedent/end-of-line tokens:
    ('ok', [...]) | ('error', (msg, sl, sc, el, ec)) | ('exception', …)."""
    real = real_tokenize(text)
    if real[0] != "ok":
        return real
    return "ok", [t for t in real[1] if t[0] not in SYNTH]


def good_piece(p):
    return bool(p) and not p[0].isspace() and not p[-1].isspace() and len(p.splitlines()) == 1 and \
        p.splitlines()[0] == p


def gen_piece(r):
    k = r.random()
    if k < 0.25:
        return r.choice(WORD_SAMPLES)
    if k < 0.45:
        return r.choice(NUM_SAMPLES)
    if k < 0.6:
        return r.choice(OTHER_SAMPLES)
    if k < 0.7:
        return r.choice(PUNCT) + r.choice(["", "", r.choice(PUNCT), r.choice(WORD_SAMPLES)])
    if k < 0.8:
        return gen_word(r)
    if k < 0.9:
        return r.choice(WORD_SAMPLES + NUM_SAMPLES) + r.choice(BLANKS) * r.choice([1, 2]) + r.choice(OTHER_SAMPLES + PUNCT)
    return "".join(r.choice(list("ab_A0x$\"-#=<&.") + PUNCT + JUNK[:4]) for _ in range(r.choice([1, 2, 3, 5])))


def shift(tok, off):
    sym, text, sl, sc, el, ec = tok
    return (sym, text, sl, sc + off, el, ec + off)


def separability_check(ctx, r, n):
    """The content of C10_concat_with_blank / C10_leading_blanks / C10_join_with_blanks, sampled on
    the real tokenizer: pieces that tokenize on their own (first/last character non-blank; none
    but the last with a Comment/Documentation/BadDocumentation token), joined by non-empty runs
    of blanks, tokenize to the pieces' tokens shifted to where each piece starts; an
    "Unrecognized token" of the last piece moves with it."""
    chk = ctx.chk
    stats = {"trials": 0, "pieces": 0, "with_error_tail": 0, "rejected_pieces": 0, "leading_blank_trials": 0}
    bad = 0
    for _ in range(n):
        k = r.choice([2, 2, 3, 4, 6])
        pieces, toks = [], []
        tries = 0
        while len(pieces) < k and tries < 60:
            tries += 1
            p = gen_piece(r)
            if not good_piece(p):
                stats["rejected_pieces"] += 1
                continue
            res = line_tokens(p)
            last = len(pieces) == k - 1
            if res[0] == "ok" and (last or not any(t[0] in OPEN_ENDED for t in res[1])):
                pieces.append(p)
                toks.append(res)
            elif res[0] == "error" and last:
                pieces.append(p)
                toks.append(res)
            else:
                stats["rejected_pieces"] += 1
        if len(pieces) < 2:
            continue
        lead = r.random() < 0.2          # C10_leading_blanks: the line itself starts with blanks
        text = "".join(r.choice(BLANKS) for _ in range(r.choice([1, 2, 4]))) if lead else ""
        want, err = [], None
        for i, (p, res) in enumerate(zip(pieces, toks)):
            if i:
                text += "".join(r.choice(BLANKS) for _ in range(r.choice([1, 1, 1, 2, 5])))
            off = len(text)
            if res[0] == "ok":
                want += [shift(t, off) for t in res[1]]
            else:
                m, sl, sc, el, ec = res[1]
                err = (m, sl, sc + off, el, ec + off)
            text += p
        got = line_tokens(text)
        expected = ("error", err) if err else ("ok", want)
        stats["trials"] += 1
        stats["pieces"] += len(pieces)
        stats["with_error_tail"] += 1 if err else 0
        stats["leading_blank_trials"] += 1 if lead else 0
        chk.count()
        chk.nontrivial("join:" + text)
        if got != expected:
            bad += 1
            # which side is wrong?  the spec oracle on the joined text and on the pieces
            reported = False
            for t in [text] + pieces:
                real = real_tokenize(t)
                if oracle_issues(ctx, t, real):
                    reported = bool(oracle_check(ctx, t, real, "separability")) or reported
            if not reported and len(chk.violations) < MAX_REPORT:
                chk.violation("correspondence",
                              {"input": text, "input_hex": hx(text), "pieces": pieces,
                               "observed": canon(got)[:2000], "expected": canon(expected)[:2000],
                               "theorem_or_correspondence":
                               "C10_join_with_blanks / C10_concat_with_blank / C10_leading_blanks sampled on "
                               "tokenizer.tokenize: the real code agrees with the spec oracle on the joined text and "
                               "on every piece, yet the pieces' tokens do not compose"}, found_input=False)
    stats["disagreements"] = bad
    chk.extra["separability"] = stats


def surrogate_texts(r, n):
    """Python `str` may hold lone surrogates (U+D800…U+DFFF), Lean `Char` cannot, so the model is
    not asked about these; the model-free spec oracle is.  (A UTF-8 source file cannot contain
    them; `tokenize` is nevertheless defined on every `str`.)"""
    out = []
    sur = ["\ud800", "\udbff", "\udc00", "\udfff"]
    for _ in range(n):
        base = r.choice([gen_soup(r), gen_random(r), gen_indent(r)])
        for _k in range(r.choice([1, 1, 2])):
            j = r.randrange(len(base) + 1)
            base = base[:j] + r.choice(sur) + base[j:]
        out.append(("surrogate", base))
    out += [("surrogate", x) for x in ["\ud800", "# \ud800", "-- \udfff x", '"\udc00"', "a \ud800", "a\n \udfffb",
                                      "\ud800\n", "\udbff\udc00", "a\ud800b"]]
    return out


# ---------------------------------------------------------------- checking
class Ctx:
    def __init__(self, chk):
        self.chk = chk
        self.doc = None
        self.doc_error = None
        try:
            self.doc = DocSpec()
        except Exception as e:  # noqa: BLE001
            self.doc_error = "%s: %s" % (type(e).__name__, e)
        self.feat = {}
        self.errkinds = {}
        self.issue_counts = {}
        self.suppressed = 0
        self.shrinks = 0

    def bump(self, d, k, n=1):
        d[k] = d.get(k, 0) + n


MAX_REPORT = 25      # replay files written per run; further failing inputs are only counted


def oracle_issues(ctx, text, real):
    """→ [(key or None, description, expected)] : every way the real result `real` of `text`
    contradicts the spec oracle."""
    if real[0] == "exception":
        return [("crash:tokenizer:" + real[1].split(":")[0], "tokenize raised " + real[1], "tokens or located error")]
    out = []
    lines = spec_split_lines(text)
    if ctx.doc is not None:
        want = spec_tokenize(ctx.doc, text)
        if want != real:
            desc = "differs from the tokenizer built from doc/grammar.md"
            if want[0] == "ok" and real[0] == "ok":
                for a, b in zip(want[1] + [None], real[1] + [None]):
                    if a != b:
                        desc += ": first difference expected %r got %r" % (a, b)
                        break
            else:
                desc += ": expected %r got %r" % (want if want[0] != "ok" else "ok", real if real[0] != "ok" else "ok")
            out.append((None, desc, canon(want)[:4000]))
            return out      # the checks below presuppose the documented line structure
    if real[0] == "ok":
        for why in invariant_issues(text, lines, real[1])[:3]:
            out.append((None, "invariant: " + why, "invariants of the property statement"))
        for key, why in classification_issues(lines, real[1])[:3]:
            out.append((key, "classification: " + why, "doc/language-reference.md name / numeric-constant rules"))
    return out


def shrink(ctx, text, budget=400):
    """Delta-debugging on lines, then on characters: keep any reduction that still fails
    the oracle with an unlisted (non-known-finding) issue."""
    def bad(t):
        return any(ctx.chk.known_finding(k) is None if k is not None else True
                   for k, _d, _e in oracle_issues(ctx, t, real_tokenize(t)))
    calls = [0]

    def ddmin(units, join):
        n = 2
        while len(units) >= 2 and calls[0] < budget:
            size = max(1, len(units) // n)
            reduced = False
            for i in range(0, len(units), size):
                cand = units[:i] + units[i + size:]
                calls[0] += 1
                if cand and bad(join(cand)):
                    units = cand
                    n = max(n - 1, 2)
                    reduced = True
                    break
                if calls[0] >= budget:
                    break
            if not reduced:
                if size == 1:
                    break
                n = min(len(units), n * 2)
        return units
    lines = text.splitlines(True)
    if len(lines) > 1:
        text2 = "".join(ddmin(lines, "".join))
        if bad(text2):
            text = text2
    if len(text) <= 400:
        text2 = "".join(ddmin(list(text), "".join))
        if bad(text2):
            text = text2
    return text


def oracle_check(ctx, text, real, origin):
    """Spec oracle on the real output.  Returns the list of violation descriptions it
    reported (after known-finding routing)."""
    chk = ctx.chk
    reported = []
    for key, desc, expected in oracle_issues(ctx, text, real):
        ctx.bump(ctx.issue_counts, key or desc.split(":")[0][:60])
        if key is not None and chk.known_finding(key) is not None:
            chk.report_known(chk.known_finding(key))
            continue
        if len(chk.violations) >= MAX_REPORT:
            ctx.suppressed += 1
            continue
        small = text
        if ctx.shrinks < 6:
            ctx.shrinks += 1
            try:
                small = shrink(ctx, text)
            except Exception:  # noqa: BLE001
                small = text
        sreal = real_tokenize(small)
        issues = [i for i in oracle_issues(ctx, small, sreal) if i[0] is None or chk.known_finding(i[0]) is None]
        if small != text and issues:
            key, desc, expected = issues[0]
        else:
            small, sreal = text, real
        r = chk.violation("input", {"input": small, "input_hex": hx(small), "origin": origin,
                                    "observed": canon(sreal)[:4000], "expected": expected, "what": desc,
                                    "shrunk_from_length": len(text)}, key=key)
        if r is not None:
            reported.append(desc)
        break      # one replay per input
    return reported


def features(ctx, text, real):
    chk = ctx.chk
    if real[0] == "ok":
        syms = set(t[0] for t in real[1])
        for s in syms:
            ctx.bump(ctx.feat, "sym:" + s)
        nd = sum(1 for t in real[1] if t[0] == "Dedent")
        if nd:
            ctx.bump(ctx.feat, "has-dedent")
        if len(real[1]) > 1 and text.strip():
            chk.nontrivial("ok:" + text)
    elif real[0] == "error":
        ctx.bump(ctx.errkinds, real[1][0])
        if text.strip():
            chk.nontrivial("err:" + text)
    for lb in LINE_BREAKS:
        if lb in text:
            ctx.bump(ctx.feat, "lb:" + hx(lb))
    if any(ord(c) > 127 for c in text):
        ctx.bump(ctx.feat, "non-ascii")


def run_texts(ctx, texts, model, label):
    """texts: [(origin, text)].  Real tokenizer + oracle on every text; model if usable."""
    chk = ctx.chk
    reals = []
    for origin, text in texts:
        real = real_tokenize(text)
        reals.append(real)
        chk.count()
        features(ctx, text, real)
        oracle_check(ctx, text, real, origin)
    if model is None:
        return
    ops = []
    for _o, text in texts:
        ops.append("TOK " + hx(text))
        ops.append("SPLIT " + hx(text))
    answers = model.ask(ops, timeout=1800)
    dis = 0
    for k, ((origin, text), real) in enumerate(zip(texts, reals)):
        ans, split = answers[2 * k], answers[2 * k + 1]
        pl = text.splitlines()
        want_split = " ".join([str(len(pl))] + [hx(l) for l in pl])
        if split != want_split:
            dis += 1
            ok = pl == spec_split_lines(text)
            chk.violation("correspondence" if ok else "input",
                          {"input": text, "input_hex": hx(text), "op": "SPLIT", "model": split, "observed": want_split,
                           "expected": "str.splitlines as documented" if not ok else
                           "real code satisfies the spec; the model differs",
                           "theorem_or_correspondence": "model_c10 SPLIT vs str.splitlines"}, found_input=not ok)
        want = canon(real)
        if ans != want:
            dis += 1
            if ans == "fuel":
                why = ["model ran out of fuel"]
            else:
                why = None
            # is the real code wrong here?  (oracle_check above has already reported it if so)
            bad = bool(oracle_issues(ctx, text, real))
            if not bad and len(chk.violations) < MAX_REPORT:
                chk.violation("correspondence",
                              {"input": text, "input_hex": hx(text), "origin": origin, "op": "TOK", "model": ans[:4000],
                               "observed": want[:4000], "note": why,
                               "expected": "real code satisfies the spec oracle; the model differs",
                               "theorem_or_correspondence": "model_c10 TOK vs tokenizer.tokenize"},
                              found_input=False)
    ctx.bump(chk.extra.setdefault("disagreements", {}), label, dis)
    chk.extra["traces_validated_against_impl"] = chk.extra.get("traces_validated_against_impl", 0) + len(texts)


def pattern_correspondence(ctx, model, r, n_random):
    """Tie C(i): every pattern of the current table, model matchLen vs Python."""
    import re
    chk = ctx.chk
    t = tokenizer()
    pats = [("lit", l) for l in t.LITERAL_TOKEN_PATTERNS] + [("re", p.regex) for p in t.REGEX_TOKEN_PATTERNS]
    npats = int(model.ask(["NPATS"])[0])
    if npats != len(pats):
        chk.violation("correspondence", {"theorem_or_correspondence": "pattern count", "model": npats,
                                         "observed": len(pats)}, found_input=False)
        return
    strings = list(dict.fromkeys(
        WORD_SAMPLES + NUM_SAMPLES + OTHER_SAMPLES + PUNCT + ["", " ", "\n", "--\n", "--\nx", "-- \n", "#\n", "a\nb",
                                                             "\x1f", "\u2028", " \n", "--\r", '"a\nb"', '"\\'] +
        [gen_word(r) for _ in range(n_random)] + [gen_random(r) for _ in range(n_random)] +
        [gen_soup(r)[:30] for _ in range(n_random)]))
    ops, want = [], []
    for i, (kind, p) in enumerate(pats):
        for s in strings:
            ops.append("RE %d %s" % (i, hx(s)))
            if kind == "lit":
                want.append("some %d" % len(p) if s.startswith(p) else "none")
            else:
                m = p.match(s)
                want.append("some %d" % len(m.group(0)) if m else "none")
    ans = model.ask(ops, timeout=1800)
    dis = 0
    for op, a, w in zip(ops, ans, want):
        if a != w:
            dis += 1
            if dis <= 3:
                i = int(op.split()[1])
                chk.violation("correspondence", {"op": op, "input": unhx(op.split()[2]), "pattern": str(pats[i][1]),
                                                 "model": a, "observed": w,
                                                 "theorem_or_correspondence": "model_c10 RE (matchLen) vs re.match"},
                              found_input=False)
    chk.count(len(ops))
    chk.extra["pattern_match_evaluations"] = len(ops)
    chk.extra["pattern_match_disagreements"] = dis
    chk.extra["pattern_matches_some"] = sum(1 for w in want if w != "none")


def charset_correspondence(ctx, model):
    chk = ctx.chk
    spaces, breaks = model.ask(["SPACES", "BREAKS"])
    py_spaces = ",".join(str(i) for i in range(0x110000) if chr(i).isspace())
    py_breaks = ",".join(str(i) for i in range(0x110000)
                         if not (0xd800 <= i <= 0xdfff) and len(("a" + chr(i) + "b").splitlines()) == 2)
    import re
    re_spaces = ",".join(str(i) for i in range(0x110000) if re.match(r"\s", chr(i)))
    for name, a, b in (("isspace", spaces, py_spaces), ("regex \\s", spaces, re_spaces),
                       ("splitlines boundaries", breaks, py_breaks)):
        if a != b:
            chk.violation("correspondence", {"theorem_or_correspondence": "character set: " + name, "model": a,
                                             "observed": b}, found_input=False)
    if sorted(set(LINE_BREAKS) - {"\r\n"}) != sorted(chr(int(x)) for x in py_breaks.split(",")):
        chk.violation("correspondence", {"theorem_or_correspondence": "harness LINE_BREAKS vs str.splitlines",
                                         "observed": py_breaks}, found_input=False)
    chk.count(3)
    chk.extra["charset_code_points_compared"] = 0x110000


def known_findings(ctx):
    """Re-execute the pinned input of every open finding of this property."""
    chk = ctx.chk
    for k in chk.known:
        if k.get("property") != PROP or k.get("status") != "open":
            continue
        text = k["input"]
        real = real_tokenize(text)
        if real[0] == "ok":
            lines = spec_split_lines(text)
            if any(key == k["key"] for key, _ in classification_issues(lines, real[1])):
                chk.report_known(k)


def doc_examples_check(ctx):
    """Every example of the reference's numeric-constant section: allowed ⇒ Number,
    "Not allowed" ⇒ not Number — on the real tokenizer and on the oracle's own predicate."""
    chk = ctx.chk
    ex = langref_examples()
    chk.extra["langref_number_examples"] = len(ex)
    for text, allowed in ex:
        chk.count()
        real = real_tokenize(text)
        is_num = real[0] == "ok" and len(real[1]) == 2 and real[1][0][0] == "Number" and real[1][0][1] == text
        if is_num != allowed:
            chk.violation("input", {"input": text, "observed": canon(real), "what":
                                    "example of doc/language-reference.md (Numeric Constant Formats) is %s but tokenizes as %s"
                                    % ("allowed" if allowed else "not allowed", "Number" if is_num else "something else"),
                                    "expected": "Number" if allowed else "not a Number"})
        if langref_is_number(text, langref_allows_radix_underscore()) != allowed:
            chk.violation("correspondence", {"input": text, "theorem_or_correspondence":
                                             "spec oracle langref_is_number vs the reference's own examples",
                                             "expected": allowed}, found_input=False)


def fixed_findings_inputs():
    out = []
    try:
        with open(os.path.join(common.VERIF, "findings.d", "_fixed.json")) as f:
            for k in json.load(f):
                if k.get("property") == PROP and isinstance(k.get("input"), str):
                    out.append(("fixed-finding:" + k["key"], k["input"]))
    except OSError:
        pass
    return out


def base_texts():
    t = [("corpus:" + n, x) for n, x in corpus_texts()]
    t += fixed_findings_inputs()
    t += [("boundary", x) for x in boundary_texts()]
    return t


def random_texts(r, n):
    out = []
    for _ in range(n):
        k = r.random()
        if k < 0.3:
            out.append(("soup", gen_soup(r)))
        elif k < 0.5:
            out.append(("random", gen_random(r)))
        elif k < 0.75:
            out.append(("indent", gen_indent(r)))
        else:
            out.append(("mutation", gen_mutation(r)))
    return out


def regen(chk):
    """Tie T.  Returns (ok, info)."""
    try:
        info = toktable.regenerate()
    except toktable.Unsupported as e:
        return False, "tokenizer/doc table outside the model's regex AST: %s" % e
    except Exception as e:  # noqa: BLE001
        return False, "cannot read the pattern tables: %s: %s" % (type(e).__name__, e)
    chk.extra["table"] = {"literals": len(info["lits"]), "regexes": len(info["regs"]),
                          "doc_rows": len(info["doc_rows"]), "doc_table_equal_python_side": info["doc_equal"],
                          "regenerated_file_changed": info["changed"]}
    return True, info


def search(chk):
    """Model-free search on the real code against the spec oracle (used when a Lean
    obligation, the translator or the driver is broken)."""
    ctx = getattr(chk, "_c10ctx", None) or Ctx(chk)
    chk._c10ctx = ctx
    before = len(chk.violations)
    r = common.rng("C10-search")
    texts = base_texts() + random_texts(r, 3000)
    for origin, text in texts:
        real = real_tokenize(text)
        chk.count()
        oracle_check(ctx, text, real, origin)
        if len(chk.violations) - before >= 5:
            break
    return len(chk.violations) - before


def run(tier):
    try:
        return _run(tier)
    except (common.InfraError, KeyboardInterrupt):
        raise
    except Exception as e:  # noqa: BLE001  (a bug in the harness must never look like a verdict)
        import traceback
        traceback.print_exc()
        raise common.InfraError("C10 harness failed: %s: %s" % (type(e).__name__, e))


def _run(tier):
    chk = common.Check(PROP, tier, exes=["model_c10"])
    chk.cov["rule"] = ("texts: corpus files (testdata/**/*.emb, prelude.emb), enumerated boundary strings, token soup, "
                       "random strings over the Emboss alphabet + all str.splitlines terminators + isspace characters, "
                       "indentation walks, line/character mutations of corpus windows; non-trivial = non-blank text that "
                       "yields more than one token or a located error; distinct by text")
    chk.trusted += [
        "Python `re` parser (re._parser) to read the regex syntax; `re.match`, `str.splitlines`, `str.isspace`, "
        "`str.lstrip` as oracles for what the real code does (compared with the model on every run)",
        "harness/translate/toktable.py (transcribes pattern tables into the model's regex AST)",
    ]
    ctx = Ctx(chk)
    chk._c10ctx = ctx
    ok_t, info = regen(chk)
    if not ok_t:
        print("C10 translator: %s" % info)
        found = search(chk)
        if not found:
            chk.violation("theorem", {"theorem_or_correspondence": "translator (tie T): " + info,
                                      "note": "pattern table cannot be expressed in the model; search found no failing input"},
                          found_input=False)
        chk.obligations = max(chk.obligations, 1)
        chk.cov["samples"] = chk.cov["samples"] or [{"note": "translator failed; see violations"}]
        chk._distinct.update(["translator-failed-a", "translator-failed-b"])
        return chk.finish(level="exploration")
    if ctx.doc_error:
        chk.violation("theorem", {"theorem_or_correspondence": "doc/grammar.md token table unreadable: " + ctx.doc_error},
                      found_input=False)
    model_ok = common.proof_gate(chk, search)
    model = common.Model("model_c10") if model_ok else None
    r = common.rng("C10")
    known_findings(ctx)
    doc_examples_check(ctx)
    if model is not None:
        charset_correspondence(ctx, model)
        pattern_correspondence(ctx, model, r, 300 if tier == "quick" else 2500)
    run_texts(ctx, base_texts(), model, "corpus+boundary")
    separability_check(ctx, common.rng("C10-join"), 3000 if tier == "quick" else 60000)
    run_texts(ctx, surrogate_texts(common.rng("C10-surrogate"), 1500 if tier == "quick" else 30000), None,
              "surrogates (spec oracle only)")
    n = 40000 if tier == "quick" else 1200000
    batch = 5000 if tier == "quick" else 20000
    done = 0
    while done < n and len(chk.violations) < 20:
        run_texts(ctx, random_texts(r, min(batch, n - done)), model, "generated")
        done += batch
    chk.extra["failing_inputs_not_written"] = ctx.suppressed
    chk.extra["generator_distribution"] = {"features": dict(sorted(ctx.feat.items())), "errors": ctx.errkinds,
                                           "oracle_issue_counts": ctx.issue_counts}
    for o, t in (random_texts(common.rng("C10-samples"), 4)):
        chk.sample({"origin": o, "text": t[:200], "real": canon(real_tokenize(t))[:300]})
    # With broken Lean obligations nothing is discharged: what this run then delivers is the
    # model-free exploration (spec oracle on the real code), and the evidence says so.
    return chk.finish(level="proof" if model_ok else "exploration")


def replay(path):
    rec = json.load(open(path))
    text = rec.get("input")
    if not isinstance(text, str):
        print("replay has no input text:", rec.get("theorem_or_correspondence"))
        return 0
    real = real_tokenize(text)
    print("input:", repr(text))
    print("real :", real if real[0] != "ok" else "\n       ".join(map(repr, real[1])))
    try:
        doc = DocSpec()
        want = spec_tokenize(doc, text)
        print("spec :", "same" if want == real else (want if want[0] != "ok" else "\n       ".join(map(repr, want[1]))))
        if real[0] == "ok":
            lines = spec_split_lines(text)
            print("invariants:", invariant_issues(text, lines, real[1]) or "hold")
            print("classification:", classification_issues(lines, real[1]) or "as documented")
    except Exception as e:  # noqa: BLE001
        print("spec oracle unavailable:", e)
    return 0
