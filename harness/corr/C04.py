"""C04 — checked view operations never leave the buffer, never hit undefined behaviour, never
trip EMBOSS_CHECK/DCHECK.

Tie (layer 3 of DESIGN §7 C04): every command the C01/C20 correspondences use — OBS over every
prefix 0..max+2 (Ok, IsComplete, SizeIsKnown, has_x, x().Ok(), Read once Ok, array at()), WR
(CouldWriteValue / TryToWrite with ordinary and extreme arguments), EQ (Equals once both Ok), CP /
CPO (TryToCopyFrom incl. overlapping windows) — runs in a driver built with ASan+UBSan
(-fno-sanitize-recover), exact-size heap buffers, EMBOSS_CHECK/DCHECK live.  Any sanitizer report or
CHECK abort is a violation with the command line as replay, independently of any model.
Thorough adds clang++, -DEMBOSS_NO_OPTIMIZATIONS (portable byte loops) and the aligned
(`MakeAligned…View<…, 8>`, typed loads) code path.

Round 2: `TXT` / `UPD` (text output under every option set incl. base 2/16, digit grouping,
multiline, comments, allow_partial_output on truncated buffers; UpdateFromText on the produced text
and on garbage), buffers holding the extremes of every fixed-position field, generated
full-width arithmetic (embgen `Ar*` structs), and the **carrier-type tie** (harness/lib/cpptypes.py):
IntermediateT/ResultT/ArgT of every run-time function node as the Lean model computes them
(`Emboss.Bounds.nodeTypes` through `model_c04`) == the types literally present in every generated
header.

Lean side (Properties/C04.lean): the byte-window contract of `GetOffsetStorage` (clamping keeps
every window inside the buffer; the list-slice storage of the view model G is exactly that
window), the byte orderers / BitBlock reads (all orderers since fix a39ac01), the range-checked
virtual-field write (fix 1e1a793), and `C04_arith_no_overflow` (= builder `bounds`' C04Arith).

Round 3, text layer: tie T — harness/translate/textbuf.py regenerates Generated/TextBuf.lean (size
formula of the scratch array of `WriteIntegerToTextStream`, NUL index, first `next_char`) from
$VERIF_REPO/runtime/cpp/emboss_text_util.h at the start of every run; `C04_text_buffer_in_bounds`
is re-elaborated against it by the proof gate.  When that obligation breaks, `search` first runs a
text-only probe on the real code (no model): every integer width at its extremes through
`WriteToString` in bases 2/10/16 with and without digit grouping under ASan/UBSan with DCHECKs
live; the DCHECK abort / sanitizer report is the failing input.
"""
import collections
import time
import json

from harness.lib import common, cppdrv, cpptypes, viewcorr
from harness.translate import textbuf

PROP = "C04"


def _commands(r, case, tier, op_obs="OBS"):
    quick = tier == "quick"
    cmds = [c if op_obs == "OBS" or c.split()[0] != "OBS" else c.replace("OBS", op_obs, 1)
            for c in viewcorr.pinned_commands(case, ("WR", "EQ", "CP", "CPO", "TXT", "UPD"))]
    cmds += [s[0] for s in viewcorr.obs_sweeps(r, case, 3 if quick else 8, op=op_obs)]
    cmds += viewcorr.write_commands(r, case, 1 if quick else 3)
    cmds += viewcorr.pair_commands(r, case, 4 if quick else 10)
    cmds += viewcorr.text_commands(r, case, tier)
    return cmds


def _run_cases(chk, cases, r, tier, stats, label, op_obs="OBS"):
    for case in cases:
        if len(chk.violations) >= 12:
            chk.extra["stopped_early"] = "12 violations reported; remaining cases not run"
            break
        cmds = _commands(r, case, tier, op_obs)

        def on_crash(cmd, rr, case=case):
            key = viewcorr.crash_key(rr, cmd, case)
            stats["crash:" + key] += 1
            chk.violation("input", {"module": case.text, "case": case.name, "build": label, "command": cmd,
                                    "observed": "%s: %s" % (rr.kind, (rr.err or "")[:1500]),
                                    "expected": "no sanitizer report, no EMBOSS_CHECK abort on the checked API"},
                          key=key)
        answers = viewcorr.run_surviving(case, cmds, on_crash, max_crashes=6)
        for c, a in zip(cmds, answers):
            if a is None:
                continue
            chk.count()
            op = c.split(" ", 1)[0]
            stats["cmd_" + op] += 1
            if a == "bad-op":
                raise common.InfraError("driver rejected %r" % c)
            # distinct behaviours reached
            chk.nontrivial((case.name, c.split()[1], op, a[:12] if op != "OBS" else a[:16]))
            if op == "TXT":
                f = a.split()
                stats["txt_written" if f[2] == "w1" else "txt_not_ok_no_partial"] += 1
                if f[2] == "w1" and "p" in c.split()[-2]:
                    stats["txt_partial_output"] += 1
                if f[2] == "w1" and f[4] == "u1":
                    stats["txt_update_from_own_text_ok"] += 1
            if op == "UPD":
                stats["upd_accepted" if a.split()[1] == "u1" else "upd_refused"] += 1
        if len(chk.cov["samples"]) < 5 and cmds:
            chk.sample({"case": case.name, "build": label, "command": cmds[-1], "answer": (answers[-1] or "")[:200]})


def _type_tie(chk, cases, stats, use_model=True):
    """IntermediateT / ResultT / ArgT per run-time function node: Lean model vs generated header."""
    problems, tstats = cpptypes.check_modules(cases, use_model)
    chk.extra["carrier_type_tie"] = tstats
    for pr in problems:
        unsound = pr["nodes_without_sound_instantiation"]
        stats["type_tie_problems"] += 1
        chk.violation("input" if unsound else "correspondence", dict(
            pr, command="(header only)", expected="the C++ types of every generated arithmetic node are the ones "
            "Emboss.Bounds.nodeTypes/cppTypeForRange give (hypothesis of C04_arith_no_overflow)" +
            ("; no instantiation of the operator in the header can hold the node's inferred ranges: the arithmetic "
             "overflows or truncates for some field value" if unsound else ""),
            theorem_or_correspondence="model_c04 NODE/CPPTYPE vs header text"), found_input=bool(unsound))


def _pinned(chk):
    out = []
    for k in chk.known:
        if k.get("property") == PROP and k.get("status") == "open":
            inp = json.loads(k["input"])
            c = viewcorr.Case("pinned/" + k["key"], inp["module"])
            c.prepared = cppdrv.prepare(c.text)
            if c.prepared.ok:
                out.append((k, c, inp["commands"]))
    return out


def _run(chk, tier, model_ok=True):
    r = common.rng("C04")
    quick = tier == "quick"
    stats = collections.Counter()
    cases, dist = viewcorr.make_cases(chk, r, 10 if quick else 6, corpus_prop=PROP,
                                      testdata=viewcorr.TESTDATA[:7] if quick else viewcorr.TESTDATA,
                                      null_order_modules=1 if quick else 2)
    pinned = _pinned(chk)
    _type_tie(chk, cases, stats, model_ok)
    builds = [("g++ -std=c++14 -O0", dict(std="c++14", compiler="g++", opt="-O0", defines=()), "OBS")]
    if not quick:
        builds += [("clang++ -std=c++17 -O1", dict(std="c++17", compiler="clang++", opt="-O1", defines=()), "OBS"),
                   ("g++ -std=c++11 -O1 -DEMBOSS_NO_OPTIMIZATIONS",
                    dict(std="c++11", compiler="g++", opt="-O1", defines=("EMBOSS_NO_OPTIMIZATIONS",)), "OBS"),
                   ("g++ -std=c++17 -O1 aligned", dict(std="c++17", compiler="g++", opt="-O1", defines=()), "OBSA")]
    for label, kw, op_obs in builds:
        feats = ("obsa", "wr", "eq", "cp", "txt") if op_obs == "OBSA" else ("obs", "wr", "eq", "cp", "txt")
        allc = cases + [c for _k, c, _cmds in pinned]
        failed = viewcorr.build_cases(allc, features=feats, workers=8, **kw)
        for c in failed:
            raise common.InfraError("driver of %s does not compile (%s): %s" % (c.name, label, c.build_log[-1500:]))
        if label == builds[0][0]:
            for k, c, cmds in pinned:
                for cmd in cmds:
                    rr, _out = cppdrv.ask(c.binary, [cmd])
                    if rr.kind in ("sanitizer", "check-failed", "crash") and viewcorr.crash_key(rr, cmd, c) == k["key"]:
                        chk.report_known(k)
                        break
        _run_cases(chk, cases, common.rng("C04-" + label), tier, stats, label, op_obs)
    chk.extra["generator"] = dist.as_dict()
    chk.extra["stats"] = dict(stats)
    chk.extra["builds"] = [b[0] for b in builds]
    chk.extra["cases"] = [c.name for c in cases]


TEXT_PROBE_TESTDATA = ("int_sizes.emb", "condition.emb")


def _text_probe(chk):
    """Text output on the real code, model-free: corpus modules (pinned `TXT` commands: the minimum
    of every signed carrier type in base 2 with digit grouping) and testdata modules with every
    integer width, `TXT` on boundary buffers (every fixed-position field at min / max / all-ones)
    under every option set, sanitized build with EMBOSS_CHECK/DCHECK live."""
    r = common.rng("C04-text-probe")
    stats = collections.Counter()
    cases, _dist = viewcorr.make_cases(chk, r, 0, corpus_prop=PROP, testdata=TEXT_PROBE_TESTDATA)
    failed = viewcorr.build_cases(cases, features=("txt",), workers=4, std="c++14", compiler="g++", opt="-O0")
    for c in failed:
        raise common.InfraError("text driver of %s does not compile: %s" % (c.name, c.build_log[-1500:]))
    for case in cases:
        cmds = viewcorr.pinned_commands(case, ("TXT",))
        cmds += [c for c in viewcorr.text_commands(r, case, "quick", cap=64) if c.startswith("TXT ")]

        def on_crash(cmd, rr, case=case):
            key = viewcorr.crash_key(rr, cmd, case)
            stats["crash:" + key] += 1
            if len(chk.violations) < 12:
                chk.violation("input", {"module": case.text, "case": case.name, "build": "g++ -std=c++14 -O0 (text probe)",
                                        "command": cmd, "observed": "%s: %s" % (rr.kind, (rr.err or "")[:1500]),
                                        "expected": "no sanitizer report, no EMBOSS_CHECK/DCHECK abort in text output "
                                                    "(C04_text_buffer_in_bounds: every index of the scratch array of "
                                                    "WriteIntegerToTextStream is inside it)"}, key=key)
        answers = viewcorr.run_surviving(case, cmds, on_crash, max_crashes=6)
        for c, a in zip(cmds, answers):
            if a is not None:
                chk.count()
                stats["cmd_TXT"] += 1
                chk.nontrivial((case.name, c.split()[1], "TXT", a[:12]))
        if cmds:
            chk.sample({"case": case.name, "build": "text probe", "command": cmds[0], "answer": (answers[0] or "crash")[:200]})
    chk.extra["text_probe"] = dict(stats, cases=[c.name for c in cases])


def search(chk):
    before = len(chk.violations)
    if any("TextBuf" in m for m in chk.failed_modules()) or "TextBuf" in " ".join(chk.first_errors()):
        # the text-buffer obligation is (among) what broke: look there first, stop when a failing input is found
        _text_probe(chk)
        if len(chk.violations) > before:
            return len(chk.violations) - before
    _run(chk, "quick", model_ok=False)
    return len(chk.violations) - before


def run(tier):
    chk = common.Check(PROP, tier, exes=["model_c04"])
    chk.cov["rule"] = ("one evaluation = one checked-API command (OBS/WR/EQ/CP/CPO) executed by the sanitized "
                       "driver; non-trivial = distinct (case, structure, command kind, answer prefix)")
    chk.trusted += ["ASan/UBSan (g++ 12, clang++ 14) as the oracle for out-of-bounds accesses and UB; what they do "
                    "not instrument (out-of-range pointer formation, aliasing) is not observed",
                    "harness/lib/cpptypes.py (IR walk + header regex of the carrier-type tie)",
                    "harness/translate/textbuf.py (regex over WriteIntegerToTextStream: size formula, NUL index, first "
                    "next_char); CHAR_BIT = 8; the correspondence writeInt = real WriteIntegerToTextStream is C06's"]
    chk.assumptions.append("real memory safety is claimed only as far as the sanitizers observe it (level partial)")
    # tie T (text layer): size formula / offsets of WriteIntegerToTextStream's scratch array from the header text
    tb, why, changed = textbuf.regenerate()
    chk.extra["textbuf_table"] = {"parsed": tb is not None, "reason": why, "regenerated_file_changed": changed,
                                  "formula": tb and "bits * %(mul)d / %(div)d + %(add)d" % tb,
                                  "nul_index": tb and "size - %(nul_back)d" % tb,
                                  "first_next_char": tb and "size - %(first_back)d" % tb}
    model_ok = common.proof_gate(chk, search)
    if model_ok:
        _run(chk, tier)
    return chk.finish()


def replay(path):
    rec = json.load(open(path))
    p = cppdrv.prepare(rec["module"])
    if not p.ok:
        print("module rejected:", p.errors, p.exception)
        return 1
    if rec.get("command") == "(header only)":
        class _C:
            pass
        c = _C()
        c.prepared, c.name, c.text = p, rec.get("case", "replay"), rec["module"]
        problems, _st = cpptypes.check_modules([c])
        for pr in problems:
            print({k: v for k, v in pr.items() if k != "module"})
        print("carrier types agree" if not problems else "carrier types differ")
        return 0
    (b, log), = cppdrv.build([p], features=("obs", "obsa", "wr", "eq", "cp", "txt"))
    if not b:
        print(log[-2000:])
        return 2
    rr, out = cppdrv.ask(b, [rec["command"]])
    print(rec["command"], "->", rr.kind, out)
    print(rr.err[-3000:])
    return 0
