"""C04 — checked view operations never leave the buffer, never hit undefined behaviour, never
trip EMBOSS_CHECK/DCHECK.

Tie (layer 3 of DESIGN §7 C04): every command the C01/C20 correspondences use — OBS over every
prefix 0..max+2 (Ok, IsComplete, SizeIsKnown, has_x, x().Ok(), Read once Ok, array at()), WR
(CouldWriteValue / TryToWrite with ordinary and extreme arguments), EQ (Equals once both Ok), CP /
CPO (TryToCopyFrom incl. overlapping windows) — runs in a driver built with ASan+UBSan
(-fno-sanitize-recover), exact-size heap buffers, EMBOSS_CHECK/DCHECK live.  Any sanitizer report or
CHECK abort is a violation with the command line as replay, independently of any model.
Thorough adds clang++, -DEMBOSS_NO_OPTIMIZATIONS (portable byte loops) and the aligned
(`MakeAligned…View<…, 8>`, typed loads) code path.

Lean side (Properties/C04.lean): the byte-window contract of `GetOffsetStorage` (clamping keeps
every window inside the buffer; the list-slice storage of the view model G is exactly that
window), a model of the byte orderers showing the `NullByteOrderer` size defect, and the
virtual-field write overflow witness.  The arithmetic theorem `C04_no_overflow` is builder
`bounds`' (Emboss/Properties/C04Arith.lean), imported after the merge.
"""
import collections
import time
import json

from harness.lib import common, cppdrv, viewcorr

PROP = "C04"


def _commands(r, case, tier, op_obs="OBS"):
    quick = tier == "quick"
    cmds = [s[0] for s in viewcorr.obs_sweeps(r, case, 3 if quick else 8, op=op_obs)]
    cmds += viewcorr.write_commands(r, case, 1 if quick else 3)
    cmds += viewcorr.pair_commands(r, case, 4 if quick else 10)
    return cmds


def _run_cases(chk, cases, r, tier, stats, label, op_obs="OBS"):
    for case in cases:
        if len(chk.violations) >= 12:
            chk.extra["stopped_early"] = "12 violations reported; remaining cases not run"
            break
        cmds = _commands(r, case, tier, op_obs)

        def on_crash(cmd, rr, case=case):
            key = viewcorr.crash_key(rr, cmd, case)
            stats["crash:" + key] += 1
            chk.violation("input", {"module": case.text, "case": case.name, "build": label, "command": cmd,
                                    "observed": "%s: %s" % (rr.kind, (rr.err or "")[:1500]),
                                    "expected": "no sanitizer report, no EMBOSS_CHECK abort on the checked API"},
                          key=key)
        answers = viewcorr.run_surviving(case, cmds, on_crash, max_crashes=6)
        for c, a in zip(cmds, answers):
            if a is None:
                continue
            chk.count()
            op = c.split(" ", 1)[0]
            stats["cmd_" + op] += 1
            if a == "bad-op":
                raise common.InfraError("driver rejected %r" % c)
            # distinct behaviours reached
            chk.nontrivial((case.name, c.split()[1], op, a[:12] if op != "OBS" else a[:16]))
        if len(chk.cov["samples"]) < 5 and cmds:
            chk.sample({"case": case.name, "build": label, "command": cmds[-1], "answer": (answers[-1] or "")[:200]})


def _pinned(chk):
    out = []
    for k in chk.known:
        if k.get("property") == PROP and k.get("status") == "open":
            inp = json.loads(k["input"])
            c = viewcorr.Case("pinned/" + k["key"], inp["module"])
            c.prepared = cppdrv.prepare(c.text)
            if c.prepared.ok:
                out.append((k, c, inp["commands"]))
    return out


def _run(chk, tier):
    r = common.rng("C04")
    quick = tier == "quick"
    stats = collections.Counter()
    cases, dist = viewcorr.make_cases(chk, r, 10 if quick else 6, corpus_prop=PROP,
                                      testdata=viewcorr.TESTDATA[:7] if quick else viewcorr.TESTDATA,
                                      null_order_modules=1 if quick else 2)
    pinned = _pinned(chk)
    builds = [("g++ -std=c++14 -O0", dict(std="c++14", compiler="g++", opt="-O0", defines=()), "OBS")]
    if not quick:
        builds += [("clang++ -std=c++17 -O1", dict(std="c++17", compiler="clang++", opt="-O1", defines=()), "OBS"),
                   ("g++ -std=c++11 -O1 -DEMBOSS_NO_OPTIMIZATIONS",
                    dict(std="c++11", compiler="g++", opt="-O1", defines=("EMBOSS_NO_OPTIMIZATIONS",)), "OBS"),
                   ("g++ -std=c++17 -O1 aligned", dict(std="c++17", compiler="g++", opt="-O1", defines=()), "OBSA")]
    for label, kw, op_obs in builds:
        feats = ("obsa", "wr", "eq", "cp") if op_obs == "OBSA" else ("obs", "wr", "eq", "cp")
        allc = cases + [c for _k, c, _cmds in pinned]
        failed = viewcorr.build_cases(allc, features=feats, workers=8, **kw)
        for c in failed:
            raise common.InfraError("driver of %s does not compile (%s): %s" % (c.name, label, c.build_log[-1500:]))
        if label == builds[0][0]:
            for k, c, cmds in pinned:
                for cmd in cmds:
                    rr, _out = cppdrv.ask(c.binary, [cmd])
                    if rr.kind in ("sanitizer", "check-failed", "crash") and viewcorr.crash_key(rr, cmd, c) == k["key"]:
                        chk.report_known(k)
                        break
        _run_cases(chk, cases, common.rng("C04-" + label), tier, stats, label, op_obs)
    chk.extra["generator"] = dist.as_dict()
    chk.extra["stats"] = dict(stats)
    chk.extra["builds"] = [b[0] for b in builds]
    chk.extra["cases"] = [c.name for c in cases]


def search(chk):
    before = len(chk.violations)
    _run(chk, "quick")
    return len(chk.violations) - before


def run(tier):
    chk = common.Check(PROP, tier, exes=[])
    chk.cov["rule"] = ("one evaluation = one checked-API command (OBS/WR/EQ/CP/CPO) executed by the sanitized "
                       "driver; non-trivial = distinct (case, structure, command kind, answer prefix)")
    chk.trusted += ["ASan/UBSan (g++ 12, clang++ 14) as the oracle for out-of-bounds accesses and UB; what they do "
                    "not instrument (out-of-range pointer formation, aliasing) is not observed",
                    "Emboss/Properties/C04Arith.lean (builder `bounds`) for arithmetic overflow freedom — "
                    "TODO import after the merge"]
    chk.assumptions.append("real memory safety is claimed only as far as the sanitizers observe it (level partial)")
    model_ok = common.proof_gate(chk, search)
    if model_ok:
        _run(chk, tier)
    return chk.finish()


def replay(path):
    rec = json.load(open(path))
    p = cppdrv.prepare(rec["module"])
    if not p.ok:
        print("module rejected:", p.errors, p.exception)
        return 1
    (b, log), = cppdrv.build([p], features=("obs", "obsa", "wr", "eq", "cp"))
    if not b:
        print(log[-2000:])
        return 2
    rr, out = cppdrv.ask(b, [rec["command"]])
    print(rec["command"], "->", rr.kind, out)
    print(rr.err[-3000:])
    return 0
